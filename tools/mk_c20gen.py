"""Writes Proofs/EffectsGenCheck.v and Props/C20gen.v (one lemma / theorem per entry of anchors_effects.ENTRIES).
Run again after changing ENTRIES:  OUT=/verif/coq /venv/bin/python tools/mk_c20gen.py"""
import sys
sys.path.insert(0,'/verif/harness')
from vharness.anchors_effects import ENTRIES
chk=['(* Proofs/EffectsGenCheck.v -- the regenerated effect summaries (Generated/EffectSummaries.v) pass the verified',
'   test writes_only_fresh; evaluated by vm_compute, i.e. RE-CHECKED against what the Python source says now on',
'   every build.  If one of these fails, the named entry point writes into an object it was handed (or the',
'   translator could not show that it does not): read the offending SSetKey / SAppend (Arg i) line of the summary,',
'   its comment names the source line. *)',
'From PB Require Import Model.Effects Model.EffectsGen Proofs.EffectsGenP Generated.EffectSummaries.','']
pr=['(* Props/C20gen.v -- property C20 (rules and analyses leave their inputs untouched), theorem half over effect',
'   summaries that are REGENERATED FROM THE PYTHON SOURCE on every run (Generated/EffectSummaries.v, written by',
'   harness/vharness/anchors_effects.py; trusted base of the translator: DESIGN.md, C20 translator section).',
'   For every entry point: the summary passes the verified test writes_only_fresh (Proofs/EffectsGenCheck.v, by',
'   evaluation), hence (Proofs/EffectsGenP.v wof_frame, the interprocedural strengthening of C20_exec_frame) running',
'   it leaves the caller view of the whole pre-existing store unchanged.  Internal helpers that are SPECIFIED to',
'   write into some of their parameters (work parameters, p_work) get the same statement for every view that',
'   does not contain those parameters.  Only statements closed by exact. *)',
'From PB Require Import Model.Effects Model.EffectsGen Proofs.EffectsP Proofs.EffectsGenP Generated.EffectSummaries',
'  Proofs.EffectsGenCheck.','',
'(* soundness of the test, for ANY table of programs: the interprocedural frame theorem *)',
'Theorem C20gen_wof_frame : forall progs fuel na af p nl,',
'  wof fuel progs na af p nl = true ->',
'  forall fuel\' n args locals s,',
'  length args = na -> length locals = nl ->',
'  work_outside n af args ->',
'  (forall l, In l locals -> (n <= l)%nat) ->',
'  (n <= length s)%nat ->',
'  (length s <= length (exec fuel\' progs args p locals s))%nat /\\',
'  caller_view n (exec fuel\' progs args p locals s) = caller_view n s.',
'Proof. exact wof_frame. Qed.',
'Print Assumptions C20gen_wof_frame.','',
'(* every regenerated summary passes the test *)',
'Theorem C20gen_all_summaries_checked : forallb (writes_only_fresh gen_progs) gen_summaries = true.',
'Proof. exact all_summaries_ok. Qed.',
'Print Assumptions C20gen_all_summaries_checked.','']
for name,work in ENTRIES:
    chk+=['Lemma ok_%s : writes_only_fresh gen_progs summary_%s = true.'%(name,name),'Proof. vm_compute. reflexivity. Qed.']
    if not work:
        chk+=['Lemma nw_%s : no_work summary_%s = true.'%(name,name),'Proof. reflexivity. Qed.']
        pr+=['Theorem C20gen_%s_pure : forall fuel s args, length args = p_arity summary_%s ->'%(name,name),
             '  caller_view (length s) (run_summary fuel gen_progs summary_%s s args) = caller_view (length s) s.'%name,
             'Proof. exact (summary_pure gen_progs summary_%s ok_%s nw_%s). Qed.'%(name,name,name),
             'Print Assumptions C20gen_%s_pure.'%name]
    else:
        pr+=['(* work parameters: %s *)'%', '.join(work),
             'Theorem C20gen_%s_frame : forall fuel s args n, length args = p_arity summary_%s ->'%(name,name),
             '  (n <= length s)%%nat -> work_outside n (p_work summary_%s) args ->'%name,
             '  caller_view n (run_summary fuel gen_progs summary_%s s args) = caller_view n s.'%name,
             'Proof. exact (summary_frame gen_progs summary_%s ok_%s). Qed.'%(name,name),
             'Print Assumptions C20gen_%s_frame.'%name]
chk+=['','Lemma all_summaries_ok : forallb (writes_only_fresh gen_progs) gen_summaries = true.','Proof. vm_compute. reflexivity. Qed.']
chk+=['',
'(* the explicitly excluded statements are real writes into caller-owned objects: every summary that keeps them',
'   FAILS the test unless the target is one of its work parameters (the documented final_budget override of calculate_effective_supports, and whatever else the',
'   exception table of the translator currently lists) *)',
'Lemma all_full_summaries_rejected :',
'  forallb (fun p => negb (no_work p) || negb (writes_only_fresh gen_progs p)) gen_summaries_full = true.',
'Proof. vm_compute. reflexivity. Qed.',
'Lemma final_budget_override_rejected :',
'  writes_only_fresh gen_progs summary_calculate_effective_supports_full = false.',
'Proof. vm_compute. reflexivity. Qed.','',
'(* non-vacuity on a concrete store: nine caller objects; the budget-increase wrapper allocates and writes a lot and',
'   leaves all nine as they were; the final_budget override changes the instance *)',
'Definition demo_store : store :=',
'  map (fun k => mkCell (T k [T 5 [Lq (3 # 1)]]) []) (seq 1 9).',
'Lemma demo_increase :',
'  let s\' := run_summary 6 gen_progs summary_exhaustion_by_budget_increase demo_store (seq 0 9) in',
'  caller_view 9 s\' = caller_view 9 demo_store /\\ (9 < length s\')%nat /\\',
'  firstn 9 s\' <> demo_store.',
'Proof. vm_compute. repeat split; try reflexivity; try lia. discriminate. Qed.',
'Lemma demo_override :',
'  caller_view 5 (run_summary 6 gen_progs summary_calculate_effective_supports_full demo_store (seq 0 5))',
'  <> caller_view 5 demo_store.',
'Proof. vm_compute. discriminate. Qed.']
pr+=['',
'(* the statements the translator is told to leave out are genuine writes to the caller: with them, the test fails *)',
'Theorem C20gen_exceptions_rejected :',
'  forallb (fun p => negb (no_work p) || negb (writes_only_fresh gen_progs p)) gen_summaries_full = true.',
'Proof. exact all_full_summaries_rejected. Qed.',
'Print Assumptions C20gen_exceptions_rejected.',
'Theorem C20gen_final_budget_override_rejected :',
'  writes_only_fresh gen_progs summary_calculate_effective_supports_full = false.',
'Proof. exact final_budget_override_rejected. Qed.',
'Print Assumptions C20gen_final_budget_override_rejected.',
'(* and the test rejects ANY keyed write / append through a parameter that is not a work parameter *)',
'Theorem C20gen_test_rejects_arg_write : forall fuel progs na af i key v rest nl,',
'  nth i af false = false -> wof fuel progs na af (SSetKey (Arg i) key v :: rest) nl = false.',
'Proof. exact wof_rejects_arg_write. Qed.',
'Print Assumptions C20gen_test_rejects_arg_write.',
'Theorem C20gen_test_rejects_arg_append : forall fuel progs na af i v rest nl,',
'  nth i af false = false -> wof fuel progs na af (SAppend (Arg i) v :: rest) nl = false.',
'Proof. exact wof_rejects_arg_append. Qed.',
'Print Assumptions C20gen_test_rejects_arg_append.','',
'(* non-vacuity: on a store of nine caller objects the summary of exhaustion_by_budget_increase allocates, writes',
'   (memo caches of caller objects included) and leaves the caller view as it was; the summary of',
'   calculate_effective_supports that keeps the final_budget override changes the instance *)',
'Example C20gen_nonvacuous :',
'  (let s\' := run_summary 6 gen_progs summary_exhaustion_by_budget_increase demo_store (seq 0 9) in',
'   caller_view 9 s\' = caller_view 9 demo_store /\\ (9 < length s\')%nat /\\ firstn 9 s\' <> demo_store) /\\',
'  caller_view 5 (run_summary 6 gen_progs summary_calculate_effective_supports_full demo_store (seq 0 5))',
'  <> caller_view 5 demo_store.',
'Proof. exact (conj demo_increase demo_override). Qed.']
import os
OUT=os.environ.get('OUT','/work/effects/coq')
open(OUT+'/theories/Proofs/EffectsGenCheck.v','w').write('\n'.join(chk)+'\n')
open(OUT+'/theories/Props/C20gen.v','w').write('\n'.join(pr)+'\n')
