#!/bin/bash
# tools/seed_regression.sh [N parallel]  -- every kept seeded change against the quick check of its property
N="${1:-3}"
cd /verif
ls -d seeded/* | while read d; do p=$(python3 -c "import json;print(json.load(open('$d/meta.json'))['property'])"); echo "$p $d"; done > /tmp/seedreg.list
split -n l/$N /tmp/seedreg.list /tmp/seedreg.part.
for f in /tmp/seedreg.part.*; do
  ( while read p d; do r=$(tools/try_seed.sh $p /verif/$d 2>&1 | grep -v conda | grep -E "CAUGHT|MISSED|APPLY|cannot" | head -1 | cut -c1-60); echo "$d $p :: $r"; done < $f > $f.out 2>&1 ) &
done
wait
cat /tmp/seedreg.part.*.out | sort > /tmp/seedreg.result
grep -c CAUGHT /tmp/seedreg.result; grep -v CAUGHT /tmp/seedreg.result
