#!/bin/bash
# Locked build of a Coq tree.  usage: tools/build.sh [coq-dir]   (default /verif/coq)
D="${1:-/verif/coq}"
exec flock "$D/.buildlock" timeout 3000 make -C "$D" -k -j8 2>&1 | grep -v 'conda'
