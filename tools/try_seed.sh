#!/bin/bash
# tools/try_seed.sh <PROP> <dir with patch.diff demo.py> [extra props...]
# Confirms a seeded change (tests pass, demo fails with / passes without) and runs the check(s) against it
# in a scratch worktree + private Coq tree.  Prints a one-line verdict per property.
P="$1"; D="$2"; shift 2; EXTRA="$@"
WT=/tmp/seedwt-$$; 
git -C /repo worktree add --detach $WT HEAD >/dev/null 2>&1 || { echo "cannot create worktree"; exit 2; }
trap 'git -C /repo worktree remove --force $WT >/dev/null 2>&1' EXIT
cd $WT
PYTHONPATH=$WT /venv/bin/python "$D/demo.py" $WT >/tmp/seed_demo0.$$ 2>&1; R0=$?
git apply "$D/patch.diff" || { echo "PATCH DOES NOT APPLY"; exit 2; }
PYTHONPATH=$WT /venv/bin/python -m pytest -q -p no:cacheprovider --timeout=900 tests --deselect tests/PaBuLib/test_pabulib_data.py --deselect tests/test_pabulib.py::TestPabulib::test_url_parse -q 2>&1 | tail -1 > /tmp/seed_tests.$$
PYTHONPATH=$WT /venv/bin/python "$D/demo.py" $WT >/tmp/seed_demo1.$$ 2>&1; R1=$?
echo "demo on HEAD rc=$R0 ; demo with patch rc=$R1 ; tests: $(cat /tmp/seed_tests.$$)"
ST=/work/seedtest-$$; mkdir -p $ST; rsync -a --exclude .buildlock /verif/coq/ $ST/coq/
cd /verif
for Q in $P $EXTRA; do
  OUT=$(VERIF_REPO=$WT VERIF_COQ=$ST/coq timeout 1500 ./check $Q quick 2>&1 | grep -v conda | tail -4)
  if echo "$OUT" | grep -q "^VIOLATION"; then echo "$Q: CAUGHT  $(echo "$OUT" | grep '^VIOLATION')"; else echo "$Q: MISSED  $(echo "$OUT" | tail -1)"; fi
done
rm -rf $ST; rm -f /tmp/seed_demo0.$$ /tmp/seed_demo1.$$ /tmp/seed_tests.$$
