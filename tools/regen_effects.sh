#!/bin/bash
# Regenerate coq/theories/Generated/EffectSummaries.v from the Python source (until core.regenerate_anchors calls it).
# usage: tools/regen_effects.sh [repo] [coq-dir]
R="${1:-${VERIF_REPO:-/repo}}"; C="${2:-${VERIF_COQ:-/verif/coq}}"
cd /verif/harness && exec /venv/bin/python -c "import sys; from vharness import anchors_effects; anchors_effects.regenerate(sys.argv[1], sys.argv[2])" "$R" "$C" 2>&1 | grep -v conda
