#!/usr/bin/env python3
"""Rewrite the section of DESIGN.md between <!-- SEEDS:BEGIN --> and <!-- SEEDS:END --> from seeded/*/meta.json."""
import glob, json, os, re
V = os.path.dirname(os.path.dirname(os.path.abspath(__file__)))
rows = []
for d in sorted(glob.glob(os.path.join(V, "seeded", "*"))):
    try:
        m = json.load(open(os.path.join(d, "meta.json")))
    except Exception:
        continue
    def cell(x, n):
        x = re.sub(r"\s+", " ", str(x)).replace("|", "/")
        return x if len(x) <= n else x[: n - 1] + "…"
    rows.append("| `%s` | %s | %s | %s | %s |" % (os.path.basename(d), m.get("property", "?"), cell(m.get("summary", ""), 230),
                                               cell(m.get("needs", ""), 200), cell(m.get("check_result", ""), 260)))
txt = ("| seeded change | property | what the change does | what it needs to manifest | result of the checks |\n|---|---|---|---|---|\n"
       + "\n".join(rows) + "\n")
p = os.path.join(V, "DESIGN.md")
s = open(p).read()
a, b = "<!-- SEEDS:BEGIN -->", "<!-- SEEDS:END -->"
if a not in s:
    s += "\n" + a + "\n" + b + "\n"
s = s[: s.index(a) + len(a)] + "\n" + txt + s[s.index(b):]
open(p, "w").write(s)
print(len(rows), "seeded changes listed")
