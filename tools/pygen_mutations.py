#!/usr/bin/env python3
"""Regression of the regenerated tie (pytrans): behaviour-preserving REWRITES of the translated functions must keep
Props/C10gen.v and Props/TieGen.v checking; BREAKING edits must make a theorem fail.
usage: pygen_mutations.py [worktree=/tmp/wt-pygen] [coq=/work/pygen/coq] [name-filter]
(the worktree is a scratch checkout of /repo: git -C /repo worktree add /tmp/wt-pygen HEAD)"""
import os, re, subprocess, sys, time

WT = sys.argv[1] if len(sys.argv) > 1 else "/tmp/wt-pygen"
COQ = sys.argv[2] if len(sys.argv) > 2 else "/work/pygen/coq"
FILT = sys.argv[3] if len(sys.argv) > 3 else ""
TRY = os.path.join(os.path.dirname(os.path.abspath(__file__)), "pygen_try.sh")   # PYGEN_HARNESS selects the harness copy
ADD = "pabutools/election/satisfaction/additivesatisfaction.py"
FUN = "pabutools/election/satisfaction/functionalsatisfaction.py"
POS = "pabutools/election/satisfaction/positionalsatisfaction.py"
TIE = "pabutools/tiebreaking.py"

# (name, kind, [(file, old, new), ...])
M = []
def R(name, *edits): M.append((name, "rewrite", edits))
def B(name, *edits): M.append((name, "break", edits))

# ---------------- behaviour-preserving rewrites ----------------
R("R01 cost: conditional expression", (ADD, "    return int(project in ballot) * project.cost\n",
  "    return project.cost if project in ballot else 0\n"))
R("R02 cardinality: if/return", (ADD, "    return int(project in ballot)\n",
  "    if project in ballot:\n        return 1\n    return 0\n"))
R("R03 cc_card: comprehension max", (FUN, """    res = 0
    for p in projects:
        if p in ballot and ballot[p] > res:
            res = ballot[p]
    return res
""", "    return max([0] + [ballot[p] for p in projects if p in ballot])\n"))
R("R04 cc_app: loop with early return", (FUN, "    return int(any(p in ballot for p in projects))\n",
  "    for p in projects:\n        if p in ballot:\n            return 1\n    return 0\n"))
R("R05 effort: accumulator loop, == 0 test", (ADD, """    denominator = sum(profile.multiplicity(b) for b in profile if project in b)
    if denominator:
        return int(project in ballot) * frac(project.cost, denominator)
    return 0
""", """    supporters = 0
    for other in profile:
        if project in other:
            supporters += profile.multiplicity(other)
    if supporters == 0:
        return 0
    return int(project in ballot) * frac(project.cost, supporters)
"""))
R("R06 borda: reordered if, reordered subtraction", (POS, """    if project in ballot:
        return len(ballot) - ballot.position(project) - 1
    return 0
""", """    if project not in ballot:
        return 0
    return len(ballot) - 1 - ballot.position(project)
"""))
R("R07 relative_cost: local variable, inverted test", (ADD, """    if precomputed_values["max_budget_allocation_cost"] == 0:
        return 0
    return frac(
        int(project in ballot) * project.cost,
        precomputed_values["max_budget_allocation_cost"],
    )
""", """    norm = precomputed_values["max_budget_allocation_cost"]
    if norm != 0:
        return frac(int(project in ballot) * project.cost, norm)
    return 0
"""))
R("R08 relative_cardinality: key renamed in function and preprocessing",
  (ADD, """    if precomputed_values["max_budget_allocation_card"] == 0:
        return 0
    return frac(
        int(project in ballot), precomputed_values["max_budget_allocation_card"]
    )
""", """    if precomputed_values["max_card"] == 0:
        return 0
    return frac(int(project in ballot), precomputed_values["max_card"])
"""), (ADD, """            "max_budget_allocation_card": max_budget_allocation_cardinality(""",
       """            "max_card": max_budget_allocation_cardinality("""))
R("R09 approx normaliser: min arguments swapped, generator", (ADD,
  """            "normalizer": min(total_cost([p for p in ballot]), instance.budget_limit)""",
  """            "normalizer": min(instance.budget_limit, total_cost(p for p in ballot))"""))
R("R10 AdditiveSatisfaction.sat: accumulator loop", (ADD, "        return sum(self.get_project_sat(p) for p in proj)\n",
  "        total = 0\n        for p in proj:\n            total += self.get_project_sat(p)\n        return total\n"))
R("R11 get_project_sat: `not in` memo", (ADD, """        score = self.scores.get(project, None)
        if score is None:
            score = self.func(
                self.instance,
                self.profile,
                self.ballot,
                project,
                self.precomputed_values,
            )
            self.scores[project] = score
        return score
""", """        if project not in self.scores:
            self.scores[project] = self.func(
                self.instance, self.profile, self.ballot, project, self.precomputed_values
            )
        return self.scores[project]
"""))
R("R12 additive_card: subscript under a membership test", (ADD, "    return ballot.get(project, 0)\n",
  "    return ballot[project] if project in ballot else 0\n"))
R("R13 max_cost key: 0 - cost", (TIE, "lambda inst, prof, proj: -proj.cost)", "lambda inst, prof, proj: 0 - proj.cost)"))
R("R14 order: conditional expression for the key", (TIE, """        if key is None:
            key = default_key
        return sorted(
            projects,
            key=lambda project: self.func(instance, profile, key(project)),
        )
""", """        key_func = default_key if key is None else key
        return sorted(projects, key=lambda p: self.func(instance, profile, key_func(p)))
"""))
R("R15 untie: local variable", (TIE, "        return self.order(instance, profile, projects, key)[0]\n",
  "        ordered = self.order(instance, profile, projects, key)\n        return ordered[0]\n"))
R("R16 cost: docstring-free, assert, annotated local", (ADD, "    return int(project in ballot) * project.cost\n",
  "    assert isinstance(project, Project)\n    approved: bool = project in ballot\n    # the cost counts only if approved\n    return int(approved) * project.cost\n"))
R("R17 Cost_Sat.__init__: super()", (ADD,
  "        AdditiveSatisfaction.__init__(self, instance, profile, ballot, cost_sat_func)\n",
  "        super().__init__(instance, profile, ballot, cost_sat_func)\n"))
R("R18 CC_Sat.__init__: branches reordered", (FUN, """        if isinstance(ballot, AbstractApprovalBallot):
            FunctionalSatisfaction.__init__(
                self, instance, profile, ballot, cc_sat_func_app
            )
        elif isinstance(ballot, AbstractCardinalBallot):
            FunctionalSatisfaction.__init__(
                self, instance, profile, ballot, cc_sat_func_card
            )
""", """        if isinstance(ballot, AbstractCardinalBallot):
            FunctionalSatisfaction.__init__(self, instance, profile, ballot, cc_sat_func_card)
        elif isinstance(ballot, AbstractApprovalBallot):
            FunctionalSatisfaction.__init__(self, instance, profile, ballot, cc_sat_func_app)
"""))
R("R19 PositionalSatisfaction.sat: generator handed to the aggregator", (POS, """        scores = [self.positional_func(self.ballot, project) for project in projects]
        return self.aggregation_func(scores)
""", "        return self.aggregation_func(self.positional_func(self.ballot, p) for p in projects)\n"))
R("R20 app_score key: -1 * score", (TIE, "-prof.approval_score(proj)", "-1 * prof.approval_score(proj)"))
R("R21 cc_card: >= for > (same value is stored)", (FUN, "ballot[p] > res", "ballot[p] >= res"))
R("R22 relative_cost_approx: conditional expression", (ADD, """    if precomputed_values["normalizer"] == 0:
        return 0
    return frac(int(project in ballot) * project.cost, precomputed_values["normalizer"])
""", """    n = precomputed_values["normalizer"]
    return 0 if n == 0 else frac(project.cost if project in ballot else 0, n)
"""))
R("R23 Additive_Borda_Sat.__init__: negated guard first", (POS, """        if isinstance(ballot, AbstractOrdinalBallot):
            PositionalSatisfaction.__init__(
                self, instance, profile, ballot, borda_sat_func, sum
            )
        else:
            raise ValueError(
                "The additive Borda satisfaction cannot be used for ballots of type {}".format(
                    type(ballot)
                )
            )
""", """        if not isinstance(ballot, AbstractOrdinalBallot):
            raise ValueError("The additive Borda satisfaction cannot be used for ballots of type {}".format(type(ballot)))
        PositionalSatisfaction.__init__(self, instance, profile, ballot, borda_sat_func, sum)
"""))
R("R24 cc_card: score read through .get (needs the invariant res >= 0)", (FUN, """        if p in ballot and ballot[p] > res:
            res = ballot[p]
""", """        score = ballot.get(p, 0)
        if score > res:
            res = score
"""))

# ---------------- a second, out-of-sample batch of rewrites (written after the tactic was tuned on R01-R24) ----------------
R("N01 effort: loop with continue", (ADD, """    denominator = sum(profile.multiplicity(b) for b in profile if project in b)
""", """    denominator = 0
    for b in profile:
        if project not in b:
            continue
        denominator = denominator + profile.multiplicity(b)
"""))
R("N02 borda: one conditional expression", (POS, """    if project in ballot:
        return len(ballot) - ballot.position(project) - 1
    return 0
""", "    return (len(ballot) - ballot.position(project) - 1) if project in ballot else 0\n"))
R("N03 cardinality: 1 if .. else 0", (ADD, "    return int(project in ballot)\n", "    return 1 if project in ballot else 0\n"))
R("N04 cost: early return 0", (ADD, "    return int(project in ballot) * project.cost\n",
  "    if project not in ballot:\n        return 0\n    return project.cost\n"))
R("N05 relative_cardinality: truthiness of the normaliser", (ADD, """    if precomputed_values["max_budget_allocation_card"] == 0:
        return 0
    return frac(
        int(project in ballot), precomputed_values["max_budget_allocation_card"]
    )
""", """    n = precomputed_values["max_budget_allocation_card"]
    return frac(int(project in ballot), n) if n else 0
"""))
R("N06 cc_app: 1 if any(..) else 0", (FUN, "    return int(any(p in ballot for p in projects))\n",
  "    return 1 if any(p in ballot for p in projects) else 0\n"))
R("N07 cc_app: length of the intersection", (FUN, "    return int(any(p in ballot for p in projects))\n",
  "    return int(len([p for p in projects if p in ballot]) > 0)\n"))
R("N08 cc_card: continue, nested if", (FUN, """        if p in ballot and ballot[p] > res:
            res = ballot[p]
""", """        if p not in ballot:
            continue
        if ballot[p] > res:
            res = ballot[p]
"""))
R("N09 FunctionalSatisfaction.sat_project: direct call", (FUN, "        return self.sat([project])\n",
  "        return self.func(self.instance, self.profile, self.ballot, [project])\n"))
R("N10 approx normaliser: explicit comparison", (ADD, """        return {
            "normalizer": min(total_cost([p for p in ballot]), instance.budget_limit)
        }
""", """        c = total_cost(ballot)
        return {"normalizer": c if c <= instance.budget_limit else instance.budget_limit}
"""))
R("N11 AdditiveSatisfaction: list comprehension, sat_project through sat", (ADD,
  "        return sum(self.get_project_sat(p) for p in proj)\n", "        return sum([self.get_project_sat(p) for p in proj])\n"),
  (ADD, "        return self.get_project_sat(project)\n", "        return self.sat([project])\n"))
R("N12 lexico key: parameters renamed", (TIE, "lambda inst, prof, proj: proj.name)", "lambda instance, profile, project: project.name)"))
R("N13 min_cost key: a named function", (TIE, "min_cost_tie_breaking = TieBreakingRule(lambda inst, prof, proj: proj.cost)",
  "def _cost_key(inst, prof, proj):\n    return proj.cost\n\n\nmin_cost_tie_breaking = TieBreakingRule(_cost_key)"))
R("N14 relative_cost: locals first", (ADD, """    if precomputed_values["max_budget_allocation_cost"] == 0:
        return 0
    return frac(
        int(project in ballot) * project.cost,
        precomputed_values["max_budget_allocation_cost"],
    )
""", """    x = int(project in ballot) * project.cost
    n = precomputed_values["max_budget_allocation_cost"]
    if n == 0:
        return 0
    return frac(x, n)
"""))
R("N15 effort: denominator > 0", (ADD, "    if denominator:\n", "    if denominator > 0:\n"))
R("N16 additive_card_relative: not-equal test, else branch", (ADD, """    if precomputed_values["max_budget_allocation_score"] == 0:
        return 0
    return frac(
        ballot.get(project, 0), precomputed_values["max_budget_allocation_score"]
    )
""", """    if precomputed_values["max_budget_allocation_score"] != 0:
        return frac(ballot.get(project, 0), precomputed_values["max_budget_allocation_score"])
    else:
        return 0
"""))

# ---------------- a third batch, run once after all tuning (the out-of-sample figure reported in DESIGN) ----------------
R("T01 cost: factors commuted", (ADD, "    return int(project in ballot) * project.cost\n", "    return project.cost * int(project in ballot)\n"))
R("T02 cardinality: double negation", (ADD, "    return int(project in ballot)\n", "    return int(not (project not in ballot))\n"))
R("T03 effort: list comprehension, negated test first", (ADD, """    denominator = sum(profile.multiplicity(b) for b in profile if project in b)
    if denominator:
        return int(project in ballot) * frac(project.cost, denominator)
    return 0
""", """    denominator = sum([profile.multiplicity(b) for b in profile if project in b])
    if not denominator:
        return 0
    return int(project in ballot) * frac(project.cost, denominator)
"""))
R("T04 borda: position with a default", (POS, """    if project in ballot:
        return len(ballot) - ballot.position(project) - 1
    return 0
""", """    pos = ballot.position(project) if project in ballot else len(ballot) - 1
    return len(ballot) - pos - 1
"""))
R("T05 cc_card: scores first, then a loop over them", (FUN, """    res = 0
    for p in projects:
        if p in ballot and ballot[p] > res:
            res = ballot[p]
    return res
""", """    scores = [ballot[p] for p in projects if p in ballot]
    res = 0
    for s in scores:
        if s > res:
            res = s
    return res
"""))
R("T06 cc_app: flag and break", (FUN, "    return int(any(p in ballot for p in projects))\n",
  "    found = False\n    for p in projects:\n        if p in ballot:\n            found = True\n            break\n    return int(found)\n"))
R("T07 relative_cost_approx: nested ifs", (ADD, """    if precomputed_values["normalizer"] == 0:
        return 0
    return frac(int(project in ballot) * project.cost, precomputed_values["normalizer"])
""", """    n = precomputed_values["normalizer"]
    if project in ballot:
        if n == 0:
            return 0
        return frac(project.cost, n)
    return 0
"""))
R("T08 get_project_sat: no cache", (ADD, """        score = self.scores.get(project, None)
        if score is None:
            score = self.func(
                self.instance,
                self.profile,
                self.ballot,
                project,
                self.precomputed_values,
            )
            self.scores[project] = score
        return score
""", "        return self.func(self.instance, self.profile, self.ballot, project, self.precomputed_values)\n"))
R("T09 PositionalSatisfaction.sat: append loop", (POS, """        scores = [self.positional_func(self.ballot, project) for project in projects]
        return self.aggregation_func(scores)
""", """        scores = []
        for project in projects:
            scores.append(self.positional_func(self.ballot, project))
        return self.aggregation_func(scores)
"""))
R("T10 untie: key chosen by a conditional expression", (TIE, """        if key is None:
            key = default_key
        return self.order(instance, profile, projects, key)[0]
""", """        k = key if key is not None else default_key
        return self.order(instance, profile, projects, k)[0]
"""))
R("T11 max_cost key: cost * -1", (TIE, "lambda inst, prof, proj: -proj.cost)", "lambda inst, prof, proj: proj.cost * -1)"))
R("T12 Relative_Cardinality_Sat.preprocessing: local variable", (ADD, """        return {
            "max_budget_allocation_card": max_budget_allocation_cardinality(
                ballot, instance.budget_limit
            )
        }
""", """        n = max_budget_allocation_cardinality(ballot, instance.budget_limit)
        return {"max_budget_allocation_card": n}
"""))

# ---------------- breaking edits ----------------
B("B01 cost: + for *", (ADD, "    return int(project in ballot) * project.cost\n", "    return int(project in ballot) + project.cost\n"))
B("B02 cc_card: < for >", (FUN, "ballot[p] > res", "ballot[p] < res"))
B("B03 borda: - 1 dropped", (POS, "len(ballot) - ballot.position(project) - 1", "len(ballot) - ballot.position(project)"))
B("B04 relative_cardinality: zero guard dropped", (ADD, """    if precomputed_values["max_budget_allocation_card"] == 0:
        return 0
    return frac(""", "    return frac("))
B("B05 approx normaliser: max for min", (ADD, '"normalizer": min(total_cost(', '"normalizer": max(total_cost('))
B("B06 app_score key without the minus", (TIE, "-prof.approval_score(proj)", "prof.approval_score(proj)"))
B("B07 approx normaliser: cost of the instance instead of the ballot", (ADD, "total_cost([p for p in ballot])", "total_cost([p for p in instance])"))
B("B08 effort: multiplicities ignored", (ADD, "sum(profile.multiplicity(b) for b in profile if project in b)", "sum(1 for b in profile if project in b)"))
B("B09 relative_cost: normaliser with the wrong budget", (ADD, """            "max_budget_allocation_cost": max_budget_allocation_cost(
                ballot, instance.budget_limit
            )""", """            "max_budget_allocation_cost": max_budget_allocation_cost(
                ballot, total_cost(instance)
            )"""))
B("B10 cc_app: all for any", (FUN, "int(any(p in ballot for p in projects))", "int(all(p in ballot for p in projects))"))
B("B11 additive_card: default 1", (ADD, "    return ballot.get(project, 0)\n", "    return ballot.get(project, 1)\n"))
B("B12 min_cost key: the negated cost", (TIE, "min_cost_tie_breaking = TieBreakingRule(lambda inst, prof, proj: proj.cost)",
   "min_cost_tie_breaking = TieBreakingRule(lambda inst, prof, proj: -proj.cost)"))
B("B13 untie: last instead of first", (TIE, "return self.order(instance, profile, projects, key)[0]", "return self.order(instance, profile, projects, key)[-1]"))
B("B14 Cost_Sat wired to the cardinality function", (ADD,
   "        AdditiveSatisfaction.__init__(self, instance, profile, ballot, cost_sat_func)\n",
   "        AdditiveSatisfaction.__init__(self, instance, profile, ballot, cardinality_sat_func)\n"))
B("B15 relative_cost: membership test dropped", (ADD, """        int(project in ballot) * project.cost,
        precomputed_values["max_budget_allocation_cost"],""", """        project.cost,
        precomputed_values["max_budget_allocation_cost"],"""))
B("B16 AdditiveSatisfaction.sat: max for sum", (ADD, "return sum(self.get_project_sat(p) for p in proj)", "return max(self.get_project_sat(p) for p in proj)"))
B("B17 order: reverse sort", (TIE, "            key=lambda project: self.func(instance, profile, key(project)),\n",
   "            key=lambda project: self.func(instance, profile, key(project)),\n            reverse=True,\n"))
B("B18 get_project_sat: cache keyed by the ballot", (ADD, "            self.scores[project] = score\n        return score", "            self.scores[project] = score\n        return self.scores[self.ballot]"))
B("B19 CC_Sat: guard dropped for the cardinal branch", (FUN, "        elif isinstance(ballot, AbstractCardinalBallot):\n            FunctionalSatisfaction.__init__(\n                self, instance, profile, ballot, cc_sat_func_card\n            )\n        else:\n            raise ValueError(\n                \"The Chamberlin-Courant satisfaction cannot be used for ballots of type {}\".format(\n                    type(ballot)\n                )\n            )\n",
   "        else:\n            FunctionalSatisfaction.__init__(\n                self, instance, profile, ballot, cc_sat_func_card\n            )\n"))
B("B20 effort: truth test dropped", (ADD, """    if denominator:
        return int(project in ballot) * frac(project.cost, denominator)
    return 0
""", "    return int(project in ballot) * frac(project.cost, denominator)\n"))
B("B21 lexico key: cost instead of name", (TIE, "lambda inst, prof, proj: proj.name)", "lambda inst, prof, proj: proj.cost)"))
B("B22 borda: position from the end", (POS, "return len(ballot) - ballot.position(project) - 1", "return ballot.position(project)"))

# =====================================================================================================
# C15gen: instance.py / utils.powerset
# =====================================================================================================
INS = "pabutools/election/instance.py"
UTL = "pabutools/utils.py"
VSAT = "pabutools/analysis/votersatisfaction.py"
PPR = "pabutools/analysis/profileproperties.py"
IPR = "pabutools/analysis/instanceproperties.py"
MBAC = """    for p in projects_sorted:
        new_total_cost = p.cost + cost
        if new_total_cost > budget_limit:
            break
        cost = new_total_cost
        selected += 1
"""
EXH = """        for p in available_projects:
            if p not in projects and (p.cost + cost <= self.budget_limit):
                return False
        return True
"""
TRIV = """        return (total_cost(self) <= self.budget_limit) or (
            self.budget_limit < min(p.cost for p in self)
        )
"""
R("IR01 total_cost: accumulator loop", (INS, "    return sum(p.cost for p in projects)\n",
  "    total = 0\n    for p in projects:\n        total += p.cost\n    return total\n"))
R("IR02 is_feasible: negated strict comparison", (INS, "        return total_cost(projects) <= self.budget_limit\n",
  "        return not total_cost(projects) > self.budget_limit\n"))
R("IR03 is_exhaustive: all(...)", (INS, EXH,
  "        return all(p in projects or p.cost + cost > self.budget_limit for p in available_projects)\n"))
R("IR04 is_exhaustive: not any(...)", (INS, EXH,
  "        return not any(p not in projects and p.cost + cost <= self.budget_limit for p in available_projects)\n"))
R("IR05 is_exhaustive: conditional expression for the default", (INS, """        if available_projects is None:
            available_projects = self
        cost = total_cost(projects)
""", """        candidates = self if available_projects is None else available_projects
        cost = total_cost(projects)
"""), (INS, "        for p in available_projects:\n            if p not in projects and (p.cost + cost", "        for p in candidates:\n            if p not in projects and (p.cost + cost"))
R("IR06 is_trivial: early return", (INS, TRIV, """        if total_cost(self) <= self.budget_limit:
            return True
        return self.budget_limit < min(p.cost for p in self)
"""))
R("IR07 max_budget_allocation_cardinality: no auxiliary variable", (INS, MBAC, """    for p in projects_sorted:
        if p.cost + cost > budget_limit:
            break
        cost += p.cost
        selected += 1
"""))
R("IR08 max_budget_allocation_cardinality: else: break", (INS, MBAC, """    for p in projects_sorted:
        new_total_cost = p.cost + cost
        if new_total_cost <= budget_limit:
            cost = new_total_cost
            selected += 1
        else:
            break
"""))
R("IR09 max_budget_allocation_cardinality: variables renamed", (INS, """    cost = 0
    selected = 0
""" + MBAC + "    return selected\n", """    spent = 0
    count = 0
    for p in projects_sorted:
        new_total_cost = p.cost + spent
        if new_total_cost > budget_limit:
            break
        spent = new_total_cost
        count += 1
    return count
"""))
R("IR10 budget_allocations: list comprehension", (INS, """        for b in powerset(self):
            if self.is_feasible(b):
                yield b
""", "        return [b for b in powerset(self) if self.is_feasible(b)]\n"))
R("IR11 powerset: list comprehension inside chain", (UTL,
  "    return chain.from_iterable(combinations(s, r) for r in range(len(s) + 1))\n",
  "    return chain.from_iterable([combinations(s, r) for r in range(len(s) + 1)])\n"))
R("IR12 is_feasible: local variable", (INS, "        return total_cost(projects) <= self.budget_limit\n",
  "        cost = total_cost(projects)\n        return cost <= self.budget_limit\n"))
R("IR13 is_exhaustive: flag and break", (INS, EXH, """        exhaustive = True
        for p in available_projects:
            if p not in projects and p.cost + cost <= self.budget_limit:
                exhaustive = False
                break
        return exhaustive
"""))
R("IR14 powerset: nested loops with yield (collects under a binder)", (UTL,
  "    return chain.from_iterable(combinations(s, r) for r in range(len(s) + 1))\n",
  "    for r in range(len(s) + 1):\n        for c in combinations(s, r):\n            yield c\n"))

B("IB01 is_feasible: < for <=", (INS, "        return total_cost(projects) <= self.budget_limit\n", "        return total_cost(projects) < self.budget_limit\n"))
B("IB02 is_exhaustive: < for <=", (INS, "(p.cost + cost <= self.budget_limit)", "(p.cost + cost < self.budget_limit)"))
B("IB03 is_exhaustive: membership test dropped", (INS, "if p not in projects and (p.cost + cost <= self.budget_limit):", "if p.cost + cost <= self.budget_limit:"))
B("IB04 is_exhaustive: answers swapped", (INS, "                return False\n        return True\n", "                return True\n        return False\n"))
B("IB05 is_trivial: <= for < (the repaired defect)", (INS, "            self.budget_limit < min(p.cost for p in self)", "            self.budget_limit <= min(p.cost for p in self)"))
B("IB06 is_trivial: max for min", (INS, "            self.budget_limit < min(p.cost for p in self)", "            self.budget_limit < max(p.cost for p in self)"))
B("IB07 max_budget_allocation_cardinality: >= for >", (INS, "        if new_total_cost > budget_limit:", "        if new_total_cost >= budget_limit:"))
B("IB08 max_budget_allocation_cardinality: dearest first", (INS, "key=lambda proj: proj.cost)", "key=lambda proj: -proj.cost)"))
B("IB09 max_budget_allocation_cardinality: continue for break", (INS, "        if new_total_cost > budget_limit:\n            break", "        if new_total_cost > budget_limit:\n            continue"))
B("IB10 max_budget_allocation_cardinality: counted before the test", (INS, MBAC, """    for p in projects_sorted:
        new_total_cost = p.cost + cost
        selected += 1
        if new_total_cost > budget_limit:
            break
        cost = new_total_cost
"""))
B("IB11 total_cost: counts the projects", (INS, "    return sum(p.cost for p in projects)\n", "    return sum(1 for p in projects)\n"))
B("IB12 budget_allocations: infeasible ones", (INS, "            if self.is_feasible(b):\n                yield b", "            if not self.is_feasible(b):\n                yield b"))
B("IB13 powerset: the full set is missing", (UTL, "for r in range(len(s) + 1))", "for r in range(len(s)))"))
B("IB14 is_trivial: and for or", (INS, "        return (total_cost(self) <= self.budget_limit) or (", "        return (total_cost(self) <= self.budget_limit) and ("))
B("IB15 is_exhaustive: default is the given projects", (INS, "            available_projects = self\n", "            available_projects = projects\n"))

# =====================================================================================================
# C18gen: utils.mean_generator / gini_coefficient, analysis statistics
# =====================================================================================================
MGIN = """        for i in range(multiplicity):
            n += 1
            mean += frac(value - mean, n)
"""
R("SR01 mean_generator: plain assignments", (UTL, MGIN, """        for i in range(multiplicity):
            n = n + 1
            mean = mean + frac(value - mean, n)
"""))
R("SR02 mean_generator: conditional expressions for the unpacking", (UTL, """        multiplicity: int = 1
        value: Numeric = x
        if isinstance(x, tuple):
            value = x[0]
            multiplicity = x[1]
""", """        value = x[0] if isinstance(x, tuple) else x
        multiplicity = x[1] if isinstance(x, tuple) else 1
"""))
R("SR03 mean_generator: multiplied by frac(1, n)", (UTL, "            mean += frac(value - mean, n)\n", "            mean += (value - mean) * frac(1, n)\n"))
R("SR04 gini: elif, all_nul set without testing it", (UTL, """        if all_nul and v > 0:
            all_nul = False
        num_values += 1
""", """        elif v > 0:
            all_nul = False
        num_values += 1
"""))
R("SR05 gini: second pass as a comprehension", (UTL, """    total_cum_sum: Numeric = 0
    for i, v in enumerate(sorted_values):
        total_cum_sum += v * (num_values - i)
""", "    total_cum_sum = sum(v * (num_values - i) for i, v in enumerate(sorted_values))\n"))
R("SR06 gini: negated test for the all-zero vector", (UTL, """    if all_nul:
        return 0
    sorted_values: list[Numeric] = sorted(values)
""", """    if not all_nul:
        pass
    else:
        return 0
    sorted_values = sorted(values)
"""))
R("SR07 avg_satisfaction: list built first", (VSAT, """    return mean_generator(
        (
            sat_class(instance, profile, ballot).sat(budget_allocation),
            profile.multiplicity(ballot),
        )
        for ballot in profile
    )
""", """    pairs = [(sat_class(instance, profile, b).sat(budget_allocation), profile.multiplicity(b)) for b in profile]
    return mean_generator(pairs)
"""))
R("SR08 percent_positive_satisfaction: comprehension", (VSAT, """    num_pos_sat = 0
    for sat in sat_profile:
        if sat.sat(budget_allocation) > 0:
            num_pos_sat += sat_profile.multiplicity(sat)
""", "    num_pos_sat = sum(sat_profile.multiplicity(s) for s in sat_profile if s.sat(budget_allocation) > 0)\n"))
R("SR09 gini_coefficient_of_satisfaction: one call, conditional expression", (VSAT, """    if invert:
        return 1 - gini_coefficient(np.array(voter_satisfactions))
    return gini_coefficient(np.array(voter_satisfactions))
""", """    g = gini_coefficient(np.array(voter_satisfactions))
    return 1 - g if invert else g
"""))
R("SR10 avg_project_cost: through sum_project_cost", (IPR, "    return frac(total_cost(instance), len(instance))\n",
  "    return frac(sum_project_cost(instance), len(instance))\n"))
R("SR11 funding_scarcity: guard first", (IPR, """    if instance.budget_limit > 0:
        return frac(total_cost(instance), instance.budget_limit)
    raise ValueError(
""", """    if instance.budget_limit <= 0:
        raise ValueError("funding scarcity can only be calculated for instances with budget limit > 0")
    return frac(total_cost(instance), instance.budget_limit)
    raise ValueError(
"""))
R("SR12 median_approval_score: len < 1", (PPR, """    if len(instance) == 0:
        return 0
    return float(
        np.median([frac(profile.approval_score(project)) for project in instance])
""", """    if len(instance) < 1:
        return 0
    return float(
        np.median([frac(profile.approval_score(project)) for project in instance])
"""))
R("SR13 avg_approval_score: generator", (PPR, "    return mean_generator([profile.approval_score(project) for project in instance])\n",
  "    return mean_generator(profile.approval_score(p) for p in instance)\n"))
R("SR14 avg_ballot_length: list, renamed variable", (PPR, """    return mean_generator(
        (len(ballot), profile.multiplicity(ballot)) for ballot in profile
    )
""", "    return mean_generator([(len(b), profile.multiplicity(b)) for b in profile])\n"))
R("SR15 gini: length taken after the loop (state of the first pass changes shape)", (UTL, """        num_values += 1
    if all_nul:
        return 0
""", """    num_values = len(values)
    if all_nul:
        return 0
"""))

B("SB01 mean_generator: counter incremented after the division", (UTL, MGIN, """        for i in range(multiplicity):
            mean += frac(value - mean, n)
            n += 1
"""))
B("SB02 mean_generator: + for -", (UTL, "frac(value - mean, n)", "frac(value + mean, n)"))
B("SB03 mean_generator: multiplicity ignored", (UTL, "        for i in range(multiplicity):", "        for i in range(1):"))
B("SB04 gini: zero raises too", (UTL, "        if v < 0:\n            raise", "        if v <= 0:\n            raise"))
B("SB05 gini: all-zero guard dropped", (UTL, "    if all_nul:\n        return 0\n", ""))
B("SB06 gini: weights shifted by one", (UTL, "total_cum_sum += v * (num_values - i)", "total_cum_sum += v * (num_values - i - 1)"))
B("SB07 gini: not sorted", (UTL, "sorted_values: list[Numeric] = sorted(values)", "sorted_values: list[Numeric] = list(values)"))
B("SB08 gini: n - 1 in the numerator", (UTL, "return frac(num_values + 1 - frac(", "return frac(num_values - 1 - frac("))
B("SB09 avg_satisfaction: multiplicity dropped", (VSAT, """            sat_class(instance, profile, ballot).sat(budget_allocation),
            profile.multiplicity(ballot),
        )""", """            sat_class(instance, profile, ballot).sat(budget_allocation),
            1,
        )"""))
B("SB10 percent_positive_satisfaction: >= 0", (VSAT, "        if sat.sat(budget_allocation) > 0:", "        if sat.sat(budget_allocation) >= 0:"))
B("SB11 percent_positive_satisfaction: += 1 (the repaired defect)", (VSAT, "            num_pos_sat += sat_profile.multiplicity(sat)", "            num_pos_sat += 1"))
B("SB12 gini_coefficient_of_satisfaction: invert inverted", (VSAT, "    if invert:\n        return 1 - gini_coefficient(", "    if not invert:\n        return 1 - gini_coefficient("))
B("SB13 avg_ballot_cost: length instead of cost", (PPR, "        (total_cost(ballot), profile.multiplicity(ballot)) for ballot in profile", "        (len(ballot), profile.multiplicity(ballot)) for ballot in profile"))
B("SB14 funding_scarcity: >= 0 guard", (IPR, "    if instance.budget_limit > 0:", "    if instance.budget_limit >= 0:"))
B("SB15 avg_project_cost: divided by the budget", (IPR, "    return frac(total_cost(instance), len(instance))", "    return frac(total_cost(instance), instance.budget_limit)"))
B("SB16 median_approval_score: empty-instance guard dropped", (PPR, """    if len(instance) == 0:
        return 0
    return float(
        np.median([frac(profile.approval_score(project)) for project in instance])""", """    return float(
        np.median([frac(profile.approval_score(project)) for project in instance])"""))
B("SB17 avg_total_score: approval scores", (PPR, "    return mean_generator(profile.total_score(project) for project in instance)", "    return mean_generator(profile.approval_score(project) for project in instance)"))
B("SB18 percent_non_empty_handed: another measure", (VSAT, "    return avg_satisfaction(instance, profile, budget_allocation, CC_Sat)", "    return avg_satisfaction(instance, profile, budget_allocation, Cost_Sat)"))

# ---------------- independent behaviour-preserving rewrites (whole patches, written by someone else) ----------------
PATCHES = os.path.join(os.path.dirname(os.path.abspath(__file__)), "pygen_patches")
R("PT1 tiebreaking: hoisted identity key, named local sort key, temporary before [0] (wrap3-3)", ("PATCH", os.path.join(PATCHES, "wrap3-3-tiebreaking.diff"), ""))
R("PI1 instance: enumerate + early return, not any(...) (wrap3-2)", ("PATCH", os.path.join(PATCHES, "wrap3-2-instance.diff"), ""))
R("PC1 satisfaction functions: temporaries, flipped guards, continue (wrap3-4)", ("PATCH", os.path.join(PATCHES, "wrap3-4-satisfaction.diff"), ""))
# ---------------- siblings: lambda <-> local def <-> module-level def ----------------
R("TK1 lexico key: a named module-level lambda", (TIE, "lexico_tie_breaking = TieBreakingRule(lambda inst, prof, proj: proj.name)",
  "_lexico_key = lambda inst, prof, proj: proj.name\nlexico_tie_breaking = TieBreakingRule(_lexico_key)"))
R("TK2 app_score key: a module-level def", (TIE, """app_score_tie_breaking = TieBreakingRule(
    lambda inst, prof, proj: -prof.approval_score(proj)
)""", """def _app_score_key(inst, prof, proj):
    return -prof.approval_score(proj)


app_score_tie_breaking = TieBreakingRule(_app_score_key)"""))
R("TK3 max_cost key: module-level helper called inside the lambda", (TIE, "max_cost_tie_breaking = TieBreakingRule(lambda inst, prof, proj: -proj.cost)",
  "def _cost_of(project):\n    return project.cost\n\n\nmax_cost_tie_breaking = TieBreakingRule(lambda inst, prof, proj: -_cost_of(proj))"))
R("TK4 order: local def stored in a local variable", (TIE, """        return sorted(
            projects,
            key=lambda project: self.func(instance, profile, key(project)),
        )
""", """        def value_of(element):
            return self.func(instance, profile, key(element))

        sort_key = value_of
        return sorted(projects, key=sort_key)
"""))
R("TK5 untie: temporaries before and after the subscript", (TIE, "        return self.order(instance, profile, projects, key)[0]\n",
  "        ordered = self.order(instance, profile, projects, key)\n        first = ordered[0]\n        return first\n"))
R("TK6 min_cost key: lambda calling a module-level lambda", (TIE, "min_cost_tie_breaking = TieBreakingRule(lambda inst, prof, proj: proj.cost)",
  "_project_cost = lambda project: project.cost\nmin_cost_tie_breaking = TieBreakingRule(lambda inst, prof, proj: _project_cost(proj))"))
B("TB1 order: closure over a key assigned AFTER the local def (late binding would change the meaning)", (TIE, """        if key is None:
            key = default_key
        return sorted(
            projects,
            key=lambda project: self.func(instance, profile, key(project)),
        )
""", """        def value_of(element):
            return self.func(instance, profile, key(element))

        if key is None:
            key = default_key
        return sorted(projects, key=value_of)
"""))

# =====================================================================================================
# C12gen: utils.round_cmp, priceability.validate_price_system
# =====================================================================================================
PRC = "pabutools/analysis/priceability.py"
def PR(name, f): R(name, ("PATCH", os.path.join(PATCHES, f), ""))
def PB(name, f): B(name, ("PATCH", os.path.join(PATCHES, f), ""))
PR("VP1 validate_price_system: helper total_payment, flipped stable branch (harmless analysis3-4)", "harmless-analysis3-4.diff")
PR("VP2 validate_price_system: voters list, collected(), len(errors) == 0 (harmless analysis-3)", "harmless-analysis-3.diff")
PR("VP3 priceability (harmless analysis2-1)", "harmless-analysis2-1.diff")
PR("VP4 validate_price_system: dict-comprehension collector, supporters list, merged C5/S5 loop (harmless analysis2-2)", "harmless-analysis2-2.diff")
PR("VP5 utils (harmless analysis2-3)", "harmless-analysis2-3.diff")
PB("VS1 seeded C12-1a", "seeded-C12-1a.diff")
PB("VS2 seeded C12-2a", "seeded-C12-2a.diff")
PB("VS3 seeded C12-3b", "seeded-C12-3b.diff")
PB("VS4 seeded C12-5b: max outside the sum in S5", "seeded-C12-5b.diff")
PB("VS5 seeded C12-6b: C3 in aggregate", "seeded-C12-6b.diff")
PB("VS6 seeded C20-5b: payments overwritten in place (outside the pure fragment)", "seeded-C20-5b.diff")
R("VR01 round_cmp: temporaries", (UTL, "    return round(a, precision) - round(b, precision)\n",
  "    rounded_a = round(a, precision)\n    rounded_b = round(b, precision)\n    return rounded_a - rounded_b\n"))
R("VR02 C0a: negated <=", (PRC, "    if total > instance.budget_limit:\n", "    if not total <= instance.budget_limit:\n"))
R("VR03 C0b: loop guarded by `and`", (PRC, """    if exhaustive:
        # equivalent of `instance.is_exhaustive(W)`
        for c in NW:
            if total + c.cost <= instance.budget_limit:
""", """    if True:
        # equivalent of `instance.is_exhaustive(W)`
        for c in NW:
            if exhaustive and total + c.cost <= instance.budget_limit:
"""))
R("VR04 C1: payment read once", (PRC, """        for c in C:
            if c not in i and pf[idx][c] != 0:
""", """        for c in C:
            paid = pf[idx][c]
            if c not in i and paid != 0:
"""))
R("VR05 C2: comparison reversed", (PRC, "        if round_cmp(spent[idx], b, CHECK_ROUND_PRECISION) > 0:\n",
  "        if 0 < round_cmp(spent[idx], b, CHECK_ROUND_PRECISION):\n"))
R("VR06 C3: accumulator loop for the collected amount", (PRC, """    for c in W:
        s = sum(pf[idx][c] for idx, _ in enumerate(N))
""", """    for c in W:
        s = 0
        for idx, _ in enumerate(N):
            s += pf[idx][c]
"""))
R("VR07 NW: loop with append", (PRC, "    NW = [c for c in C if c not in W]\n",
  "    NW = []\n    for c in C:\n        if c not in W:\n            NW.append(c)\n"))
R("VR08 leftover computed from the payments directly", (PRC, "    leftover = [(b - spent[idx]) for idx, _ in enumerate(N)]\n",
  "    leftover = [b - sum(pf[idx][c] for c in C) for idx, _ in enumerate(N)]\n"))
R("VR09 S5: cost chosen by an if statement", (PRC, "            cost = c.cost if relaxation is None else relaxation.get_relaxed_cost(c)\n",
  "            if relaxation is None:\n                cost = c.cost\n            else:\n                cost = relaxation.get_relaxed_cost(c)\n"))
R("VR10 C5: filter inside the summand", (PRC, "            s = sum(leftover[idx] for idx, i in enumerate(N) if c in i)\n",
  "            s = sum((leftover[idx] if c in i else 0) for idx, i in enumerate(N))\n"))
R("VR11 result: explicit boolean", (PRC, "    return not errors\n", "    if errors:\n        return False\n    return True\n"))
R("VR12 S5: max with swapped arguments", (PRC, "                max(max_payment[idx], leftover[idx])", "                max(leftover[idx], max_payment[idx])"))
B("VB01 C0a: >= for >", (PRC, "    if total > instance.budget_limit:\n", "    if total >= instance.budget_limit:\n"))
B("VB02 C0b: < for <=", (PRC, "            if total + c.cost <= instance.budget_limit:\n", "            if total + c.cost < instance.budget_limit:\n"))
B("VB03 C1: unapproved payments accepted", (PRC, "            if c not in i and pf[idx][c] != 0:\n", "            if c not in i and pf[idx][c] < 0:\n"))
B("VB04 C1: negative payments accepted", (PRC, "            if round_cmp(pf[idx][c], 0, CHECK_ROUND_PRECISION) < 0:\n", "            if round_cmp(pf[idx][c], 0, CHECK_ROUND_PRECISION) > 0:\n"))
B("VB05 C2: compared with the budget limit", (PRC, "        if round_cmp(spent[idx], b, CHECK_ROUND_PRECISION) > 0:\n", "        if round_cmp(spent[idx], instance.budget_limit, CHECK_ROUND_PRECISION) > 0:\n"))
B("VB06 C3: > for !=", (PRC, "        if round_cmp(s, c.cost, CHECK_ROUND_PRECISION) != 0:\n", "        if round_cmp(s, c.cost, CHECK_ROUND_PRECISION) > 0:\n"))
B("VB07 C4 over the selected projects", (PRC, """    for c in NW:
        s = sum(pf[idx][c] for idx, _ in enumerate(N))
        if round_cmp(s, 0, CHECK_ROUND_PRECISION) != 0:""", """    for c in W:
        s = sum(pf[idx][c] for idx, _ in enumerate(N))
        if round_cmp(s, 0, CHECK_ROUND_PRECISION) != 0:"""))
B("VB08 C5: all voters instead of the supporters", (PRC, "            s = sum(leftover[idx] for idx, i in enumerate(N) if c in i)\n", "            s = sum(leftover[idx] for idx, i in enumerate(N))\n"))
B("VB09 S5: min for max", (PRC, "                max(max_payment[idx], leftover[idx])", "                min(max_payment[idx], leftover[idx])"))
B("VB10 S5: relaxation ignored", (PRC, "            cost = c.cost if relaxation is None else relaxation.get_relaxed_cost(c)\n", "            cost = c.cost\n"))
B("VB11 round_cmp: precision dropped", (UTL, "    return round(a, precision) - round(b, precision)\n", "    return round(a, precision) - b\n"))
B("VB12 CHECK_ROUND_PRECISION = 3", (PRC, "CHECK_ROUND_PRECISION = 2\n", "CHECK_ROUND_PRECISION = 3\n"))
B("VB13 stable test inverted", (PRC, "    if not stable:\n        for c in NW:\n            s = sum(leftover", "    if stable:\n        for c in NW:\n            s = sum(leftover"))
B("VB14 leftover: spent - b", (PRC, "    leftover = [(b - spent[idx]) for idx, _ in enumerate(N)]\n", "    leftover = [(spent[idx] - b) for idx, _ in enumerate(N)]\n"))

# =====================================================================================================
# C14gen: cohesiveness.py, justifiedrepresentation.py
# =====================================================================================================
COH = "pabutools/analysis/cohesiveness.py"
JRP = "pabutools/analysis/justifiedrepresentation.py"
PR("JP1 cohesiveness (harmless analysis-1)", "harmless-analysis-1.diff")
PR("JP2 justifiedrepresentation (harmless analysis-2)", "harmless-analysis-2.diff")
PR("JP3 justifiedrepresentation: surplus helper extracted (harmless analysis3-1)", "harmless-analysis3-1.diff")
PR("JP4 cohesiveness: all()/any() generator expressions (harmless analysis3-2)", "harmless-analysis3-2.diff")
for _i, _d in enumerate(("C14-1a", "C14-1b", "C14-2a", "C14-2b", "C14-3a", "C14-3b", "C14-4a", "C14-4b", "C14-5a", "C14-5b",
                         "C14-6a", "C14-6b", "C20-5a")):
    PB("JS%02d seeded %s" % (_i + 1, _d), "seeded-%s.diff" % _d)
COHLOOP = """    for ballot in ballots:
        for p in projects:
            if p not in ballot:
                return False
    return True
"""
R("JR01 is_large_enough: sides swapped", (COH, "    return projects_cost * num_voters <= group_size * budget_limit\n",
  "    return group_size * budget_limit >= num_voters * projects_cost\n"))
R("JR02 is_cohesive_approval: all(all(..))", (COH, COHLOOP,
  "    return all(all(p in ballot for p in projects) for ballot in ballots)\n"))
R("JR03 is_cohesive_approval: guards merged", (COH, """    if len(ballots) == 0 or len(projects) == 0:
        return False
    for ballot in ballots:
        for p in projects:
            if p not in ballot:
""", """    if not ballots or not projects:
        return False
    for ballot in ballots:
        for p in projects:
            if p not in ballot:
"""))
R("JR05 is_strong_EJR_approval: all(..) instead of flag and break", (JRP, """        all_agents_sat = True
        for ballot in group:
            sat = sat_class(instance, profile, ballot)
            if sat.sat(budget_allocation) < sat.sat(project_set):
                all_agents_sat = False
                break
        if not all_agents_sat:
            return False
    return True


def is_EJR_approval(""", """        if not all(
            sat_class(instance, profile, ballot).sat(budget_allocation)
            >= sat_class(instance, profile, ballot).sat(project_set)
            for ballot in group
        ):
            return False
    return True


def is_EJR_approval("""))
R("JR06 is_EJR_any_approval: named local function", (JRP, """    return is_EJR_approval(
        instance,
        profile,
        sat_class,
        budget_allocation,
        up_to_func=lambda x: min(x, default=0),
    )
""", """    def smallest(values):
        return min(values, default=0)

    return is_EJR_approval(instance, profile, sat_class, budget_allocation, up_to_func=smallest)
"""))
R("JR07 is_PJR_approval: comparison reversed", (JRP, "        if group_sat < threshold:\n            return False\n    return True\n\n\ndef is_PJR_any_approval",
  "        if threshold > group_sat:\n            return False\n    return True\n\n\ndef is_PJR_any_approval"))
R("JR08 is_PJR_cardinal: threshold as an accumulator loop", (JRP, """        threshold = sum(min(b[p] for b in group) for p in project_set)
        group_sat = sum(max(b[p] for b in group) for p in budget_allocation)
""", """        threshold = 0
        for p in project_set:
            threshold += min(b[p] for b in group)
        group_sat = sum(max(b[p] for b in group) for p in budget_allocation)
"""))
R("JR09 is_cohesive_cardinal: not (>=)", (COH, "            if ballot[p] < alpha[p]:\n", "            if not ballot[p] >= alpha[p]:\n"))
R("JR10 is_in_core: surplus in a conditional expression", (JRP, """                        surplus = 0
                        if up_to_func is not None:
                            surplus = up_to_func(
                                sat.sat_project(p)
                                for p in project_set
                                if p not in budget_allocation
                            )
                        if sat.sat(budget_allocation) + surplus >= sat.sat(project_set):""", """                        surplus = 0 if up_to_func is None else up_to_func(
                            sat.sat_project(p) for p in project_set if p not in budget_allocation
                        )
                        if sat.sat(project_set) <= sat.sat(budget_allocation) + surplus:"""))
B("JB01 is_large_enough: < for <=", (COH, "    return projects_cost * num_voters <= group_size * budget_limit\n", "    return projects_cost * num_voters < group_size * budget_limit\n"))
B("JB02 is_cohesive_approval: any ballot suffices", (COH, COHLOOP, "    return any(all(p in ballot for p in projects) for ballot in ballots)\n"))
B("JB03 is_cohesive_approval: empty project set accepted", (COH, """    if len(ballots) == 0 or len(projects) == 0:
        return False
    for ballot in ballots:
        for p in projects:
            if p not in ballot:
""", """    if len(ballots) == 0:
        return False
    for ballot in ballots:
        for p in projects:
            if p not in ballot:
"""))
B("JB04 cohesive_groups: alpha_min is the maximum", (COH, "alpha_min = {p: min(b[p] for b in group) for p in project_set}", "alpha_min = {p: max(b[p] for b in group) for p in project_set}"))
B("JB05 is_strong_EJR_approval: <= for <", (JRP, "            if sat.sat(budget_allocation) < sat.sat(project_set):\n                all_agents_sat = False", "            if sat.sat(budget_allocation) <= sat.sat(project_set):\n                all_agents_sat = False"))
B("JB06 is_EJR_any_approval: max for min", (JRP, """        budget_allocation,
        up_to_func=lambda x: min(x, default=0),
    )


def is_EJR_one_approval(""", """        budget_allocation,
        up_to_func=lambda x: max(x, default=0),
    )


def is_EJR_one_approval("""))
B("JB07 is_PJR_approval: projects of the whole allocation", (JRP, "        group_approved = {p for p in budget_allocation if any(p in b for b in group)}", "        group_approved = {p for p in budget_allocation}"))
B("JB08 is_EJR_cardinal: sum of maxima as threshold", (JRP, """        one_agent_sat = False
        threshold = sum(min(b[p] for b in group) for p in project_set)""", """        one_agent_sat = False
        threshold = sum(max(b[p] for b in group) for p in project_set)"""))
B("JB09 is_PJR_cardinal: surplus over all of project_set", (JRP, """                max(b[p] for b in group)
                for p in project_set
                if p not in budget_allocation""", """                max(b[p] for b in group)
                for p in project_set"""))
B("JB10 is_in_core: > for >=", (JRP, "                        if sat.sat(budget_allocation) + surplus >= sat.sat(project_set):\n                            all_better_alone = False", "                        if sat.sat(budget_allocation) + surplus > sat.sat(project_set):\n                            all_better_alone = False"))
B("JB11 is_EJR_approval: every agent must be satisfied", (JRP, """        one_agent_sat = False
        for ballot in group:
            sat = sat_class(instance, profile, ballot)
            surplus = 0
            if up_to_func is not None:
                surplus = up_to_func(
                    sat.sat_project(p)
                    for p in project_set
                    if p not in budget_allocation
                )
            if sat.sat(budget_allocation) + surplus >= sat.sat(project_set):
                one_agent_sat = True
                break
        if not one_agent_sat:
            return False
    return True


def is_EJR_any_approval(""", """        one_agent_sat = True
        for ballot in group:
            sat = sat_class(instance, profile, ballot)
            surplus = 0
            if up_to_func is not None:
                surplus = up_to_func(
                    sat.sat_project(p)
                    for p in project_set
                    if p not in budget_allocation
                )
            if sat.sat(budget_allocation) + surplus < sat.sat(project_set):
                one_agent_sat = False
                break
        if not one_agent_sat:
            return False
    return True


def is_EJR_any_approval("""))


def sh(cmd, **kw):
    return subprocess.run(cmd, shell=True, capture_output=True, text=True, **kw)


def main():
    res = []
    for name, kind, edits in M:
        if FILT and not (FILT in name or (FILT.startswith('^') and re.search(FILT, name))):
            continue
        sh("git -C %s checkout -q -- pabutools" % WT)
        ok = True
        for f, old, new in edits:
            if f == "PATCH":
                if sh("git -C %s apply %s" % (WT, old)).returncode != 0:
                    ok = False
                    print("!! %s: patch does not apply" % name)
                    break
                continue
            p = os.path.join(WT, f)
            s = open(p).read()
            if s.count(old) != 1:
                ok = False
                print("!! %s: pattern occurs %d times in %s" % (name, s.count(old), f))
                break
            open(p, "w").write(s.replace(old, new))
        if not ok:
            res.append((name, kind, "PATTERN"))
            continue
        t0 = time.time()
        props = "C14gen" if name.startswith("J") else "C12gen" if name.startswith("V") else "C15gen" if name.startswith(("I", "PI")) else "C18gen" if name.startswith("S") else \
            "TieGen" if name.startswith(("T", "PT")) and not name.startswith("T0") and not name.startswith("T1") else "C10gen TieGen"
        r = sh("%s %s %s %s" % (TRY, WT, COQ, props))
        checks = r.returncode == 0
        verdict = ("ok" if checks else "FALSE ALARM") if kind == "rewrite" else ("caught" if not checks else "MISSED")
        first = ""
        if not checks:
            lines = [l for l in r.stdout.split("\n") if l.startswith("File ") or "Untranslated" in l or l.startswith("Error")]
            first = " | ".join(l.strip()[:110] for l in lines[:3])
        print("%-75s %-11s %5.1fs %s" % (name, verdict, time.time() - t0, first), flush=True)
        res.append((name, kind, verdict))
    sh("git -C %s checkout -q -- pabutools" % WT)
    sh("%s /repo %s" % (TRY, COQ))
    rw = [r for r in res if r[1] == "rewrite"]
    br = [r for r in res if r[1] == "break"]
    print("rewrites kept checking: %d / %d" % (sum(r[2] == "ok" for r in rw), len(rw)))
    print("breaking edits caught : %d / %d" % (sum(r[2] == "caught" for r in br), len(br)))


main()
