#!/usr/bin/env python3
"""Regenerate /verif/MANIFEST.json from tools/manifest_entries.json (one entry per claimed property)
and properties.jsonl (everything not claimed goes under not_applicable with its recorded reason)."""
import json, os
V = os.path.dirname(os.path.dirname(os.path.abspath(__file__)))
entries = json.load(open(os.path.join(V, "tools", "manifest_entries.json")))
d = os.path.join(V, "tools", "manifest_entries.d")
if os.path.isdir(d):
    for fn in sorted(os.listdir(d)):
        if fn.endswith(".json"):
            e = json.load(open(os.path.join(d, fn)))
            if e.get("claimed", True):
                entries["claimed"][e["property_id"]] = e
            else:
                entries["unclaimed"][e["property_id"]] = e["reason"]
props = [json.loads(l) for l in open(os.path.join(V, "properties.jsonl"))]
checks, na = [], []
for p in props:
    e = entries["claimed"].get(p["id"])
    if e:
        checks.append({
            "property_id": p["id"],
            "quick_cmd": "./check %s quick" % p["id"],
            "thorough_cmd": "./check %s thorough" % p["id"],
            "evidence_file": "/verif/evidence/%s.json" % p["id"],
            "replay_cmd_template": "./check %s --replay {path}" % p["id"],
            "engine": "coq-proof+correspondence",
            "level_claimed": {"category": e.get("category", "proof"), "text": e["text"],
                              "design_ref": e.get("design_ref", "DESIGN.md §4 " + p["id"])},
            "level_note": e["note"],
            "technique": e["technique"],
        })
    else:
        na.append({"property_id": p["id"], "reason": entries["unclaimed"].get(
            p["id"], "check not built yet in this development (planned: DESIGN.md §4 %s); not claimed" % p["id"])})
m = {
    "version": 1,
    "setup_cmd": "make -C /verif/coq -k -j16",
    "hooks": {"guard": "PABUTOOLS_VERIF", "enable": "no source hooks are needed: checks run /repo's working tree as is (PYTHONPATH=/repo)",
              "baseline_off_cmd": "cd /repo && /venv/bin/python -m pytest -ra -q -p no:cacheprovider --timeout=900 --continue-on-collection-errors",
              "source_commits": [], "add_only": True},
    "engines": [{"name": "coq-proof+correspondence", "path": "/verif/check",
                 "serves_properties": [c["property_id"] for c in checks],
                 "kind_free_text": "Coq 8.16.1 theorems about Gallina models (coq/theories): hand-written models, and on every run "
                                   "definitions regenerated from /repo's source by three fail-closed translators (constants and "
                                   "tables; effect summaries; function bodies of the satisfaction measures, tie-breaking rules, "
                                   "instance predicates, statistics, exhaustion wrappers and rule comparisons) with theorems "
                                   "proving the generated definitions equal to the hand-written models + per-run differential "
                                   "correspondence: the implementation is executed on generated cases and its observables are "
                                   "compared inside Coq (vm_compute) with the model and with verified oracles"}],
    "checks": checks,
    "not_applicable": na,
    "notes": entries.get("notes", ""),
}
json.dump(m, open(os.path.join(V, "MANIFEST.json"), "w"), indent=1)
print("claimed:", [c["property_id"] for c in checks], "unclaimed:", len(na))
