#!/usr/bin/env python3
"""Regression of the regenerated tie for the imperative wrappers (pytrans_ctrl): behaviour-preserving REWRITES of
exhaustion.py / composition.py must keep Props/C09gen.v and Props/C19gen.v checking; BREAKING edits must make a
theorem fail.
usage: pyctrl_mutations.py [worktree=/tmp/wt-pyctrl] [coq=/work/pyctrl/coq] [name-filter]
(the worktree is a scratch checkout of /repo: git -C /repo worktree add --detach /tmp/wt-pyctrl HEAD)"""
import os, subprocess, sys, time

WT = sys.argv[1] if len(sys.argv) > 1 else "/tmp/wt-pyctrl"
COQ = sys.argv[2] if len(sys.argv) > 2 else "/work/pyctrl/coq"
FILT = sys.argv[3] if len(sys.argv) > 3 else ""
APPLY_ONLY = len(sys.argv) > 4 and sys.argv[4] == "--apply"      # apply the (first) selected edit to the worktree and stop
EXH = "pabutools/rules/exhaustion.py"
COMP = "pabutools/rules/composition.py"
GREEDY = "pabutools/rules/greedywelfare/greedywelfare_rule.py"
PHRAG = "pabutools/rules/phragmen.py"

M = []
def R(name, *edits): M.append((name, "rewrite", edits))
def B(name, *edits): M.append((name, "break", edits))

LOOP_RES = """            if not instance.is_feasible(outcome):
                return previous_outcome
            if exhaustive_stop and instance.is_exhaustive(outcome):
                return outcome
            current_instance.budget_limit += budget_step
            previous_outcome = outcome
        else:
"""
LOOP_IRR = """            if any(not instance.is_feasible(o) for o in outcome):
                return previous_outcome
            if exhaustive_stop and any(instance.is_exhaustive(o) for o in outcome):
                return outcome
            current_instance.budget_limit += budget_step
            previous_outcome = outcome
    return previous_outcome"""
COMP_DEDUP = """        if res not in results:
            results.append(res)

    sat_profile = profile.as_sat_profile(sat_class)

    max_social_welfare = None"""
COMP_HEAD_SWC = """    results = []
    for index, rule in enumerate(rule_sequence):
        res = rule(
            instance,
            profile,
            initial_budget_allocation=budget_allocation,
            **rule_params[index],
        )
        if res not in results:
            results.append(res)

    sat_profile = profile.as_sat_profile(sat_class)

    max_social_welfare = None"""
SWC_SCAN = """        if max_social_welfare is None or social_welfare > max_social_welfare:
            max_social_welfare = social_welfare
            argmax_social_welfare = [result]
        elif social_welfare == max_social_welfare:
            argmax_social_welfare.append(result)
"""
COMPL_CALL = """            outcome = rule(
                instance,
                profile,
                initial_budget_allocation=budget_allocation,
                resoluteness=resoluteness,
                **rule_params[index],
            )
"""

# ---------------- behaviour-preserving rewrites ----------------
R("R01 increase: local names", (EXH, "current_instance", "inst_copy"),
  (EXH, "previous_outcome", "last_good"), (EXH, "        outcome = rule(inst_copy, profile, **rule_params)", "        outcome = rule(inst_copy, profile, **rule_params)"))
R("R02 increase: if/else instead of negated early return", (EXH, LOOP_RES, """            if instance.is_feasible(outcome):
                if exhaustive_stop and instance.is_exhaustive(outcome):
                    return outcome
            else:
                return previous_outcome
            current_instance.budget_limit += budget_step
            previous_outcome = outcome
        else:
"""))
R("R03 increase: common tail of the two branches merged", (EXH, LOOP_RES + LOOP_IRR, """            if not instance.is_feasible(outcome):
                return previous_outcome
            if exhaustive_stop and instance.is_exhaustive(outcome):
                return outcome
        else:
            if any(not instance.is_feasible(o) for o in outcome):
                return previous_outcome
            if exhaustive_stop and any(instance.is_exhaustive(o) for o in outcome):
                return outcome
        current_instance.budget_limit += budget_step
        previous_outcome = outcome
    return previous_outcome"""))
R("R04 increase: budget_limit = budget_limit + step", (EXH, LOOP_RES, LOOP_RES.replace(
    "current_instance.budget_limit += budget_step", "current_instance.budget_limit = current_instance.budget_limit + budget_step")))
R("R05 increase: extra local aliases", (EXH, "        outcome = rule(current_instance, profile, **rule_params)\n",
  "        original = instance\n        new_outcome = rule(current_instance, profile, **rule_params)\n        outcome = new_outcome\n"),
  (EXH, LOOP_RES, LOOP_RES.replace("if not instance.is_feasible(outcome)", "if not original.is_feasible(new_outcome)")))
R("R06 increase: conditional expressions for the defaults", (EXH, """    if rule_params is None:
        rule_params = {}
    else:
        rule_params = dict(rule_params)
""", "    rule_params = {} if rule_params is None else dict(rule_params)\n"), (EXH, """    if budget_step is None:
        budget_step = instance.budget_limit * frac(1, 100)
""", "    budget_step = instance.budget_limit * frac(1, 100) if budget_step is None else budget_step\n"))
R("R07 increase: keywords passed explicitly instead of through the dictionary",
  (EXH, '    rule_params["initial_budget_allocation"] = initial_budget_allocation\n', ""),
  (EXH, '    rule_params["resoluteness"] = resoluteness\n', ""),
  (EXH, "        outcome = rule(current_instance, profile, **rule_params)\n",
   "        outcome = rule(current_instance, profile, initial_budget_allocation=initial_budget_allocation, resoluteness=resoluteness, **rule_params)\n"))
R("R08 increase: not all(...) for any(not ...)", (EXH, "if any(not instance.is_feasible(o) for o in outcome):",
                                                  "if not all(instance.is_feasible(o) for o in outcome):"))
R("R09 increase: BudgetAllocation(...) copies, defaults reordered", (EXH, "        previous_outcome = copy(initial_budget_allocation)\n",
  "        previous_outcome = BudgetAllocation(initial_budget_allocation)\n"),
  (EXH, "        previous_outcome = [copy(initial_budget_allocation)]\n", "        previous_outcome = [list(initial_budget_allocation)]\n"))
R("R10 increase: is-not-None tests, bound before step", (EXH, """    if budget_step is None:
        budget_step = instance.budget_limit * frac(1, 100)
    if budget_bound is None:
        budget_bound = instance.budget_limit * (profile.num_ballots() + 1)
""", """    if budget_bound is not None:
        pass
    else:
        budget_bound = instance.budget_limit * (profile.num_ballots() + 1)
    if not (budget_step is not None):
        budget_step = frac(1, 100) * instance.budget_limit
"""))
R("R11 completion: range(len(...)) with subscripts", (EXH, "    for index, rule in enumerate(rule_sequence):\n        new_budget_allocations",
  "    for index in range(len(rule_sequence)):\n        rule = rule_sequence[index]\n        new_budget_allocations"))
R("R12 completion: zip(rule_sequence, rule_params)", (EXH, "    for index, rule in enumerate(rule_sequence):\n        new_budget_allocations",
  "    for rule, these_params in zip(rule_sequence, rule_params):\n        new_budget_allocations"),
  (EXH, "                **rule_params[index],\n            )\n            if resoluteness:", "                **these_params,\n            )\n            if resoluteness:"))
R("R13 completion: `in res: continue` instead of `not in res`", (EXH, """                        if alloc not in res:
                            res.append(alloc)
""", """                        if alloc in res:
                            continue
                        res.append(alloc)
"""))
R("R14 completion: validation with .get, no enumerate", (EXH, """    for i, params in enumerate(rule_params):
        if "resoluteness" in params and params["resoluteness"] != resoluteness:
""", """    for params in rule_params:
        if params.get("resoluteness", resoluteness) != resoluteness:
"""), (EXH, 'f"The rule parameter at position {i} sets', 'f"A rule parameter sets'))
R("R15 completion: local names, [] for BudgetAllocation()", (EXH, "new_budget_allocations", "pending"),
  (EXH, "        pending = BudgetAllocation()\n", "        pending = []\n"), (EXH, "all_resolute", "all_done"))
R("R16 completion: resolute branch split off the loop over pending allocations", (EXH, """        for budget_allocation in budget_allocations:
""" + COMPL_CALL + """            if resoluteness:
                if instance.is_exhaustive(outcome):
                    return outcome
                else:
                    new_budget_allocations = [outcome]
            else:
                for alloc in outcome:
                    if instance.is_exhaustive(alloc):
                        if alloc not in res:
                            res.append(alloc)
                    else:
                        all_resolute = False
                        new_budget_allocations.append(alloc)
""", """        if resoluteness:
            outcome = rule(instance, profile, initial_budget_allocation=budget_allocations[0], resoluteness=True, **rule_params[index])
            if instance.is_exhaustive(outcome):
                return outcome
            new_budget_allocations = [outcome]
        else:
            for budget_allocation in budget_allocations:
                for alloc in rule(instance, profile, initial_budget_allocation=budget_allocation, resoluteness=False, **rule_params[index]):
                    if instance.is_exhaustive(alloc):
                        if alloc not in res:
                            res.append(alloc)
                    else:
                        all_resolute = False
                        new_budget_allocations.append(alloc)
"""))
R("R17 completion: negated exhaustiveness test first", (EXH, """                    if instance.is_exhaustive(alloc):
                        if alloc not in res:
                            res.append(alloc)
                    else:
                        all_resolute = False
                        new_budget_allocations.append(alloc)
""", """                    if not instance.is_exhaustive(alloc):
                        all_resolute = False
                        new_budget_allocations.append(alloc)
                    elif alloc not in res:
                        res.append(alloc)
"""))
R("R18 swc: `in results: continue`", (COMP, COMP_DEDUP, """        if res in results:
            continue
        results.append(res)

    sat_profile = profile.as_sat_profile(sat_class)

    max_social_welfare = None"""))
R("R19 swc: range(len(...)) with subscripts", (COMP, COMP_HEAD_SWC, COMP_HEAD_SWC.replace(
    "    for index, rule in enumerate(rule_sequence):\n", "    for index in range(len(rule_sequence)):\n        rule = rule_sequence[index]\n")))
R("R20 swc: zip(rule_sequence, rule_params)", (COMP, COMP_HEAD_SWC, COMP_HEAD_SWC.replace(
    "    for index, rule in enumerate(rule_sequence):\n", "    for rule, kwargs in zip(rule_sequence, rule_params):\n").replace(
    "**rule_params[index],", "**kwargs,")))
R("R21 swc: tie test first", (COMP, SWC_SCAN, """        if max_social_welfare is not None and social_welfare == max_social_welfare:
            argmax_social_welfare.append(result)
        elif max_social_welfare is None or social_welfare > max_social_welfare:
            max_social_welfare = social_welfare
            argmax_social_welfare = [result]
"""))
R("R22 swc: local names and an alias", (COMP, "        social_welfare = sat_profile.total_satisfaction(result)\n",
  "        welfare = sat_profile.total_satisfaction(result)\n        social_welfare = welfare\n"),
  (COMP, "argmax_social_welfare", "winners"), (COMP, "max_social_welfare", "best_welfare"))
R("R23 swc: `<` with swapped operands, nested if", (COMP, SWC_SCAN, """        if max_social_welfare is None:
            max_social_welfare = social_welfare
            argmax_social_welfare = [result]
        elif max_social_welfare < social_welfare:
            max_social_welfare = social_welfare
            argmax_social_welfare = [result]
        elif max_social_welfare == social_welfare:
            argmax_social_welfare.append(result)
"""))

POP_HEAD = """        if res not in results:
            results.append(res)

    sat_profile = profile.as_sat_profile(sat_class)
    result_support"""
POP_SCAN = """            if max_sat is None or s > max_sat:
                max_sat = s
                arg_max_sat = [i]
            elif s == max_sat:
                arg_max_sat.append(i)
"""
R("R24 popularity: `in results: continue`, local names", (COMP, POP_HEAD, """        if res in results:
            continue
        results.append(res)

    sat_profile = profile.as_sat_profile(sat_class)
    result_support"""), (COMP, "arg_max_sat", "favourites"), (COMP, "result_support", "support"))
R("R25 popularity: support[i] = support[i] + m, tie test first", (COMP, "result_support[i] += sat_profile.multiplicity(sat)",
  "result_support[i] = result_support[i] + sat_profile.multiplicity(sat)"), (COMP, POP_SCAN, """            if max_sat is not None and s == max_sat:
                arg_max_sat.append(i)
            elif max_sat is None or max_sat < s:
                max_sat = s
                arg_max_sat = [i]
"""))
R("R26 popularity: the two final comprehensions merged", (COMP, """    argmax_support = [i for i, s in enumerate(result_support) if s == max_support]
    return [results[i] for i in argmax_support]
""", "    return [results[i] for i, s in enumerate(result_support) if s == max_support]\n"))
R("R27 popularity: multiplicity read before the inner loop", (COMP, """        for i in arg_max_sat:
            result_support[i] += sat_profile.multiplicity(sat)
""", """        weight = sat_profile.multiplicity(sat)
        for i in arg_max_sat:
            result_support[i] += weight
"""))

R("R28 completion: the two initial lists created in the other order", (EXH, "    budget_allocations = []\n    res = []\n",
  "    res = []\n    budget_allocations = []\n"))
R("R29 increase: previous_outcome set up before the instance is copied", (EXH, "    current_instance = deepcopy(instance)\n", ""),
  (EXH, "    if budget_step is None:\n        budget_step = instance.budget_limit * frac(1, 100)\n",
   "    current_instance = deepcopy(instance)\n    if budget_step is None:\n        budget_step = instance.budget_limit * frac(1, 100)\n"))
R("R30 increase: while True with a break on the bound", (EXH, "    while current_instance.budget_limit <= budget_bound:\n",
  "    while True:\n        if current_instance.budget_limit > budget_bound:\n            break\n"))
R("R31 increase: a counter of tries that is never read", (EXH, "    while current_instance.budget_limit <= budget_bound:\n        outcome = rule(current_instance, profile, **rule_params)\n",
  "    tries = 0\n    while current_instance.budget_limit <= budget_bound:\n        tries += 1\n        outcome = rule(current_instance, profile, **rule_params)\n"))
R("R32 increase: the budget kept in a local number, written back to the copy", (EXH, LOOP_RES, LOOP_RES.replace(
    "            current_instance.budget_limit += budget_step\n", "            new_limit = current_instance.budget_limit + budget_step\n            current_instance.budget_limit = new_limit\n")))
R("R33 swc: results built with an explicit seen-test function-free loop", (COMP, COMP_DEDUP, """        duplicate = False
        for earlier in results:
            if earlier == res:
                duplicate = True
                break
        if not duplicate:
            results.append(res)

    sat_profile = profile.as_sat_profile(sat_class)

    max_social_welfare = None"""))

R("R34 recorded rewrite harmless/rules2-1 (branches merged through a one-element list)", ("PATCH", "/verif/harmless/rules2-1/patch.diff", None))
R("R35 recorded rewrite harmless/wrap3-1 (list literal, hoisted tail, previous_outcome wrapped afterwards)", ("PATCH", "/verif/harmless/wrap3-1/patch.diff", None))
MERGED = """        outcomes = outcome if not resoluteness else [outcome]
        if any(not instance.is_feasible(o) for o in outcomes):
            return previous_outcome
        if exhaustive_stop and any(instance.is_exhaustive(o) for o in outcomes):
            return outcome
        current_instance.budget_limit += budget_step
        previous_outcome = outcome
    return previous_outcome"""
WHOLE_LOOP = "        if resoluteness:\n" + LOOP_RES + LOOP_IRR
R("R36 increase: outcomes = outcome if not resoluteness else [outcome]", (EXH, WHOLE_LOOP, MERGED))
R("R37 increase: flag loops instead of any(...)", (EXH, WHOLE_LOOP, """        allocations = [outcome] if resoluteness else outcome
        infeasible = False
        for alloc in allocations:
            if not instance.is_feasible(alloc):
                infeasible = True
                break
        if infeasible:
            return previous_outcome
        exhaustive = False
        for alloc in allocations:
            if instance.is_exhaustive(alloc):
                exhaustive = True
        if exhaustive_stop and exhaustive:
            return outcome
        current_instance.budget_limit += budget_step
        previous_outcome = outcome
    return previous_outcome"""))
R("R38 increase: local lambda helpers", (EXH, "    while current_instance.budget_limit <= budget_bound:\n",
  "    is_infeasible = lambda a: not instance.is_feasible(a)\n    def is_done(a):\n        return instance.is_exhaustive(a)\n    while current_instance.budget_limit <= budget_bound:\n"),
  (EXH, WHOLE_LOOP, MERGED.replace("not instance.is_feasible(o)", "is_infeasible(o)").replace("instance.is_exhaustive(o)", "is_done(o)")))
R("R39 increase: all(...) over the one-element list, tuple instead of list", (EXH, WHOLE_LOOP, """        allocations = (outcome,) if resoluteness else outcome
        if not all(instance.is_feasible(a) for a in allocations):
            return previous_outcome
        if exhaustive_stop and not all(not instance.is_exhaustive(a) for a in allocations):
            return outcome
        current_instance.budget_limit += budget_step
        previous_outcome = outcome
    return previous_outcome"""))
R("R40 completion: one-element list literals and a start variable", (EXH, """    budget_allocations = []
    res = []
    if initial_budget_allocation is None:
        budget_allocations.append(BudgetAllocation())
    else:
        budget_allocations.append(BudgetAllocation(initial_budget_allocation))
""", """    start = BudgetAllocation() if initial_budget_allocation is None else BudgetAllocation(initial_budget_allocation)
    res = list()
    budget_allocations = [start]
"""))

# ---------------- the fourth round of independent rewrites (copies in tools/pyctrl_patches) ----------------
R("H4-1 independent rewrite rules4/1 (greedy fast path)", ("PATCH", "/verif/tools/pyctrl_patches/rules4-1.diff", None))
R("H4-2 independent rewrite rules4/2 (phragmen helpers)", ("PATCH", "/verif/tools/pyctrl_patches/rules4-2.diff", None))
R("H4-3 independent rewrite rules4/3 (exhaustion)", ("PATCH", "/verif/tools/pyctrl_patches/rules4-3.diff", None))
R("H4-4 independent rewrite rules4/4 (popularity: [0] * len, reused loop variable, zip comprehension)", ("PATCH", "/verif/tools/pyctrl_patches/rules4-4.diff", None))

# ---------------- breaking edits ----------------
B("B01 increase: feasibility tested against the increased budget", (EXH, "if not instance.is_feasible(outcome):", "if not current_instance.is_feasible(outcome):"))
B("B02 increase: < for <= in the while condition", (EXH, "while current_instance.budget_limit <= budget_bound:", "while current_instance.budget_limit < budget_bound:"))
B("B03 increase: previous_outcome not updated (resolute)", (EXH, LOOP_RES, LOOP_RES.replace("            previous_outcome = outcome\n", "")))
B("B04 increase: returns the infeasible outcome", (EXH, LOOP_RES, LOOP_RES.replace("return previous_outcome", "return outcome")))
B("B05 increase: all for any in the infeasibility test", (EXH, "if any(not instance.is_feasible(o) for o in outcome):", "if all(not instance.is_feasible(o) for o in outcome):"))
B("B06 increase: exhaustive_stop ignored", (EXH, "if exhaustive_stop and instance.is_exhaustive(outcome):", "if instance.is_exhaustive(outcome):"))
B("B07 increase: initial allocation not passed on", (EXH, '    rule_params["initial_budget_allocation"] = initial_budget_allocation\n', ""))
B("B08 increase: no deepcopy (the caller's instance is changed and tested)", (EXH, "current_instance = deepcopy(instance)", "current_instance = instance"))
B("B09 increase: default bound without +1", (EXH, "(profile.num_ballots() + 1)", "profile.num_ballots()"))
B("B10 increase: exhaustiveness tested against the increased budget", (EXH, "if exhaustive_stop and instance.is_exhaustive(outcome):", "if exhaustive_stop and current_instance.is_exhaustive(outcome):"))
B("B11 increase: any for all... exhaustive when ALL outcomes are", (EXH, "any(instance.is_exhaustive(o) for o in outcome)", "all(instance.is_exhaustive(o) for o in outcome)"))
B("B12 increase: resoluteness not handed to the rule", (EXH, '    rule_params["resoluteness"] = resoluteness\n', ""))
B("B13 increase: the caller's rule_params dictionary is written", (EXH, "        rule_params = dict(rule_params)\n", "        pass\n"))
B("B14 increase: step added twice", (EXH, LOOP_RES, LOOP_RES.replace("budget_limit += budget_step", "budget_limit += 2 * budget_step")))
B("B15 completion: stops at the first NON-exhaustive outcome", (EXH, "                if instance.is_exhaustive(outcome):\n                    return outcome", "                if not instance.is_exhaustive(outcome):\n                    return outcome"))
B("B16 completion: budget_allocations + res", (EXH, "return res + budget_allocations", "return budget_allocations + res"))
B("B17 completion: dedup dropped", (EXH, "                        if alloc not in res:\n                            res.append(alloc)", "                        res.append(alloc)"))
B("B18 completion: parameters of the first rule for every rule", (EXH, "**rule_params[index],\n            )\n            if resoluteness:", "**rule_params[0],\n            )\n            if resoluteness:"))
B("B19 completion: outcome so far not passed on", (EXH, "                initial_budget_allocation=budget_allocation,\n                resoluteness=resoluteness,", "                resoluteness=resoluteness,"))
B("B20 completion: all_resolute never cleared", (EXH, "                        all_resolute = False\n", ""))
B("B21 completion: exhaustiveness of the partial allocation, not the outcome", (EXH, "                if instance.is_exhaustive(outcome):\n                    return outcome", "                if instance.is_exhaustive(budget_allocation):\n                    return outcome"))
B("B22 completion: length check dropped", (EXH, """    if rule_params is not None and len(rule_sequence) != len(rule_params):
        raise ValueError(
            "Parameters rule_sequence and rule_params must be of equal length."
        )
    if rule_params is None:
        rule_params = [{} for _ in rule_sequence]
    for i, params""", """    if rule_params is None:
        rule_params = [{} for _ in rule_sequence]
    for i, params"""))
B("B23 swc: dedup dropped", (COMP, COMP_DEDUP, COMP_DEDUP.replace("        if res not in results:\n            results.append(res)", "        results.append(res)")))
B("B24 swc: >= for > in the argmax scan", (COMP, "social_welfare > max_social_welfare", "social_welfare >= max_social_welfare"))
B("B25 swc: ties not kept", (COMP, "        elif social_welfare == max_social_welfare:\n            argmax_social_welfare.append(result)\n", ""))
B("B26 swc: initial allocation not passed to the rules", (COMP, COMP_HEAD_SWC, COMP_HEAD_SWC.replace("            initial_budget_allocation=budget_allocation,\n", "")))
B("B27 swc: minimum instead of maximum", (COMP, "social_welfare > max_social_welfare", "social_welfare < max_social_welfare"))
B("B28 popularity: multiplicity dropped", (COMP, "result_support[i] += sat_profile.multiplicity(sat)", "result_support[i] += 1"))
B("B29 popularity: >= for > in the voters' argmax scan", (COMP, "if max_sat is None or s > max_sat:", "if max_sat is None or s >= max_sat:"))
B("B30 popularity: least supported outcomes", (COMP, "max_support = max(result_support)", "max_support = min(result_support)"))
B("B31 popularity: dedup dropped", (COMP, """        if res not in results:
            results.append(res)

    sat_profile = profile.as_sat_profile(sat_class)
    result_support""", """        results.append(res)

    sat_profile = profile.as_sat_profile(sat_class)
    result_support"""))
B("B32 popularity: indifferent voters support only their first best outcome", (COMP, "            elif s == max_sat:\n                arg_max_sat.append(i)\n", ""))
# ---------------- the additive fast path of the greedy rule (C03gen) ----------------
G_DENS = """    def satisfaction_density(proj):
        total_sat = sat_profile.total_satisfaction_project(proj)
        if total_sat > 0:
            if proj.cost > 0:
                return frac(total_sat, proj.cost)
            return inf
        return 0
"""
G_SORT = """    ordered_projects = sorted(
        projects, key=lambda p: (-satisfaction_density(p), projects.index(p))
    )
"""
G_PASS = """    for project in ordered_projects:
        if project.cost <= remaining_budget:
            selection.append(project)
            remaining_budget -= project.cost
            if analytics:
                selection.details.mark_as_selected(project, remaining_budget)
    return selection
"""
G_REMOVE = "    for project in budget_allocation:\n        projects.remove(project)\n"
R("G01 recorded rewrite harmless/rules-2 (density and rank dictionaries)", ("PATCH", "/verif/harmless/rules-2/patch.diff", None))
R("G02 recorded rewrite harmless/rules2-4 (one sort key, relying on stability)", ("PATCH", "/verif/harmless/rules2-4/patch.diff", None))
R("G03 recorded rewrite harmless/rules3-1 (general scheme only)", ("PATCH", "/verif/harmless/rules3-1/patch.diff", None))
R("G04 greedy: local names", (GREEDY, G_PASS, G_PASS.replace("remaining_budget", "money_left").replace("selection", "chosen")),
  (GREEDY, "    remaining_budget = instance.budget_limit - total_cost(budget_allocation)\n", "    money_left = instance.budget_limit - total_cost(budget_allocation)\n"),
  (GREEDY, "    selection = BudgetAllocation(\n        budget_allocation, details=GreedyWelfareAllocationDetails()\n    )\n    if analytics:\n        selection.details.projects.extend(",
   "    chosen = BudgetAllocation(\n        budget_allocation, details=GreedyWelfareAllocationDetails()\n    )\n    if analytics:\n        chosen.details.projects.extend("))
R("G05 greedy: density with early returns, tests negated", (GREEDY, G_DENS, """    def satisfaction_density(proj):
        total_sat = sat_profile.total_satisfaction_project(proj)
        if total_sat <= 0:
            return 0
        if proj.cost <= 0:
            return inf
        return frac(total_sat, proj.cost)
"""))
R("G06 greedy: density as a lambda with conditional expressions", (GREEDY, G_DENS, """    satisfaction_density = lambda proj: (
        (frac(sat_profile.total_satisfaction_project(proj), proj.cost) if proj.cost > 0 else inf)
        if sat_profile.total_satisfaction_project(proj) > 0
        else 0
    )
"""))
R("G07 greedy: `continue` when the project does not fit", (GREEDY, G_PASS, """    for project in ordered_projects:
        if project.cost > remaining_budget:
            continue
        selection.append(project)
        remaining_budget = remaining_budget - project.cost
    return selection
"""))
R("G08 greedy: named sort key function, selection += [project]", (GREEDY, G_SORT, """    def sort_key(p):
        return (-satisfaction_density(p), projects.index(p))

    ordered_projects = sorted(projects, key=sort_key)
"""), (GREEDY, "            selection.append(project)\n            remaining_budget -= project.cost\n", "            selection += [project]\n            remaining_budget -= project.cost\n"))
R("G09 greedy: statements reordered, copy of the initial allocation iterated", (GREEDY, G_REMOVE, "    for project in list(budget_allocation):\n        projects.remove(project)\n"),
  (GREEDY, "    remaining_budget = instance.budget_limit - total_cost(budget_allocation)\n", ""),
  (GREEDY, "    projects = sorted(instance)\n", "    remaining_budget = instance.budget_limit - total_cost(budget_allocation)\n    projects = sorted(instance)\n"))
R("G10 greedy: 0 < x comparisons, cost read once", (GREEDY, G_DENS, """    def satisfaction_density(proj):
        total_sat = sat_profile.total_satisfaction_project(proj)
        price = proj.cost
        if 0 < total_sat:
            if 0 < price:
                return frac(total_sat, price)
            return inf
        return 0
"""))
R("G11 greedy: remaining budget compared the other way round", (GREEDY, "        if project.cost <= remaining_budget:\n", "        if remaining_budget >= project.cost:\n"))
R("G12 greedy: the irresolute delegation written with an else", (GREEDY, """            analytics,
        )

    projects = sorted(instance)
""", """            analytics,
        )
    else:
        pass

    projects = sorted(instance)
"""))
R("G13 greedy: reverse=True instead of the negated key (reverse keeps the order among equal keys)", (GREEDY, G_SORT, "    ordered_projects = sorted(projects, key=lambda p: satisfaction_density(p), reverse=True)\n"))
R("G14 greedy: reverse=True with the local function itself as key", (GREEDY, G_SORT, "    ordered_projects = sorted(projects, key=satisfaction_density, reverse=True)\n"))

B("GB01 greedy: strict budget test", (GREEDY, "        if project.cost <= remaining_budget:\n", "        if project.cost < remaining_budget:\n"))
B("GB02 greedy: remaining budget not reduced", (GREEDY, "            remaining_budget -= project.cost\n", ""))
B("GB03 greedy: ascending density", (GREEDY, "key=lambda p: (-satisfaction_density(p), projects.index(p))", "key=lambda p: (satisfaction_density(p), projects.index(p))"))
B("GB04 greedy: reverse=True on top of the negated key (ascending density)", (GREEDY, G_SORT, "    ordered_projects = sorted(projects, key=lambda p: -satisfaction_density(p), reverse=True)\n"))
B("GB05 greedy: zero-cost guard dropped (ZeroDivisionError)", (GREEDY, "            if proj.cost > 0:\n                return frac(total_sat, proj.cost)\n            return inf\n", "            return frac(total_sat, proj.cost)\n"))
B("GB06 greedy: zero-cost projects get density 0", (GREEDY, "            return inf\n        return 0\n", "            return 0\n        return 0\n"))
B("GB07 greedy: unsupported projects of cost 0 get density inf (>= for >)", (GREEDY, "        if total_sat > 0:\n            if proj.cost > 0:", "        if total_sat >= 0:\n            if proj.cost > 0:"))
B("GB08 greedy: tie-breaking order not applied", (GREEDY, "    projects = tie_breaking.order(instance, profile, projects)\n", ""))
B("GB09 greedy: cost of the initial allocation not deducted", (GREEDY, "    remaining_budget = instance.budget_limit - total_cost(budget_allocation)\n", "    remaining_budget = instance.budget_limit\n"))
B("GB10 greedy: initial allocation dropped from the result", (GREEDY, "    selection = BudgetAllocation(\n        budget_allocation, details=GreedyWelfareAllocationDetails()\n    )", "    selection = BudgetAllocation(\n        details=GreedyWelfareAllocationDetails()\n    )"))
B("GB11 greedy: initial projects stay candidates", (GREEDY, G_REMOVE, ""))
B("GB12 greedy: later position first among equal densities", (GREEDY, "projects.index(p))\n    )", "-projects.index(p))\n    )"))
B("GB13 greedy: stops at the first project that does not fit", (GREEDY, "            remaining_budget -= project.cost\n            if analytics:\n                selection.details.mark_as_selected(project, remaining_budget)\n", "            remaining_budget -= project.cost\n        else:\n            break\n"))
B("GB14 greedy: the caller's allocation is appended to", (GREEDY, "    selection = BudgetAllocation(\n        budget_allocation, details=GreedyWelfareAllocationDetails()\n    )", "    selection = budget_allocation"))
B("GB15 greedy: density inverted (cost per satisfaction)", (GREEDY, "return frac(total_sat, proj.cost)", "return frac(proj.cost, total_sat)"))
B("GB16 greedy: sorted before the tie-breaking order is applied", (GREEDY, "    projects = tie_breaking.order(instance, profile, projects)\n", ""),
  (GREEDY, G_SORT, G_SORT + "    ordered_projects = tie_breaking.order(instance, profile, ordered_projects)\n"))

# ---------------- sequential Phragmen (C05gen) ----------------
P_UPD = """                    for voter in voters:
                        if selected_project in voter.ballot:
                            voter.load = min_new_maxload
"""
P_STOP = """            if any(
                cost + project.cost > inst.budget_limit
                for project in arg_min_new_maxload
            ):
"""
R("P01 recorded rewrite harmless/rules3-3 (store_alloc / update_loads helpers, set comprehension)", ("PATCH", "/verif/harmless/rules3-3/patch.diff", None))
R("P02 phragmen: local names in the inner function", (PHRAG, "arg_min_new_maxload", "arg_best"), (PHRAG, "min_new_maxload", "best_load"), (PHRAG, "tied_projects", "tied"))
R("P03 phragmen: `if not projects`, stop test as a comprehension list", (PHRAG, "        if len(projects) == 0:\n", "        if not projects:\n"),
  (PHRAG, P_STOP, "            if any([cost + p.cost > inst.budget_limit for p in arg_min_new_maxload]):\n"))
R("P04 phragmen: zero score tested first the other way round, > for <", (PHRAG, """                if approval_scores[project] == 0:
                    new_maxload = float("inf")
                else:
                    new_maxload = frac(
                        sum(voters[i].total_load() for i in supporters[project])
                        + project.cost,
                        approval_scores[project],
                    )
                if min_new_maxload is None or new_maxload < min_new_maxload:""", """                if approval_scores[project] != 0:
                    new_maxload = frac(
                        sum(voters[i].total_load() for i in supporters[project])
                        + project.cost,
                        approval_scores[project],
                    )
                else:
                    new_maxload = float("inf")
                if min_new_maxload is None or min_new_maxload > new_maxload:"""))
R("P05 phragmen: the selected project named before the loads are updated, cost added to a local", (PHRAG, """                    alloc.append(selected_project)
                    projects.remove(selected_project)
                    aux(""", """                    projects.remove(selected_project)
                    alloc.append(selected_project)
                    new_cost = cost + selected_project.cost
                    aux("""), (PHRAG, """                        alloc,
                        cost + selected_project.cost,
                        allocs,
                        resolute,
                    )
                else:""", """                        alloc,
                        new_cost,
                        allocs,
                        resolute,
                    )
                else:"""))
R("P06 phragmen: voters built with an explicit loop", (PHRAG, "        voters_details = [PhragmenVoter(b, 0, profile.multiplicity(b)) for b in profile]\n",
  "        voters_details = []\n        for b in profile:\n            voters_details.append(PhragmenVoter(b, 0, profile.multiplicity(b)))\n"))

B("PB01 seeded C05-5a (pruning with >= for >)", ("PATCH", "/verif/seeded/C05-5a/patch.diff", None))
B("PB02 seeded C05-5b (initial loads misaligned)", ("PATCH", "/verif/seeded/C05-5b/patch.diff", None))
B("PB03 seeded C06-5a (initial loads misaligned after merging ballots)", ("PATCH", "/verif/seeded/C06-5a/patch.diff", None))
B("PB04 seeded C05-6a (budget pre-filter dropped)", ("PATCH", "/verif/seeded/C05-6a/patch.diff", None))
B("PB05 seeded C05-6b (module-level score cache)", ("PATCH", "/verif/seeded/C05-6b/patch.diff", None))
B("PB06 seeded C01-6a, re-based (stop test on the first tied project only)", (PHRAG, P_STOP, """            arg_min_new_maxload.sort()
            to_check = arg_min_new_maxload[:1] if resolute else arg_min_new_maxload
            if any(cost + project.cost > inst.budget_limit for project in to_check):
"""))
B("PB06b phragmen: stop test on the first tied project in iteration order", (PHRAG, P_STOP, """            if cost + arg_min_new_maxload[0].cost > inst.budget_limit:
"""))
B("PB07 seeded C08-5b (deepcopy hoisted out of the tie loop)", ("PATCH", "/verif/seeded/C08-5b/patch.diff", None))
B("PB08 seeded C08-4b (resolute early exit at exact budget)", ("PATCH", "/verif/seeded/C08-4b/patch.diff", None))
B("PB09 seeded C13-4a (initial allocation aliased)", ("PATCH", "/verif/seeded/C13-4a/patch.diff", None))
B("PB10 seeded C06-6a (PhragmenVoter copy losing the multiplicity)", ("PATCH", "/verif/seeded/C06-6a/patch.diff", None))
B("PB11 phragmen: <= for < in the running minimum", (PHRAG, "new_maxload < min_new_maxload:", "new_maxload <= min_new_maxload:"))
B("PB12 phragmen: cost of the project left out of the new maximum load", (PHRAG, "                        + project.cost,\n", "                        ,\n"))
B("PB13 phragmen: loads set to the cost share instead of the new maximum load", (PHRAG, P_UPD, P_UPD.replace("voter.load = min_new_maxload", "voter.load = voter.load + frac(selected_project.cost, approval_scores[selected_project])")))
B("PB14 phragmen: all(...) in the stop test", (PHRAG, P_STOP, P_STOP.replace("if any(", "if all(")))
B("PB15 phragmen: tied projects not name-sorted before the tie-breaking", (PHRAG, "tied_projects = sorted(arg_min_new_maxload)", "tied_projects = list(arg_min_new_maxload)"))
B("PB16 phragmen: >= in the stop test", (PHRAG, "cost + project.cost > inst.budget_limit", "cost + project.cost >= inst.budget_limit"))

# ---------------- edits that leave the fragment / the aliasing discipline: must fail closed ----------------
B("B33 increase: the outcome of the rule is mutated in place", (EXH, "            if exhaustive_stop and instance.is_exhaustive(outcome):\n                return outcome\n",
  "            if exhaustive_stop and instance.is_exhaustive(outcome):\n                outcome.extend([])\n                return outcome\n"))
B("B34 increase: exceptions of the rule swallowed (try/except)", (EXH, "        outcome = rule(current_instance, profile, **rule_params)\n",
  "        try:\n            outcome = rule(current_instance, profile, **rule_params)\n        except ValueError:\n            return previous_outcome\n"))
B("B35 swc: the caller's initial allocation is appended to", (COMP, """    if initial_budget_allocation is not None:
        budget_allocation = BudgetAllocation(initial_budget_allocation)
    else:
        budget_allocation = BudgetAllocation()
    results = []""", """    if initial_budget_allocation is not None:
        budget_allocation = initial_budget_allocation
        budget_allocation.extend([])
    else:
        budget_allocation = BudgetAllocation()
    results = []"""))
B("B36 completion: a module-level helper is called (outside the fragment)", (EXH, "    budget_allocations = []\n    res = []\n",
  "    budget_allocations = sorted([])\n    res = []\n"))


def sh(cmd, **kw):
    return subprocess.run(cmd, shell=True, capture_output=True, text=True, **kw)


def main():
    res = []
    for name, kind, edits in M:
        if FILT and FILT not in name:
            continue
        sh("git -C %s checkout -q -- pabutools" % WT)
        ok = True
        for f, old, new in edits:
            if f == "PATCH":                      # a whole patch file (the recorded harmless rewrites of /verif/harmless)
                if sh("git -C %s apply %s" % (WT, old)).returncode != 0:
                    ok = False
                    print("!! %s: patch does not apply" % name)
                    break
                continue
            p = os.path.join(WT, f)
            s = open(p).read()
            if s.count(old) < 1 or (s.count(old) != 1 and "\n" in old):
                ok = False
                print("!! %s: pattern occurs %d times in %s" % (name, s.count(old), f))
                break
            open(p, "w").write(s.replace(old, new))
        if not ok:
            res.append((name, kind, "PATTERN"))
            continue
        if APPLY_ONLY:
            print("applied", name)
            return
        t0 = time.time()
        r = sh("/verif/tools/pyctrl_try.sh %s %s" % (WT, COQ))
        checks = r.returncode == 0
        verdict = ("ok" if checks else "FALSE ALARM") if kind == "rewrite" else ("caught" if not checks else "MISSED")
        first = ""
        failed = [l.split(":")[0] for l in r.stdout.split("\n") if l.endswith(": FAILS")]
        if kind == "break":
            # an edit of one file must not take the other property's theorems down with it
            want = {EXH: "C09gen", COMP: "C19gen", GREEDY: "C03gen", PHRAG: "C05gen"}.get(edits[0][0], "C09gen")
            if name.startswith("PB"):
                want = "C05gen"
            if failed and failed != [want]:
                verdict += "+" + ",".join(failed)
        if not checks:
            lines = [l for l in r.stdout.split("\n") if l.startswith("File ") or "Untranslated" in l or l.startswith("Error")]
            first = " | ".join(l.strip()[:110] for l in lines[:3])
        print("%-80s %-11s %5.1fs %s" % (name, verdict, time.time() - t0, first), flush=True)
        res.append((name, kind, verdict))
    sh("git -C %s checkout -q -- pabutools" % WT)
    sh("/verif/tools/pyctrl_try.sh /repo %s" % COQ)
    rw = [r for r in res if r[1] == "rewrite"]
    br = [r for r in res if r[1] == "break"]
    print("rewrites kept checking: %d / %d" % (sum(r[2] == "ok" for r in rw), len(rw)))
    print("breaking edits caught : %d / %d" % (sum(r[2] == "caught" for r in br), len(br)))


main()
