#!/bin/bash
# tools/keep_seed.sh <PROP> <srcdir> <name> <verdict-text>   -> /verif/seeded/<name>/
P="$1"; S="$2"; N="$3"; V="$4"
D=/verif/seeded/$N; mkdir -p $D
cp $S/patch.diff $S/demo.py $D/
python3 - "$S/meta.json" "$D/meta.json" "$P" "$V" <<'PY'
import json,sys
m=json.load(open(sys.argv[1]))
m["property"]=sys.argv[3]
m["confirmed_by_coordinator"]="tools/try_seed.sh in a scratch worktree of /repo: patch applies, the 88 baseline tests pass with it, demo.py exits 0 on HEAD and 1 with the patch"
m["check_result"]=sys.argv[4]
json.dump(m,open(sys.argv[2],"w"),indent=1)
PY
