#!/bin/bash
# Regenerate Generated/PyCtrl.v from a source tree and rebuild the two property files that depend on it.
# usage: tools/pyctrl_try.sh [repo-dir] [coq-dir] [harness-dir]   (defaults: /repo, /work/pyctrl/coq, /verif/harness)
R="${1:-/repo}"; C="${2:-/work/pyctrl/coq}"; H="${3:-${PYCTRL_HARNESS:-/verif/harness}}"
[ -f "$H/vharness/pytrans_ctrl.py" ] || H=/work/pyctrl/harness
cd "$H" && /venv/bin/python -m vharness.pytrans_ctrl "$R" "$C" >/dev/null 2>&1 || { echo "TRANSLATOR CRASHED"; exit 2; }
cd "$C" && make Makefile.coq >/dev/null 2>&1
rm -f theories/Props/C09gen.vo theories/Props/C19gen.vo theories/Props/C03gen.vo theories/Props/C05gen.vo
OUT=$(timeout 900 make -f Makefile.coq -k -j4 theories/Props/C09gen.vo theories/Props/C19gen.vo theories/Props/C03gen.vo theories/Props/C05gen.vo 2>&1 | grep -v conda)
S=0
for f in C09gen C19gen C03gen C05gen; do
  if [ -f theories/Props/$f.vo ]; then echo "$f: checks"; else echo "$f: FAILS"; S=1; fi
done
if [ $S = 1 ]; then echo "$OUT" | grep -A6 '^File ' | head -24; grep -n 'Untranslated "' theories/Generated/PyCtrl.v | cut -c1-220 | head; fi
exit $S
