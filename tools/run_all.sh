#!/bin/bash
# tools/run_all.sh [tier]  -- every claimed check once, sequentially; one summary line each
T="${1:-quick}"
cd /verif
for id in $(python3 -c "import json; print(' '.join(c['property_id'] for c in json.load(open('MANIFEST.json'))['checks']))"); do
  s=$(date +%s)
  out=$(timeout 7200 ./check $id $T 2>&1)
  rc=$?
  echo "$id rc=$rc $(( $(date +%s) - s ))s :: $(echo "$out" | grep -E "^\[$id\] tier" | tail -1)"
  echo "$out" | grep -E "^(VIOLATION|KNOWN-FINDING)" | cut -c1-200
done
