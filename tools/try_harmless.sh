#!/bin/bash
# tools/try_harmless.sh <dir with patch.diff> <props...> : behaviour-preserving rewrite; no check may alarm
D="$1"; shift
WT=/tmp/hlwt-$$
git -C /repo worktree add --detach $WT HEAD >/dev/null 2>&1 || { echo "cannot create worktree"; exit 2; }
trap 'git -C /repo worktree remove --force $WT >/dev/null 2>&1; rm -rf /work/hltest-$$' EXIT
cd $WT && git apply "$D/patch.diff" || { echo "PATCH DOES NOT APPLY"; exit 2; }
ST=/work/hltest-$$; mkdir -p $ST; rsync -a --exclude .buildlock /verif/coq/ $ST/coq/
cd /verif
for Q in "$@"; do
  OUT=$(VERIF_REPO=$WT VERIF_COQ=$ST/coq timeout 1500 ./check $Q quick 2>&1 | grep -v conda | tail -6)
  if echo "$OUT" | grep -q "^VIOLATION"; then echo "$Q: FALSE ALARM?  $(echo "$OUT" | grep '^VIOLATION')"; else echo "$Q: silent"; fi
done
