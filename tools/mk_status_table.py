#!/usr/bin/env python3
"""Rewrite the part of DESIGN.md between <!-- STATUS:BEGIN --> and <!-- STATUS:END -->: per property the theorem files,
number of theorems re-checked on every run, what the last quick run covered, recorded findings."""
import glob, importlib, json, os, re, sys
V = os.path.dirname(os.path.dirname(os.path.abspath(__file__)))
sys.path.insert(0, os.path.join(V, "harness"))
kf = json.load(open(os.path.join(V, "known_findings.json")))
rows = []
for l in open(os.path.join(V, "properties.jsonl")):
    p = json.loads(l)
    pid = p["id"]
    try:
        mod = importlib.import_module("vharness.props." + pid.lower())
        pf = mod.PROPS if isinstance(mod.PROPS, (list, tuple)) else [mod.PROPS]
    except Exception as e:
        rows.append("| %s | (no check) | | | |" % pid)
        continue
    nth, unproved = 0, 0
    for f in pf:
        src = open(os.path.join(V, "coq", "theories", f)).read()
        unproved += len(re.findall(r"\(\*\s*UNPROVED", src))
        nth += len(re.findall(r"^\s*Theorem\s", re.sub(r"\(\*.*?\*\)", "", src, flags=re.S), flags=re.M))
    ev = {}
    try:
        ev = json.load(open(os.path.join(V, "evidence", pid + ".json")))
    except Exception:
        pass
    cov = ev.get("coverage", {})
    nf = [f["signature"] for f in kf["findings"] if f["property"] == pid]
    nfix = len([f for f in kf["fixed"] if ("property=%s " % pid) in f])
    seeds = len([d for d in glob.glob(os.path.join(V, "seeded", "*")) if json.load(open(os.path.join(d, "meta.json"))).get("property") == pid])
    rows.append("| %s | %s | %d%s | %s: %s cases, %s distinct non-trivial, %.0f s | %d fixed%s | %d |" % (
        pid, ", ".join("`%s`" % f for f in pf), nth, (" (+%d UNPROVED block%s)" % (unproved, "s" if unproved > 1 else "")) if unproved else "",
        ("thorough" if "thorough" in json.dumps(ev.get("command", ev.get("tier", ""))) else "quick"),
        cov.get("evaluations", "?"), cov.get("distinct_nontrivial", "?"), ev.get("wall_s", 0),
        nfix, ("; recorded: " + ", ".join(nf)) if nf else "", seeds))
txt = ("| property | theorem files (re-compiled with `Print Assumptions` on every run) | theorems | last run (tier) | defects | seeded changes |\n"
       "|---|---|---|---|---|---|\n" + "\n".join(rows) + "\n")
p = os.path.join(V, "DESIGN.md")
s = open(p).read()
a, b = "<!-- STATUS:BEGIN -->", "<!-- STATUS:END -->"
s = s[: s.index(a) + len(a)] + "\n" + txt + s[s.index(b):]
open(p, "w").write(s)
print("status table: %d rows" % len(rows))
