#!/usr/bin/env python3
"""Print the prompt for a seeded-breakage agent: property text only + its scratch worktree."""
import json, sys
pid, k = sys.argv[1], sys.argv[2]
p = [json.loads(l) for l in open('/verif/properties.jsonl') if json.loads(l)['id'] == pid][0]
import glob, os
used = []
for d in sorted(glob.glob('/verif/seeded/*')):
    try:
        m = json.load(open(os.path.join(d, 'meta.json')))
    except Exception:
        continue
    if m.get('property') == pid:
        used.append("- " + str(m.get('summary', ''))[:300].replace("\n", " "))
used_txt = ("\nMechanisms ALREADY USED by earlier changes for this property -- do something different in kind (another function, another mechanism, another part of the property statement):\n" + "\n".join(used) + "\n") if used else ""
wt = f"/tmp/mut-{pid}-{k}"
out = f"/tmp/mutout/{pid}-{k}"
print(f"""You are testing how well a semantic property of a Python library is guarded. The library is drknzz/pabutools (participatory budgeting: elections, satisfaction measures, voting rules, analysis). You have your own scratch git worktree of it at {wt} (create it first: `git -C /repo worktree add --detach {wt} HEAD`). Work ONLY inside {wt} and {out} (create it). Do NOT read or touch /verif or /repo's working tree, do not look for other people's checks; do not commit anything to /repo.

Run Python as `/venv/bin/python` with `PYTHONPATH={wt}` (verify `python -c "import pabutools; print(pabutools.__file__)"` points into {wt}). Every shell command prints a harmless `WARNING conda…` line. The bundled CBC solver (python-mip) can crash on tiny models; avoid relying on it.

THE PROPERTY ({p['id']}: {p['title']}):
{p['statement']}
It is quantified over: {p['quantifier']['text']}
Code it is anchored in: {', '.join(p['anchors']['files'])}

{used_txt}
YOUR TASK: produce TWO independent, realistic source changes (each a separate small patch against the worktree's HEAD, typically 1–10 changed lines, the kind of edit a maintainer could plausibly make during a refactor/optimisation/bug-fix) such that with the change:
  (a) the library still imports and the existing test suite still passes: `cd {wt} && /venv/bin/python -m pytest -q -p no:cacheprovider --timeout=900 tests --deselect tests/PaBuLib/test_pabulib_data.py --deselect tests/test_pabulib.py::TestPabulib::test_url_parse -q` (88 passed);
  (b) the property above is VIOLATED for some input/history/configuration inside its quantifier;
  (c) the violation needs something SPECIFIC to manifest — an unusual input (ties, zero or fractional costs, multiplicities ≥2, empty ballots, boundary budgets, a particular insertion order or hash seed), a multi-step sequence of operations, or two cooperating sites that each look fine alone — NOT something ordinary use would expose at once (a change that breaks most calls is useless).
For each change write to {out}/a/ and {out}/b/: `patch.diff` (output of `git diff` in the worktree, applying cleanly to HEAD with `git apply`), `demo.py` (a small self-contained program using only the public API that exits 0 on the unchanged HEAD and exits 1 (printing what went wrong) with the patch applied; run with PYTHONPATH set to the tree under test, given as sys.argv[1] or via the PYTHONPATH already set), and `meta.json` {{"property": "{p['id']}", "summary": "...what the change does...", "needs": "...what is needed for the violation to manifest...", "ran": "...commands you ran and their outcome (tests pass with patch; demo passes on HEAD, fails with patch)..."}}.
Verify all of (a)–(c) yourself for both changes (apply patch → run tests → run demo → `git checkout -- .` → run demo again). Make the two changes different in kind (different function / different mechanism). When done, leave the worktree clean (`git -C {wt} checkout -- .`), and reply with a 5-line summary per change. Do not explain how one might detect the change.""")
