#!/usr/bin/env python3
"""One-off helper (not part of the check): writes Props/C10gen.v and Props/TieGen.v from the lemma STATEMENTS of
Proofs/PyGenSatP.v and Proofs/PyGenTieP.v (each statement is copied in full, so the property files cannot be
weakened by editing the proofs).  usage: mk_pygen_props.py <coq-dir>"""
import re, sys
C = sys.argv[1] if len(sys.argv) > 1 else "/work/pygen/coq"
def lemmas(path):
    s = open(path).read()
    out = []
    pos = 0
    for m in re.finditer(r"\(\*(.*?)\*\)|^Lemma\s+([A-Za-z0-9_']+)\s*:(.*?)\.\s*\nProof", s, flags=re.S | re.M):
        if m.group(2):
            out.append((m.group(2), m.group(3).strip()))
    return out
hdr_sat = '''(* Props/C10gen.v -- property C10 (satisfaction measures compute their documented formulas), the REGENERATED tie:
   the definitions of Generated/PyFuncs.v are translated from the Python source of pabutools/election/satisfaction/
   {additive,functional,positional}satisfaction.py on every run (harness/vharness/pytrans.py, a fail-closed translator
   of a restricted pure fragment; trusted base in DESIGN.md, section C10gen/TieGen); the theorems below say that what the
   source says NOW is the hand-written model of Model/Satisfaction.v that the theorems of Props/C10.v are about:
   per-project functions (and that none of them can divide by zero), the sat/sat_project of the three base classes
   (memo cache transparent), which normaliser each preprocessing computes with which arguments, the class wiring,
   and -- composed -- every shipped exact measure.  Only statements closed by exact; proofs in Proofs/PyGenSatP.v. *)
From Coq Require Import String.
From PB Require Import Model.PyPrims Generated.PyFuncs Proofs.PyGenLib Proofs.PyGenSatP.
Open Scope Q_scope.
'''
hdr_tie = '''(* Props/TieGen.v -- the tie-breaking rules, REGENERATED tie (used by the rule properties C02/C03/C05):
   the keys of the four shipped rules and TieBreakingRule.order / untie are translated from pabutools/tiebreaking.py
   on every run (Generated/PyFuncs.v, harness/vharness/pytrans.py); the theorems say that they are the keys
   (Model/Phragmen.v tb_lexico, tb_app_score, tb_min_cost, tb_max_cost) and the stable order / first element
   (Base/Election.v tie_order, untie) the rule models are run with.  Only statements closed by exact; proofs in
   Proofs/PyGenTieP.v. *)
From Coq Require Import String.
From PB Require Import Model.PyPrims Generated.PyFuncs Proofs.PyGenLib Proofs.PyGenTieP.
From PB Require Model.Phragmen.
Open Scope Q_scope.
'''
hdr_inst = '''(* Props/C15gen.v -- property C15 (instance predicates agree with brute force over subsets), the REGENERATED tie:
   total_cost, Instance.is_feasible / is_exhaustive (with and without available_projects) / is_trivial /
   budget_allocations, max_budget_allocation_cardinality and utils.powerset are translated from the Python source of
   pabutools/election/instance.py and pabutools/utils.py on every run (Generated/PyFuncs.v, harness/vharness/pytrans.py;
   trusted base in DESIGN.md, section C10gen/TieGen and its C15gen/C18gen addendum); the theorems say that what the source
   says NOW is the hand-written model of Model/InstanceM.v (Base/ListExt.v for powerset) that the theorems of
   Props/C15.v are about.  max_budget_allocation_cost builds a MIP model: it stays an oracle (not translated).
   Only statements closed by exact; proofs in Proofs/PyGenInstP.v. *)
From Coq Require Import String.
From PB Require Import Model.PyPrims Generated.PyFuncs Proofs.PyGenLib Proofs.PyGenInstP.
Open Scope Q_scope.
'''
hdr_stats = '''(* Props/C18gen.v -- property C18 (statistics equal their textbook definitions), the REGENERATED tie:
   utils.mean_generator (both element shapes) and gini_coefficient, and the statistics of pabutools/analysis/
   {votersatisfaction,profileproperties,instanceproperties}.py that fit the translated fragment are translated from
   the Python source on every run (Generated/PyFuncs.v, harness/vharness/pytrans.py); the theorems say that what the
   source says NOW is the hand-written model of Model/Analysis.v that the theorems of Props/C18.v (textbook
   definitions of Spec/Stats.v) are about -- and, for the incremental mean, directly the weighted mean of Spec/Stats.v.
   A result of type option: None = the function raises.  The float-only statistics (numpy arrays filled by index,
   np.std, math.ceil) are listed in gen_correspondence_only and stay with the C18 correspondence.
   Only statements closed by exact; proofs in Proofs/PyGenStatsP.v. *)
From Coq Require Import String.
From PB Require Import Model.PyPrims Generated.PyFuncs Proofs.PyGenLib Proofs.PyGenStatsP.
From PB Require Model.Analysis Spec.Stats.
Open Scope Q_scope.
'''
hdr_price = '''(* Props/C12gen.v -- property C12 (priceability analysis is sound and complete), the REGENERATED tie for the validator:
   utils.round_cmp and analysis/priceability.validate_price_system (with and without a relaxation object) are translated
   from the Python source on every run (Generated/PyFuncs.v, harness/vharness/pytrans.py); the theorems say that what
   the source says NOW is [round_cmp] / [validate_ps] / [validate_ps_g] of Model/Priceability.v, i.e. the validator the
   theorems of Props/C12.v and Props/C12relax.v are about.  Exact inputs (int / Fraction / mpq); floats are out of scope.
   The MIP built by priceable() stays with the anchors and the correspondence.
   Only statements closed by exact; proofs in Proofs/PyGenPriceP.v. *)
From Coq Require Import String.
From PB Require Import Model.PyPrims Generated.PyFuncs Proofs.PyGenLib Proofs.PyGenPriceP.
From PB Require Spec.PriceSystem Model.Priceability.
Open Scope Q_scope.
'''
hdr_jr = '''(* Props/C14gen.v -- property C14 (proportionality checkers match their definitions), the REGENERATED tie:
   analysis/cohesiveness.py (is_large_enough, is_cohesive_approval, is_cohesive_cardinal, cohesive_groups for approval
   and cardinal profiles) and analysis/justifiedrepresentation.py (is_in_core, strong-EJR / EJR / PJR for approval and
   cardinal ballots, with the up-to-any / up-to-one relaxations and their up_to_func lambdas) are translated from the
   Python source on every run (Generated/PyFuncs.v, harness/vharness/pytrans.py); the theorems say that what the source
   says NOW is the executable checker of Model/Cohesive.v, which Props/C14.v proves equal to the definitions of
   Spec/JR.v.  List profiles (every ballot once); the satisfaction class is a parameter and is assumed additive
   (sat(X) = sum of sat_project), as Model/Cohesive.v reads it.
   Only statements closed by exact; proofs in Proofs/PyGenJRP.v. *)
From Coq Require Import String.
From PB Require Import Model.PyPrims Generated.PyFuncs Proofs.PyGenLib Proofs.PyGenJRP.
From PB Require Base.JRAux Spec.JR Model.Cohesive.
Open Scope Q_scope.
'''
def emit(path, hdr, prefix, ls, skip=()):
    L = [hdr]
    for n, st in ls:
        if n in skip:
            continue
        nm = prefix + re.sub(r"^gen_", "", n)
        L.append("Theorem %s :\n  %s.\nProof. exact %s. Qed.\nPrint Assumptions %s.\n" % (nm, st, n, nm))
    open(path, "w").write("\n".join(L))
    return len(L) - 1
print(emit(C + "/theories/Props/C10gen.v", hdr_sat, "C10gen_", lemmas(C + "/theories/Proofs/PyGenSatP.v")),
      emit(C + "/theories/Props/TieGen.v", hdr_tie, "TieGen_", lemmas(C + "/theories/Proofs/PyGenTieP.v"),
           skip=("isort_leb_ext",)),
      emit(C + "/theories/Props/C15gen.v", hdr_inst, "C15gen_", lemmas(C + "/theories/Proofs/PyGenInstP.v")),
      emit(C + "/theories/Props/C18gen.v", hdr_stats, "C18gen_", [x for x in lemmas(C + "/theories/Proofs/PyGenStatsP.v")
           if x[0].startswith("gen_")]),
      emit(C + "/theories/Props/C14gen.v", hdr_jr, "C14gen_", [x for x in lemmas(C + "/theories/Proofs/PyGenJRP.v")
           if x[0].startswith("gen_")]),
      emit(C + "/theories/Props/C12gen.v", hdr_price, "C12gen_", [x for x in lemmas(C + "/theories/Proofs/PyGenPriceP.v")
           if x[0].startswith("gen_")]))
