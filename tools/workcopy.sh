#!/bin/bash
# Create/refresh a private working copy of the Coq tree:  tools/workcopy.sh <name>  -> /work/<name>/coq
set -e
N="$1"; mkdir -p "/work/$N"
rsync -a --exclude '.buildlock' /verif/coq/ "/work/$N/coq/"
echo "/work/$N/coq"
