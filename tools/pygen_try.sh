#!/bin/bash
# Regenerate Generated/PyFuncs.v from a source tree and rebuild the two property files that depend on it.
# usage: tools/pygen_try.sh [repo-dir] [coq-dir]     (defaults: /repo, /work/pygen/coq)
R="${1:-/repo}"; C="${2:-/work/pygen/coq}"
cd /verif/harness && /venv/bin/python -m vharness.pytrans "$R" "$C" >/dev/null 2>&1 || { echo "TRANSLATOR CRASHED"; exit 2; }
cd "$C" && make Makefile.coq >/dev/null 2>&1
rm -f theories/Props/C10gen.vo theories/Props/TieGen.vo
OUT=$(timeout 900 make -f Makefile.coq -k -j4 theories/Props/C10gen.vo theories/Props/TieGen.vo 2>&1 | grep -v conda)
S=0
for f in C10gen TieGen; do
  if [ -f theories/Props/$f.vo ]; then echo "$f: checks"; else echo "$f: FAILS"; S=1; fi
done
if [ $S = 1 ]; then echo "$OUT" | grep -A6 '^File ' | head -24; grep -n 'Untranslated "' theories/Generated/PyFuncs.v | cut -c1-220 | head; fi
exit $S
