#!/bin/bash
# Regenerate Generated/PyFuncs.v from a source tree and rebuild the property files that depend on it.
# usage: tools/pygen_try.sh [repo-dir] [coq-dir] [props...]   (defaults: /repo, /work/pygen/coq, all four)
# PYGEN_HARNESS=<dir> uses the translator of another harness copy (default /verif/harness)
R="${1:-/repo}"; C="${2:-/work/pygen/coq}"; shift; shift
P="${@:-C10gen TieGen C15gen C18gen C12gen C14gen}"
cd ${PYGEN_HARNESS:-/verif/harness} && /venv/bin/python -m vharness.pytrans "$R" "$C" >/dev/null 2>&1 || { echo "TRANSLATOR CRASHED"; exit 2; }
cd "$C" && make Makefile.coq >/dev/null 2>&1
T=""
for f in $P; do rm -f theories/Props/$f.vo; T="$T theories/Props/$f.vo"; done
OUT=$(timeout 1200 make -f Makefile.coq -k -j4 $T 2>&1 | grep -v conda)
S=0
for f in $P; do
  if [ -f theories/Props/$f.vo ]; then echo "$f: checks"; else echo "$f: FAILS"; S=1; fi
done
if [ $S = 1 ]; then echo "$OUT" | grep -A6 '^File ' | head -24; grep -n 'Untranslated "' theories/Generated/PyFuncs.v | grep -v "histogram\|median_ballot\|std_dev" | cut -c1-220 | head; fi
exit $S
