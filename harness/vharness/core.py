"""Generic driver of the verification checks.

Every property module `vharness.props.cXX` provides (see props/c15.py for the reference):

  ID            "C15"
  ORACLE        Coq module with `case`, `run`         (e.g. "Oracle.C15")
  PROPS         Coq file with the property theorems   (e.g. "Props/C15.v")
  CODES         {code: (kind, text)}  kind in {"oracle", "model"}:
                  oracle = the property itself fails on the implementation's output
                  model  = the implementation differs from the Gallina model (correspondence)
  budget(tier)  number of generated cases
  gen(rng, i, tier) -> case (JSON-able dict)           one PRNG per case, derived from VERIF_SEED
  impl(case) -> obs (JSON-able)                        runs the real code; executed in a worker
  coq_case(case, obs) -> str                           Gallina term of type `case`
  nontrivial(case, obs) -> hashable | None             key of a distinct non-trivial case
  shrink(case) -> iterable of smaller cases            (optional)
  describe(case, obs, code) -> dict                    (optional) extra replay info
  RULE, ASSUMPTIONS, TRUSTED                           strings for the evidence file
"""
from __future__ import annotations

import fcntl
import hashlib
import importlib
import json
import os
import random
import re
import shutil
import subprocess
import sys
import time
from fractions import Fraction

VERIF = os.path.dirname(os.path.dirname(os.path.dirname(os.path.abspath(__file__))))
COQ = os.environ.get("VERIF_COQ", os.path.join(VERIF, "coq"))
REPO = os.environ.get("VERIF_REPO", "/repo")
PY = "/venv/bin/python"
NWORK = int(os.environ.get("VERIF_JOBS", "14"))
SHARD = 250

ALLOWED_AXIOMS: set[str] = set()  # the development is axiom-free; anything listed is reported


# ----------------------------------------------------------------------------------------------
# Gallina serialisation
# ----------------------------------------------------------------------------------------------
def q(x) -> str:
    """exact rational -> Gallina Q literal"""
    if isinstance(x, str):
        x = Fraction(x)
    elif isinstance(x, (list, tuple)) and len(x) == 2:
        x = Fraction(int(x[0]), int(x[1]))
    else:
        x = Fraction(x)
    return "(%d # %d)" % (x.numerator, x.denominator)


def qj(x) -> str:
    """exact rational -> JSON-able string 'n/d'"""
    try:
        import gmpy2  # noqa

        if isinstance(x, type(gmpy2.mpq(1))):
            return "%d/%d" % (int(x.numerator), int(x.denominator))
    except Exception:
        pass
    if isinstance(x, float):
        x = Fraction(x)  # exact binary value
    x = Fraction(x)
    return "%d/%d" % (x.numerator, x.denominator)


def lst(items, f=str) -> str:
    return "[" + "; ".join(f(x) for x in items) + "]"


def nat(n) -> str:
    return "%d%%nat" % int(n)


def natl(items) -> str:
    return "(" + lst(items, lambda n: str(int(n))) + "%nat)"


def qlist(items) -> str:
    return lst(items, q)


def boolc(b) -> str:
    return "true" if b else "false"


def opt(x, f=str) -> str:
    return "None" if x is None else "(Some %s)" % f(x)


def pair(*xs) -> str:
    return "(" + ", ".join(xs) + ")"


# ----------------------------------------------------------------------------------------------
# running the implementation in worker subprocesses
# ----------------------------------------------------------------------------------------------
def _worker_env(hashseed="0"):
    env = dict(os.environ)
    env["PYTHONPATH"] = os.path.join(VERIF, "harness") + ":" + REPO
    env["PYTHONHASHSEED"] = str(hashseed)
    env["PIP_NO_INDEX"] = "1"
    env["VERIF_REPO"] = REPO
    return env


def _read_out(out, obs):
    done, started = set(), None
    if os.path.exists(out):
        for line in open(out):
            line = line.strip()
            if not line:
                continue
            try:
                r = json.loads(line)
            except Exception:
                continue
            if "start" in r:
                started = r["start"]
                continue
            obs[r["i"]] = r["obs"]
            done.add(r["i"])
    return done, started


def run_impl(prop_id: str, cases: list[dict], tmpdir: str, tag="w", case_timeout=None) -> list:
    """Run prop.impl on every case in worker subprocesses; returns obs list (same order).
    A worker death -- or no progress for `case_timeout` seconds (CBC sometimes hangs) -- marks the
    case in flight as {"crash": rc} and the remaining cases of that worker are resumed."""
    n = len(cases)
    obs: list = [None] * n
    if n == 0:
        return obs
    if case_timeout is None:
        case_timeout = float(os.environ.get("VERIF_CASE_TIMEOUT", "60"))
    nw = max(1, min(NWORK, (n + 3) // 4))
    chunks = [list(range(k, n, nw)) for k in range(nw)]
    pending = {k: chunks[k] for k in range(nw) if chunks[k]}
    rounds = 0
    while pending:
        rounds += 1
        procs = {}
        for k, idxs in pending.items():
            inp = os.path.join(tmpdir, f"{tag}_{k}_{rounds}.in")
            out = os.path.join(tmpdir, f"{tag}_{k}_{rounds}.out")
            with open(inp, "w") as f:
                for i in idxs:
                    f.write(json.dumps({"i": i, "case": cases[i]}) + "\n")
            hs = cases[idxs[0]].get("hashseed", 0) if isinstance(cases[idxs[0]], dict) else 0
            errf = open(os.path.join(tmpdir, f"{tag}_{k}_{rounds}.err"), "wb")
            p = subprocess.Popen(
                [PY, "-m", "vharness.worker", prop_id, inp, out],
                env=_worker_env(hs), stdout=subprocess.DEVNULL, stderr=errf, cwd=tmpdir)
            procs[k] = {"p": p, "idxs": idxs, "out": out, "err": errf, "size": -1, "t": time.time(), "rc": None}
        live = set(procs)
        while live:
            time.sleep(0.2)
            now = time.time()
            for k in list(live):
                d = procs[k]
                rc = d["p"].poll()
                if rc is not None:
                    d["rc"] = rc
                    live.discard(k)
                    continue
                try:
                    sz = os.path.getsize(d["out"])
                except OSError:
                    sz = -1
                if sz != d["size"]:
                    d["size"], d["t"] = sz, now
                elif now - d["t"] > case_timeout:
                    d["p"].kill()
                    d["p"].wait()
                    d["rc"] = "timeout"
                    live.discard(k)
        new_pending = {}
        for k, d in procs.items():
            d["err"].close()
            done, started = _read_out(d["out"], obs)
            rest = [i for i in d["idxs"] if i not in done]
            if rest:
                # the worker died or hung: the case it had started is the culprit
                bad = started if started in rest else rest[0]
                try:
                    err = open(d["err"].name, "rb").read().decode("utf8", "replace")[-400:]
                except Exception:
                    err = ""
                obs[bad] = {"crash": d["rc"], "stderr": err}
                rest = [i for i in rest if i != bad]
                if rest:
                    new_pending[k] = rest
        pending = new_pending
    return obs


# ----------------------------------------------------------------------------------------------
# Coq side
# ----------------------------------------------------------------------------------------------
class BuildError(Exception):
    def __init__(self, msg, log=""):
        super().__init__(msg)
        self.log = log


def _sh(cmd, timeout, cwd=None):
    p = subprocess.run(cmd, shell=True, cwd=cwd, capture_output=True, text=True, timeout=timeout)
    return p.returncode, p.stdout + p.stderr


def regenerate_anchors():
    """Re-extract the facts read directly from /repo's source (Generated/Anchors.v)."""
    from . import anchors

    anchors.write(REPO, os.path.join(COQ, "theories", "Generated", "Anchors.v"))
    # effect summaries of the public entry points (C20), translated from the source (fail-closed:
    # on anything it cannot classify it writes a file that does not compile)
    from . import anchors_effects

    anchors_effects.regenerate(REPO, COQ)
    # function bodies of the satisfaction measures and tie-breaking rules, translated to Gallina
    # (Generated/PyFuncs.v; fail-closed per function)
    from . import pytrans

    pytrans.regenerate(REPO, COQ)
    # the imperative wrappers (exhaustion.py, composition.py) translated by state passing (Generated/PyCtrl.v)
    from . import pytrans_ctrl

    pytrans_ctrl.regenerate(REPO, COQ)


def coq_build(targets: list[str] | None = None, timeout=3000):
    """(incremental) build of the Coq development under a lock; raises BuildError."""
    os.makedirs(os.path.join(VERIF, "gen"), exist_ok=True)
    with open(os.path.join(COQ, ".buildlock"), "w") as lk:
        fcntl.flock(lk, fcntl.LOCK_EX)
        try:
            regenerate_anchors()
        except Exception as e:   # fail-closed extractor: the source no longer has the anchored shape
            raise BuildError("anchors: the source no longer has the shape the model is anchored to: %r" % (e,),
                             "anchor extraction failed: %r" % (e,))
        if targets:
            rc, out = _sh("make Makefile.coq >/dev/null && timeout %d make -f Makefile.coq -k -j%d %s" % (
                timeout, NWORK, " ".join(targets)), timeout + 60, cwd=COQ)
        else:
            rc, out = _sh("timeout %d make -k -j%d" % (timeout, NWORK), timeout + 60, cwd=COQ)
        if rc != 0:
            raise BuildError("coq build failed", out[-6000:])
    return out


def _enclosing_theorem(vfile: str, line: int) -> str | None:
    try:
        lines = open(vfile).read().split("\n")
    except Exception:
        return None
    for k in range(min(line, len(lines)) - 1, -1, -1):
        m = re.match(r"\s*(?:Theorem|Lemma|Corollary|Example|Fact|Remark|Definition|Fixpoint|Instance)\s+([A-Za-z0-9_']+)", lines[k])
        if m:
            return m.group(1)
    return None


def locate_error(log: str):
    m = re.search(r'File "([^"]+)", line (\d+)', log)
    if not m:
        return None, None
    f = m.group(1)
    if not os.path.isabs(f):
        f = os.path.normpath(os.path.join(COQ, f))
    return f, _enclosing_theorem(f, int(m.group(2)))


FORBIDDEN = re.compile(
    r"\b(Admitted|admit|Axiom|Axioms|Parameter|Parameters|Conjecture|Admit Obligations|Unset Guard Checking|"
    r"bypass_check|Unset Positivity Checking|Unset Universe Checking|Hypothesis|Variable|Variables|Hypotheses)\b")


def scan_forbidden() -> list[str]:
    """Admitted/Axiom/... anywhere in the development; Variable/Hypothesis only outside Sections."""
    bad = []
    for root, _, files in os.walk(os.path.join(COQ, "theories")):
        for fn in files:
            if not fn.endswith(".v"):
                continue
            path = os.path.join(root, fn)
            depth = 0
            txt = open(path).read()
            txt = re.sub(r"\(\*.*?\*\)", lambda m: "\n" * m.group(0).count("\n"), txt, flags=re.S)
            for ln, line in enumerate(txt.split("\n"), 1):
                if re.match(r"\s*Section\s+\w+", line):
                    depth += 1
                if re.match(r"\s*End\s+\w+\s*\.", line) and depth > 0:
                    depth -= 1
                for m in FORBIDDEN.finditer(line):
                    w = m.group(1)
                    if w in ("Hypothesis", "Variable", "Variables", "Hypotheses") and depth > 0:
                        continue
                    bad.append(f"{os.path.relpath(path, COQ)}:{ln}: {w}")
    return bad


def check_props(props_rel: str):
    """Recompile the property file from scratch; returns (theorems, assumptions dict, log)."""
    vfile = os.path.join(COQ, "theories", props_rel)
    vo = vfile[:-2] + ".vo"
    with open(os.path.join(COQ, ".buildlock"), "w") as lk:
        fcntl.flock(lk, fcntl.LOCK_EX)
        for ext in (".vo", ".vok", ".vos", ".glob"):
            try:
                os.remove(vfile[:-2] + ext)
            except FileNotFoundError:
                pass
        rc, out = _sh("timeout 1200 coqc -q -Q theories PB -w -notation-overridden,-deprecated-hint-without-locality,-deprecated-instance-without-locality,-deprecated-hint-rewrite-without-locality theories/%s" % props_rel, 1300, cwd=COQ)
    if rc != 0 or not os.path.exists(vo):
        raise BuildError("property file does not compile: " + props_rel, out[-6000:])
    src = open(vfile).read()
    src_nc = re.sub(r"\(\*.*?\*\)", "", src, flags=re.S)
    theorems = re.findall(r"^\s*Theorem\s+([A-Za-z0-9_']+)", src_nc, flags=re.M)
    printed = re.findall(r"^\s*Print Assumptions\s+([A-Za-z0-9_']+)\s*\.", src_nc, flags=re.M)
    missing = [t for t in theorems if t not in printed]
    if missing:
        raise BuildError("theorems without Print Assumptions: %s" % missing, out[-2000:])
    # parse the assumption reports in order
    blocks = re.split(r"(?=Closed under the global context|Axioms:)", out)
    reports = [b for b in blocks if b.startswith("Closed under") or b.startswith("Axioms:")]
    assumptions = {}
    for name, rep in zip(printed, reports):
        if rep.startswith("Closed under"):
            assumptions[name] = []
        else:
            axs = re.findall(r"^([A-Za-z0-9_.']+)\s*:", rep, flags=re.M)
            assumptions[name] = axs
    if len(reports) != len(printed):
        raise BuildError("could not match Print Assumptions output (%d reports, %d theorems)" % (
            len(reports), len(printed)), out[-3000:])
    return theorems, assumptions, out


def run_coq_cases(prop, cases, obs, tmpdir, tag="s") -> list[tuple[int, int]]:
    """Write case shards, evaluate prop.ORACLE.run in Coq, return failing (index, code)."""
    idx = [i for i in range(len(cases)) if obs[i] is not None and not (
        isinstance(obs[i], dict) and ("py_fail" in obs[i] or obs[i].get("discard")))]
    shard_size = getattr(prop, "SHARD", SHARD)
    shards = [idx[k:k + shard_size] for k in range(0, len(idx), shard_size)]
    files = []
    for k, sh in enumerate(shards):
        path = os.path.join(tmpdir, f"{tag}_{prop.ID}_{k}.v")
        with open(path, "w") as f:
            f.write("From PB Require Import %s.\nOpen Scope Q_scope.\n" % prop.ORACLE)
            f.write(getattr(prop, "COQ_PRELUDE", ""))
            f.write("Definition cases : list case := [\n")
            f.write(";\n".join(prop.coq_case(cases[i], obs[i]) for i in sh))
            f.write("\n].\nEval vm_compute in (run cases).\n")
        files.append((path, sh))
    fails: list[tuple[int, int]] = []
    procs = []
    maxp = NWORK
    queue = list(files)
    running = []

    def harvest(p, path, sh):
        out, err = p.communicate()
        if p.returncode != 0:
            raise BuildError("case file does not evaluate: " + path, (out + err)[-4000:])
        m = re.search(r"=\s*(\[.*?\])\s*:\s*list", out, flags=re.S)
        if not m:
            raise BuildError("cannot parse Coq output for " + path, out[-2000:])
        for a, b in re.findall(r"\(\s*(\d+)(?:%nat)?\s*,\s*(\d+)(?:%nat)?\s*\)", m.group(1)):
            fails.append((sh[int(a)], int(b)))

    while queue or running:
        while queue and len(running) < maxp:
            path, sh = queue.pop(0)
            p = subprocess.Popen(
                ["timeout", "1500", "coqc", "-q", "-Q", os.path.join(COQ, "theories"), "PB", path],
                stdout=subprocess.PIPE, stderr=subprocess.PIPE, text=True, cwd=tmpdir)
            running.append((p, path, sh))
        p, path, sh = running.pop(0)
        harvest(p, path, sh)
    fails.sort()
    return fails


# ----------------------------------------------------------------------------------------------
# known findings
# ----------------------------------------------------------------------------------------------
def load_known():
    path = os.path.join(VERIF, "known_findings.json")
    if not os.path.exists(path):
        return {"findings": [], "fixed": []}
    return json.load(open(path))


def match_known(prop_id, case, obs, code):
    from . import signatures

    for f in load_known().get("findings", []):
        if f.get("property") != prop_id:
            continue
        pred = getattr(signatures, f["signature"], None)
        if pred is not None and pred(case, obs, code):
            return f
    return None


# ----------------------------------------------------------------------------------------------
# the check
# ----------------------------------------------------------------------------------------------
def case_rng(seed, prop_id, i):
    h = hashlib.sha256(f"{seed}:{prop_id}:{i}".encode()).digest()
    return random.Random(int.from_bytes(h[:8], "big"))


def write_replay(prop_id, payload) -> str:
    os.makedirs(os.path.join(VERIF, "replays"), exist_ok=True)
    blob = json.dumps(payload, sort_keys=True, indent=1, default=str)
    h = hashlib.sha256(blob.encode()).hexdigest()[:12]
    path = os.path.join(VERIF, "replays", f"{prop_id}-{h}.json")
    with open(path, "w") as f:
        f.write(blob)
    return path


RAISED = 99   # python-side code: the implementation raised / the worker died outside the solver


def default_post(cases, obs):
    """An exception or worker death is a failure of 'the call returns normally' unless the case
    reaches the CBC solver (then it is discarded as a solver fault, as the properties prescribe)."""
    for i, o in enumerate(obs):
        if isinstance(o, dict) and ("crash" in o or "exc" in o):
            if cases[i].get("solver") and ("crash" in o or o.get("solver_fault")):
                o["discard"] = True
            else:
                o["py_fail"] = RAISED
        elif isinstance(o, dict) and o.get("solver_fault"):
            o["discard"] = True
    return cases, obs


def evaluate(prop, cases, tmpdir, tag):
    obs = run_impl(prop.ID, cases, tmpdir, tag=tag)
    post = getattr(prop, "post", default_post)
    cases, obs = post(cases, obs)
    fails = [(i, o["py_fail"]) for i, o in enumerate(obs) if isinstance(o, dict) and "py_fail" in o]
    fails += run_coq_cases(prop, cases, obs, tmpdir, tag=tag)
    fails.sort()
    return cases, obs, fails


def _translator_trust(prop):
    """trusted-base lines for the theorem files that connect regenerated definitions to the hand model"""
    pf = getattr(prop, "PROPS", "")
    pf = [pf] if isinstance(pf, str) else list(pf)
    out = ["translator harness/vharness/anchors.py -> Generated/Anchors.v (constants and tables re-read from /repo on this run)"]
    if any(x.endswith(("C10gen.v", "TieGen.v", "C15gen.v", "C18gen.v", "C12gen.v", "C14gen.v")) for x in pf):
        out.append("translator harness/vharness/pytrans.py -> Generated/PyFuncs.v (pure Python fragment -> Gallina, fail-closed per "
                   "function; vocabulary Model/PyPrims.v; semantic assumptions in DESIGN.md, C10gen / TieGen addendum)")
    if any(x.endswith(("C09gen.v", "C19gen.v", "C03gen.v", "C05gen.v")) for x in pf):
        out.append("translator harness/vharness/pytrans_ctrl.py -> Generated/PyCtrl.v (imperative wrappers by state passing, fuelled "
                   "loops; vocabulary Model/PyCtrlPrims.v; DESIGN.md, C09gen / C19gen addendum)")
    if any(x.endswith("C20gen.v") for x in pf):
        out.append("translator harness/vharness/anchors_effects.py -> Generated/EffectSummaries.v (effect summaries; DESIGN.md, C20 addendum)")
    return out


def shrink_failure(prop, case, code, tmpdir, max_rounds=12, width=48):
    """Greedy shrinking: keep any smaller case on which the same code still fires."""
    if not hasattr(prop, "shrink"):
        return case, None
    cur = case
    cur_obs = None
    # shrinking is a convenience: it never runs longer than VERIF_SHRINK_BUDGET seconds (a failure that is a hang
    # costs one watchdog period per candidate)
    deadline = time.time() + float(os.environ.get("VERIF_SHRINK_BUDGET", "240"))
    for rnd in range(max_rounds):
        if time.time() > deadline:
            break
        cands = []
        for c in prop.shrink(cur):
            cands.append(c)
            if len(cands) >= width:
                break
        if not cands:
            break
        try:
            cands2, obs, fails = evaluate(prop, cands, tmpdir, tag=f"shr{rnd}")
        except BuildError:
            break
        hit = None
        for i, cd in fails:
            if cd == code:
                hit = i
                break
        if hit is None:
            break
        cur, cur_obs = cands2[hit], obs[hit]
    return cur, cur_obs


def main(argv=None):
    argv = list(sys.argv[1:] if argv is None else argv)
    if len(argv) < 1:
        print("usage: check <ID> [quick|thorough] [--replay file]")
        return 2
    if not os.path.isfile(os.path.join(REPO, "pabutools", "__init__.py")):
        # never fall back silently on another copy of the library (an installed one would be imported instead)
        print("error: no pabutools package under %s (VERIF_REPO); nothing was checked" % REPO)
        return 2
    prop_id = argv[0].upper()
    tier = "quick"
    replay = None
    k = 1
    while k < len(argv):
        if argv[k] in ("quick", "thorough"):
            tier = argv[k]
        elif argv[k] == "--replay":
            replay = argv[k + 1]
            k += 1
        k += 1
    tier = os.environ.get("VERIF_TIER", tier) if len(argv) < 2 else tier
    seed = int(os.environ.get("VERIF_SEED", "1"))
    prop = importlib.import_module("vharness.props." + prop_id.lower())
    t0 = time.time()
    tmpdir = os.path.join(VERIF, "gen", f"{prop_id}_{os.getpid()}")
    shutil.rmtree(tmpdir, ignore_errors=True)
    os.makedirs(tmpdir)
    try:
        return _main(prop, tier, seed, replay, tmpdir, t0)
    finally:
        if not os.environ.get("VERIF_KEEP"):
            shutil.rmtree(tmpdir, ignore_errors=True)


def _main(prop, tier, seed, replay, tmpdir, t0):
    prop_id = prop.ID
    violations = []   # (kind, text, replay_path, suffix)
    known_lines = []
    proof_state = {"theorems": [], "assumptions": {}, "error": None, "broken": None}

    # ---- stage P: the theorems ---------------------------------------------------------------
    try:
        bad = scan_forbidden()
        if bad:
            raise BuildError("forbidden declarations: " + "; ".join(bad[:5]))
        # build what this property needs (its theorem files, its oracle and their dependencies): an
        # unrelated file that does not compile must not disturb this check
        pfl = list(prop.PROPS) if isinstance(prop.PROPS, (list, tuple)) else [prop.PROPS]
        coq_build(["theories/" + pf + "o" for pf in pfl] + ["theories/" + prop.ORACLE.replace(".", "/") + ".vo"])
        ths, ass = [], {}
        for pf in (prop.PROPS if isinstance(prop.PROPS, (list, tuple)) else [prop.PROPS]):
            t1, a1, _ = check_props(pf)
            ths += t1
            ass.update(a1)
        proof_state["theorems"] = ths
        proof_state["assumptions"] = ass
        notallowed = {t: [a for a in axs if a not in ALLOWED_AXIOMS] for t, axs in ass.items()}
        notallowed = {t: a for t, a in notallowed.items() if a}
        if notallowed:
            raise BuildError("theorems depend on axioms outside the stated base: %s" % notallowed)
        if tier == "thorough" and not os.environ.get("VERIF_NO_COQCHK"):
            # independent re-check of the compiled property file and everything it depends on
            pfs = prop.PROPS if isinstance(prop.PROPS, (list, tuple)) else [prop.PROPS]
            mod = " ".join("PB." + pf[:-2].replace("/", ".") for pf in pfs)
            rc, out = _sh("timeout 2400 coqchk -o -silent -Q theories PB %s" % mod, 2500, cwd=COQ)
            m = re.search(r"\* Axioms:(.*?)\n\s*\n\* Constants/Inductives relying on type-in-type", out, flags=re.S)
            axs = m.group(1).strip() if m else "?"
            proof_state["coqchk"] = {"rc": rc, "axioms": axs}
            if rc != 0 or axs != "<none>":
                raise BuildError("coqchk did not accept %s (rc=%s, axioms=%s)" % (mod, rc, axs[:300]), out[-2000:])
    except BuildError as e:
        f, th = locate_error(e.log or "")
        proof_state["error"] = str(e) + "\n" + (e.log or "")[-3000:]
        proof_state["broken"] = {"file": f, "theorem": th}

    # ---- stage K + C: corpus, then fresh cases -------------------------------------------------
    cases = []
    corpus_dir = os.path.join(VERIF, "corpus", prop_id)
    ncorpus = 0
    if replay:
        payload = json.load(open(replay))
        cases = [payload["case"]] if "case" in payload else []
    else:
        if os.path.isdir(corpus_dir):
            for fn in sorted(os.listdir(corpus_dir)):
                if fn.endswith(".json"):
                    cases.append(json.load(open(os.path.join(corpus_dir, fn)))["case"])
        ncorpus = len(cases)
        budget = prop.budget(tier)
        if proof_state["error"]:
            budget *= 3   # search harder for a concrete failing input
        for i in range(budget):
            c = prop.gen(case_rng(seed, prop_id, i), i, tier)
            if getattr(prop, "NAMING", False) and isinstance(c, dict) and "naming" not in c and i % 3 == 1 \
                    and len(c.get("costs", [])) <= 14:
                c["naming"] = 1     # project names with prefix relations and punctuation (pb.set_naming)
            cases.append(c)
    stage_c_error = None
    obs, fails = [], []
    model_broken = proof_state["error"] is not None and "case file" not in (proof_state["error"] or "")
    try:
        # if the Coq side is broken the oracle cannot run: fall back to the python-side oracle
        cases, obs, fails = evaluate(prop, cases, tmpdir, tag="c")
    except BuildError as e:
        stage_c_error = str(e) + "\n" + (e.log or "")[-3000:]
        if not obs:
            obs = run_impl(prop.ID, cases, tmpdir, tag="c2")
        fails = []
        pyo = getattr(prop, "py_oracle", None)
        if pyo is not None:
            for i, (c, o) in enumerate(zip(cases, obs)):
                if o is None:
                    continue
                code = pyo(c, o)
                if code:
                    fails.append((i, code))

    # ---- classify ----------------------------------------------------------------------------
    oracle_fails = [(i, c) for i, c in fails if prop.CODES.get(c, ("oracle", ""))[0] == "oracle"]
    model_fails = [(i, c) for i, c in fails if prop.CODES.get(c, ("oracle", ""))[0] == "model"]
    reported_sigs = set()
    for i, code in oracle_fails:  # every failure is classified: a crowd of known findings must not hide a new one
        kf = match_known(prop_id, cases[i], obs[i], code)
        if kf is not None:
            if kf["signature"] not in reported_sigs:
                reported_sigs.add(kf["signature"])
                known_lines.append(f"KNOWN-FINDING: property={prop_id} {kf['what']}")
            continue
        if len(violations) >= 1:
            continue
        sc, so = (cases[i], obs[i])
        if not replay and not os.environ.get("VERIF_NOSHRINK"):
            try:
                c2, o2 = shrink_failure(prop, cases[i], code, tmpdir)
                if o2 is not None:
                    # a shrunk case may itself be a known finding: then keep the original
                    if match_known(prop_id, c2, o2, code) is None:
                        sc, so = c2, o2
            except Exception:
                pass
        payload = {"property": prop_id, "kind": "property-fails-on-implementation",
                   "code": code, "what": prop.CODES.get(code, ("", "?"))[1],
                   "case": sc, "observed": so, "seed": seed,
                   "replay_cmd": f"./check {prop_id} --replay <this file>"}
        if hasattr(prop, "describe"):
            try:
                payload["details"] = prop.describe(sc, so, code)
            except Exception:
                pass
        violations.append(("oracle", prop.CODES.get(code, ("", "?"))[1], write_replay(prop_id, payload), ""))

    if not violations and (model_fails or proof_state["error"] or stage_c_error):
        # the property is no longer shown to hold; no concrete failing input was found
        i, code = model_fails[0] if model_fails else (None, None)
        sc, so = (cases[i], obs[i]) if i is not None else (None, None)
        if i is not None and not replay and not os.environ.get("VERIF_NOSHRINK"):
            try:
                c2, o2 = shrink_failure(prop, cases[i], code, tmpdir)
                if o2 is not None:
                    sc, so = c2, o2
            except Exception:
                pass
        payload = {"property": prop_id, "kind": "no-failing-input-found",
                   "broken_theorem": proof_state["broken"], "proof_error": proof_state["error"],
                   "case_file_error": stage_c_error,
                   "correspondence_obligation": None if code is None else {
                       "code": code, "what": prop.CODES.get(code, ("", "?"))[1]},
                   "case": sc, "observed": so, "seed": seed,
                   "cases_searched": len(cases)}
        what = "theorem/correspondence no longer checks"
        violations.append(("noinput", what, write_replay(prop_id, payload), " no-failing-input-found"))

    # ---- evidence -------------------------------------------------------------------------------
    keys = set()
    for c, o in zip(cases, obs):
        if o is None:
            continue
        try:
            kx = prop.nontrivial(c, o)
        except Exception:
            kx = None
        if kx is not None:
            keys.add(json.dumps(kx, sort_keys=True, default=str))
    discards = sum(1 for o in obs if isinstance(o, dict) and (o.get("solver_fault") or o.get("discard")))
    crashes = sum(1 for o in obs if isinstance(o, dict) and "crash" in o)
    nth = len(proof_state["theorems"])
    dist = {}
    if hasattr(prop, "stats"):
        try:
            dist = prop.stats(cases, obs)
        except Exception as e:  # pragma: no cover
            dist = {"stats_error": repr(e)}
    samples = []
    for c, o in list(zip(cases, obs))[ncorpus:ncorpus + 400:100]:
        samples.append({"case": c, "observed": o})
    samples = samples[:3]
    for t in proof_state["theorems"][:3]:
        samples.append({"obligation": t, "file": "coq/theories/" + str(prop.PROPS)})
    ev = {
        "property_id": prop_id,
        "tier": tier,
        "seed": seed,
        # a run in which the theorems did not check is not proof-level evidence
        "level": getattr(prop, "LEVEL", "proof") if (nth and not proof_state["error"]) else "other",
        "coverage": {
            "obligations": max(nth, 1) if not proof_state["error"] else max(nth, 1),
            "discharged": nth if not proof_state["error"] else 0,
            "checker_cmd": "make -C coq (coqc 8.16.1, full .vo build) + coqc theories/%s with Print Assumptions under every theorem; case files evaluated by vm_compute" % (prop.PROPS,),
            "trusted_base": [
                "Coq 8.16.1 kernel and its vm_compute bytecode VM (no native_compute)",
                "axioms reported by Print Assumptions: " + (
                    "none (every theorem closed under the global context)"
                    if all(not a for a in proof_state["assumptions"].values()) else json.dumps(proof_state["assumptions"])),
                "harness: generators, Python->Gallina serialiser, worker isolation (vharness/)",
            ] + list(getattr(prop, "TRUSTED", [])) + _translator_trust(prop),
            "theorems": proof_state["theorems"],
            "assumptions_by_theorem": proof_state["assumptions"],
            "coqchk": proof_state.get("coqchk", "not run in this tier (thorough only)"),
            "evaluations": len([o for o in obs if o is not None]),
            "distinct_nontrivial": len(keys),
            "rule": getattr(prop, "RULE", ""),
            "samples": samples,
            "corpus_cases": ncorpus,
            "solver_fault_discards": discards,
            "worker_crashes": crashes,
            "input_distribution": dist,
            "correspondence_failures": len(model_fails),
            "oracle_failures": len(oracle_fails),
            "known_findings_matched": sorted(reported_sigs),
            "explanation": (getattr(prop, "EXPLANATION", "") or "see rule") + (
                "" if not proof_state["error"] else " -- PROOF STAGE FAILED ON THIS RUN: " + proof_state["error"][:300]),
            "exhaustive": bool(getattr(prop, "EXHAUSTIVE", {}).get(tier, False)),
        },
        "assumptions": list(getattr(prop, "ASSUMPTIONS", [])),
        "wall_s": round(time.time() - t0, 2),
        "violations": len(violations),
    }
    if not replay:
        # runs against a scratch tree (VERIF_REPO, used for seeded changes and rewrites) keep their evidence apart:
        # evidence/<id>.json always describes a run against /repo itself
        evdir = os.path.join(VERIF, "evidence") if os.path.realpath(REPO) == "/repo" \
            else os.path.join(VERIF, "gen", "evidence-scratch")
        os.makedirs(evdir, exist_ok=True)
        with open(os.path.join(evdir, prop_id + ".json"), "w") as f:
            json.dump(ev, f, indent=1, default=str)

    nobs = len([o for o in obs if o is not None])
    if nobs and discards / nobs > getattr(prop, "MAX_DISCARD", 0.03) and not violations:
        payload = {"property": prop_id, "kind": "inconclusive-machinery",
                   "what": "solver-fault discard rate %.3f above limit" % (discards / nobs)}
        violations.append(("noinput", "discard rate too high", write_replay(prop_id, payload), " no-failing-input-found"))

    for line in known_lines:
        print(line)
    print(f"[{prop_id}] tier={tier} seed={seed} theorems={nth} proof_ok={proof_state['error'] is None} "
          f"cases={nobs} nontrivial={len(keys)} oracle_fail={len(oracle_fails)} model_mismatch={len(model_fails)} "
          f"discards={discards} wall={time.time() - t0:.1f}s")
    if proof_state["error"]:
        print(f"[{prop_id}] proof stage error: " + proof_state["error"][:1500])
    if stage_c_error:
        print(f"[{prop_id}] case-file stage error: " + stage_c_error[:1500])
    for kind, what, path, suffix in violations:
        print(f"[{prop_id}] {what}")
        print(f"VIOLATION property={prop_id} replay={path}{suffix}")
    return 1 if violations else 0
