"""Worker: runs prop.impl(case) for the cases of an input file, one JSON line per result,
flushed per case so that a hard crash (CBC abort/segfault) only loses the case in flight."""
import importlib
import json
import os
import sys
import traceback


def main():
    prop_id, inp, out = sys.argv[1:4]
    prop = importlib.import_module("vharness.props." + prop_id.lower())
    # the library under test must be the tree the check was pointed at, never an installed copy
    want = os.path.realpath(os.environ.get("VERIF_REPO", "/repo"))
    import pabutools
    got = os.path.realpath(os.path.dirname(os.path.dirname(pabutools.__file__)))
    if got != want:
        raise SystemExit("worker: pabutools imported from %s, expected %s" % (got, want))
    with open(out, "w") as fo:
        for line in open(inp):
            rec = json.loads(line)
            fo.write(json.dumps({"start": rec["i"]}) + "\n")
            fo.flush()
            os.fsync(fo.fileno())
            try:
                if isinstance(rec["case"], dict):
                    from vharness import pb
                    pb.set_naming(rec["case"].get("naming", 0))
                obs = prop.impl(rec["case"])
            except BaseException as e:  # noqa: an exception of the implementation is an observation
                if isinstance(e, (KeyboardInterrupt, SystemExit)):
                    raise
                obs = {"exc": type(e).__name__ + ": " + str(e)[:300],
                       "tb": traceback.format_exc()[-1200:]}
            fo.write(json.dumps({"i": rec["i"], "obs": obs}, default=str) + "\n")
            fo.flush()


if __name__ == "__main__":
    main()
