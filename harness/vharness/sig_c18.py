"""Signature predicates of recorded findings of property C18 (wired into signatures.py by the coordinator).

pred(case, observed, code) -> bool; decidable on the (shrunk) case alone."""

# oracle failure codes of props/c18.py
VOTES_COUNT = 116   # votes_count_by_project differs from "number of voters whose ballot contains the project"
VOTER_FLOW = 117    # voter_flow_matrix differs from "number of voters who voted for both"


def votes_count_or_flow_on_multiprofile(case, obs, code) -> bool:
    """votes_count_by_project / voter_flow_matrix add 1 per ballot object, so on a MultiProfile a ballot cast
    by several voters is counted once (pinned by tests/test_analysis.py::test_profile_properties).
    Signature: the failing function is one of the two, it was called on a MultiProfile, and some non-empty
    ballot occurs at least twice among the voters (otherwise multiplicities cannot matter)."""
    if code not in (VOTES_COUNT, VOTER_FLOW):
        return False
    if not isinstance(case, dict) or not case.get("multi"):
        return False
    if not any(k in case.get("ask", []) for k in ("votes_count", "voter_flow")):
        return False
    seen = set()
    for b in case.get("ballots", []):
        if not b:
            continue
        key = repr(sorted(b.items())) if isinstance(b, dict) else repr(list(b) if case.get("btype") == "ordinal" else sorted(b))
        if key in seen:
            return True
        seen.add(key)
    return False
