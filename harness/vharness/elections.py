"""Shared generator of small, tie-rich elections and catalogue of rule configurations.

An election case (JSON-able):
  {"costs": ["n/d", …], "budget": "n/d", "order": [perm of project ranks = insertion order],
   "btype": "approval"|"cardinal"|"cumulative"|"ordinal",
   "ballots": approval/ordinal: list of lists of ranks; cardinal/cumulative: list of {rank: "n/d"},
   "multi": bool}
"""
from __future__ import annotations

from fractions import Fraction

from . import pb

COST_POOLS = [
    [0, 1, 1, 2, 2, 3],
    [1, 2, 3, 4, 5],
    ["1/2", "1/3", "3/4", "2/3", 1, "3/2"],
    [2, 2, 2, 2],
    [1, 1, 1, 2],
    [0, 0, 1, 2],
    ["5/2", "7/3", 5, 3, "1/10"],
    [3, 4, 5, 6, 7, 11],
]

# satisfaction measures per ballot type: name -> (additive?, reaches the MIP solver?)
SATS = {
    "approval": {
        "Cost_Sat": (True, False), "Cardinality_Sat": (True, False),
        "Relative_Cardinality_Sat": (True, False), "Relative_Cost_Sat": (True, True),
        "Relative_Cost_Approx_Normaliser_Sat": (True, False), "Effort_Sat": (True, False),
        "Additive_Cost_Sqrt_Sat": (True, False), "Additive_Cost_Log_Sat": (True, False),
        "CC_Sat": (False, False), "Cost_Sqrt_Sat": (False, False), "Cost_Log_Sat": (False, False),
    },
    "cardinal": {
        "Cost_Sat": (True, False), "Cardinality_Sat": (True, False),
        "Relative_Cardinality_Sat": (True, False), "Relative_Cost_Sat": (True, True),
        "Relative_Cost_Approx_Normaliser_Sat": (True, False),
        "Additive_Cardinal_Sat": (True, False), "Additive_Cardinal_Relative_Sat": (True, True),
        "CC_Sat": (False, False), "Effort_Sat": (True, False),
    },
    "ordinal": {
        "Cost_Sat": (True, False), "Cardinality_Sat": (True, False),
        "Relative_Cardinality_Sat": (True, False), "Relative_Cost_Sat": (True, True),
        "Relative_Cost_Approx_Normaliser_Sat": (True, False), "Additive_Borda_Sat": (True, False),
        "Effort_Sat": (True, False),
    },
}
SATS["cumulative"] = dict(SATS["cardinal"])

TIE_BREAKS = ["lexico", "app_score", "min_cost", "max_cost", "perm"]


def sat_class(name):
    import pabutools.election as E

    return getattr(E, name)


def tie_breaking(name, perm=None, projs=None):
    import pabutools.tiebreaking as T

    if name == "lexico":
        return T.lexico_tie_breaking
    if name == "app_score":
        return T.app_score_tie_breaking
    if name == "min_cost":
        return T.min_cost_tie_breaking
    if name == "max_cost":
        return T.max_cost_tie_breaking
    if name == "perm":
        pos = {pb.pname(r): i for i, r in enumerate(perm)}
        return T.TieBreakingRule(lambda inst, prof, p: pos[p.name])
    raise ValueError(name)


def gen_costs_budget(rng, n, allow_zero=True, positive_budget=True):
    pool = list(rng.choice(COST_POOLS))
    if not allow_zero:
        pool = [c for c in pool if pb.F(c) != 0] or [1]
    costs = [pb.F(rng.choice(pool)) for _ in range(n)]
    tot = sum(costs, Fraction(0))
    mode = rng.randrange(8)
    if n == 0 or mode == 0:
        b = Fraction(rng.choice([1, 2, 3, 5]))
    elif mode == 1:
        b = tot
    elif mode == 2:
        b = tot + 1
    elif mode == 3:
        b = min(costs)
    elif mode == 4:
        b = sum(rng.sample(costs, rng.randrange(1, n + 1)), Fraction(0))
    elif mode == 5:
        b = tot * Fraction(rng.randrange(1, 8), 8)
    elif mode == 6:
        b = max(costs) - Fraction(1, 2)      # one project dearer than the budget
    else:
        b = Fraction(rng.randrange(1, 2 * max(1, int(tot)) + 1), 2)
    if positive_budget and b <= 0:
        b = Fraction(rng.choice([1, 2, "1/2"]) if False else rng.choice([1, 2]))
    return [pb.qs(c) for c in costs], pb.qs(b)


def gen_ballots(rng, btype, n, nv):
    ballots = []
    style = rng.randrange(5)
    base = None
    for v in range(nv):
        if base is not None and rng.random() < (0.5 if style == 0 else 0.2):
            ballots.append(base)           # duplicated ballots -> multiplicities >= 2
            continue
        if btype in ("approval",):
            if style == 1 and n:            # nested chains
                k = rng.randrange(0, n + 1)
                b = list(range(k))
            elif style == 2 and n:          # party lists
                half = n // 2
                b = list(range(half)) if rng.random() < 0.5 else list(range(half, n))
            elif style == 3:
                b = [] if rng.random() < 0.4 else list(range(n))   # empty / full
            else:
                b = sorted(rng.sample(range(n), rng.randrange(0, n + 1))) if n else []
        elif btype == "ordinal":
            k = rng.randrange(0, n + 1) if n else 0
            b = rng.sample(range(n), k) if n else []
        else:                               # cardinal / cumulative
            k = rng.randrange(0, n + 1) if n else 0
            ps = sorted(rng.sample(range(n), k)) if n else []
            pool = [0, 1, 1, 2, 3, "1/2", "3/2"] if btype == "cardinal" else [0, 1, 2, 3, "1/2"]
            b = {str(p): pb.qs(rng.choice(pool)) for p in ps}
        ballots.append(b)
        base = b
    return ballots


def gen_election(rng, max_proj=6, max_voters=5, btypes=("approval", "cardinal", "cumulative", "ordinal"),
                 min_proj=0, allow_zero=True):
    n = rng.randrange(min_proj, max_proj + 1)
    nv = rng.randrange(1, max_voters + 1)
    costs, budget = gen_costs_budget(rng, n, allow_zero=allow_zero)
    btype = rng.choice(list(btypes))
    order = list(range(n))
    rng.shuffle(order)
    return {"costs": costs, "budget": budget, "order": order, "btype": btype,
            "ballots": gen_ballots(rng, btype, n, nv), "multi": rng.random() < 0.4}


def build(case):
    """-> (instance, projects by rank, profile)"""
    inst, projs = pb.make_instance(case["costs"], case["budget"], case.get("order"))
    prof = pb.make_profile(case["btype"], inst, projs, case["ballots"], case.get("multi", False))
    return inst, projs, prof


def feasible_subset(rng, costs, budget, n_try=4):
    """a random feasible subset of project ranks (possibly empty)"""
    n = len(costs)
    cs = [pb.F(c) for c in costs]
    B = pb.F(budget)
    best = []
    for _ in range(n_try):
        perm = list(range(n))
        rng.shuffle(perm)
        sel, tot = [], Fraction(0)
        for p in perm[: rng.randrange(0, n + 1)]:
            if tot + cs[p] <= B:
                sel.append(p)
                tot += cs[p]
        if len(sel) > len(best):
            best = sel
    return sorted(best) if rng.random() < 0.6 else []
