"""Signature predicates of recorded findings of property C03 (collected by signatures.py).

pred(case, observed, code) -> bool; decidable on the (shrunk) case and its observation alone."""

REFUSE_WRONG = 7    # props/c03.py: refuse_tie_breaking raised without a tie / returned although a round has a tie


def c03_fast_path_refuse_consulted_up_front(case, obs, code) -> bool:
    """greedy_utilitarian_scheme_additive asks tie_breaking.order() for ALL projects outside the initial allocation
    before the selection starts, so with refuse_tie_breaking it raises whenever such a project exists, also when no
    round of the greedy definition has a tie.
    Signature: code 7, the call uses refuse_tie_breaking and goes through the additive fast path (resolute and
    effective additivity flag true), the implementation RAISED, some project lies outside the initial allocation,
    and the definition (replayed on the observed satisfaction table) has no round with two tied best candidates.
    Anything else under refuse (a missing raise on a real tie, a wrong outcome, the general scheme) is not covered."""
    if code != REFUSE_WRONG or not isinstance(case, dict) or not isinstance(obs, dict):
        return False
    if case.get("tb") != "refuse" or not case.get("resolute"):
        return False
    from .props import c03

    try:
        if not c03.eff_additive(case):
            return False
        if not obs.get("raised"):
            return False
        n = len(case["costs"])
        if all(p in case["init"] for p in range(n)):
            return False
        must_raise, _ = c03._refuse_view(case, obs)
    except Exception:
        return False
    return not must_raise
