"""Fail-closed translator of the IMPERATIVE wrappers of pabutools into Gallina by STATE PASSING (`ast` only).

Re-reads, on every run, pabutools/rules/exhaustion.py (completion_by_rule_combination,
exhaustion_by_budget_increase) and pabutools/rules/composition.py (popularity_comparison,
social_welfare_comparison) and writes coq/theories/Generated/PyCtrl.v: one `Definition gen_<name>[_res|_irr]` per
translated function (the boolean parameter `resoluteness` is specialised to its two values), over the vocabulary of
the hand-written prelude coq/theories/Model/PyCtrlPrims.v, plus an aliasing table `gen_alias_<name>` per function.
Proofs/PyCtrlP.v proves every generated definition equal to the hand model the C09 / C19 theorems are about;
Props/C09gen.v and Props/C19gen.v re-export the statements.

Fail closed PER FUNCTION: a function whose source leaves the fragment is written as
`Definition gen_<name> : py_untranslated := Untranslated "<reason>"`.

The fragment, the state-passing scheme, the semantic assumptions: DESIGN.md, section "C09gen / C19gen"
(text in tools/pyctrl_design_note.md).
"""
from __future__ import annotations

import ast
import copy as _copy
import os

try:                                   # the exception class and the literal helpers of the pure-fragment translator
    from .pytrans import Unsupported, coq_string, qlit
except Exception:                      # pragma: no cover -- the module also works on its own
    class Unsupported(Exception):
        pass

    def qlit(n):
        return "%d" % n if n >= 0 else "(- (%d))" % (-n)

    def coq_string(s):
        if '"' in s or "\n" in s or not s.isascii():
            raise Unsupported("string constant outside the fragment")
        return '"%s"%%string' % s


def _is_doc(s):
    return isinstance(s, ast.Expr) and isinstance(s.value, ast.Constant)


def _comment_safe(s):
    return s.replace('"', "'").replace("(*", "( *").replace("*)", "* )")


def _strip_docstrings(node):
    node = _copy.deepcopy(node)
    for n in ast.walk(node):
        if isinstance(n, (ast.FunctionDef, ast.ClassDef)) and n.body and _is_doc(n.body[0]) and len(n.body) > 1:
            n.body = n.body[1:]
    return node

# ------------------------------------------------------------------------------------------------------
# types
# ------------------------------------------------------------------------------------------------------
Q, NAT, B, STR, NONE, PROJ = "Q", "Nat", "B", "Str", "None", "Proj"
INST, PROFILE, SATCLASS, SAT, KW = "Inst", "Profile", "SatClass", "Sat", "Kw"
QX, NEGQX, GROUPSAT, TIEBREAK = "Qx", "NegQx", "GroupSat", "TieBreak"
APROFILE, ABALLOT = "AProfile", "ABallot"     # approval profile as the rule models see it: list aballot


def ObjT(cls, fields):
    """an instance of a small local class: the tuple of its fields"""
    return ("Obj", cls, tuple(fields))


def is_obj(t):
    t = res(t)
    return isinstance(t, tuple) and t[0] == "Obj"     # extended rationals (inf), their negation


class TV:
    """type variable (element type of an empty list until something is put into it)"""

    def __init__(self):
        self.ref = None


def List(t):
    return ("List", t)


def Opt(t):
    return ("Opt", t)


def Tup(*ts):
    return ("Tuple", tuple(ts))


def Rule(t):
    return ("Rule", t)


ALLOC = List(PROJ)
SATPROFILE = List(SAT)


def res(t):
    while isinstance(t, TV) and t.ref is not None:
        t = t.ref
    return t


def is_list(t):
    t = res(t)
    return isinstance(t, tuple) and t[0] == "List"


def is_opt(t):
    t = res(t)
    return isinstance(t, tuple) and t[0] == "Opt"


def is_tuple(t):
    t = res(t)
    return isinstance(t, tuple) and t[0] == "Tuple"


def is_rule(t):
    t = res(t)
    return isinstance(t, tuple) and t[0] == "Rule"


def is_object(t):
    """types whose values are mutable Python objects (identity matters)"""
    t = res(t)
    if t in (INST, KW):
        return True
    if is_list(t) or is_obj(t):
        return True
    if is_opt(t):
        return is_object(t[1])
    return False


def same(a, b):
    """structural equality with unification of type variables"""
    a, b = res(a), res(b)
    if a is b:
        return True
    if isinstance(a, TV):
        a.ref = b
        return True
    if isinstance(b, TV):
        b.ref = a
        return True
    if isinstance(a, str) or isinstance(b, str):
        return a == b
    if a[0] != b[0]:
        return False
    if a[0] == "Tuple":
        return len(a[1]) == len(b[1]) and all(same(x, y) for x, y in zip(a[1], b[1]))
    if a[0] == "Obj":
        return a[1] == b[1] and len(a[2]) == len(b[2]) and all(same(x, y) for x, y in zip(a[2], b[2]))
    return same(a[1], b[1])


def join(a, b):
    """least common type of two branches; None when there is none"""
    a, b = res(a), res(b)
    if res(a) == NONE and res(b) == NONE:
        return NONE
    if a == NONE:
        return b if is_opt(b) else Opt(b)
    if b == NONE:
        return a if is_opt(a) else Opt(a)
    if isinstance(a, str) and isinstance(b, str) and QX in (a, b) and a in (Q, QX, NAT, B) and b in (Q, QX, NAT, B):
        return QX
    if is_opt(a) or is_opt(b):
        ia = a[1] if is_opt(a) else a
        ib = b[1] if is_opt(b) else b
        i = join(ia, ib)
        return None if i is None else Opt(i)
    return a if same(a, b) else None


def gty(t):
    t = res(t)
    if isinstance(t, TV):
        return "_"
    if t == ALLOC or (is_list(t) and res(t[1]) == PROJ):
        return "py_alloc"
    if isinstance(t, str):
        g = {Q: "Q", NAT: "nat", B: "bool", STR: "string", PROJ: "proj", INST: "inst", PROFILE: "(py_cprofile SC)",
             SATCLASS: "SC", SAT: "((py_alloc -> Q) * nat)%type", KW: "(py_kwargs X)", NONE: "unit",
             QX: "Qx", GROUPSAT: "(proj -> Q)", TIEBREAK: "(proj -> Q)", APROFILE: "py_aprofile",
             ABALLOT: "aballot"}.get(t)
        if g is None:
            raise Unsupported("no Gallina type for %s" % t)
        return g
    if t[0] == "List":
        return "(list %s)" % gty(t[1])
    if t[0] == "Opt":
        return "(option %s)" % gty(t[1])
    if t[0] == "Tuple":
        return "(" + " * ".join(gty(x) for x in t[1]) + ")%type"
    if t[0] == "Rule":
        return "(py_rule X %s)" % gty(t[1])
    if t[0] == "Obj":
        return "(" + " * ".join(gty(x) for x in t[2]) + ")%type"
    raise Unsupported("no Gallina type for %r" % (t,))


# ------------------------------------------------------------------------------------------------------
# values, objects
# ------------------------------------------------------------------------------------------------------
class V:
    def __init__(self, term, ty, oid=None, const=None, has_const=False, extra=None):
        self.term, self.ty, self.oid = term, ty, oid
        self.const, self.has_const = const, has_const
        self.extra = extra or {}

    def but(self, **kw):
        v = V(self.term, self.ty, self.oid, self.const, self.has_const, dict(self.extra))
        for k, x in kw.items():
            setattr(v, k, x)
        return v


FRESH, RULERES, UNKNOWN = ("fresh",), ("rule",), ("unknown",)


def join_origin(a, b):
    if a == b:
        return a
    if a == FRESH:
        return b
    if b == FRESH:
        return a
    pa = a[1] if a[0] in ("param", "elem") else None
    pb = b[1] if b[0] in ("param", "elem") else None
    if pa is not None and pa == pb:
        return ("elem", pa)
    if pa is not None and b == RULERES:
        return a
    if pb is not None and a == RULERES:
        return b
    return UNKNOWN


class Obj:
    def __init__(self, origin, elem=FRESH):
        self.origin, self.elem = origin, elem
        self.sources = set()       # for merged objects (joins of branches, loop heads): the objects they stand for
        self.elem_src = set()      # for objects reached by iteration / subscript: the containers they come from
        self.mutated = False


# ------------------------------------------------------------------------------------------------------
# specialisation of a boolean parameter (resoluteness) to a constant
# ------------------------------------------------------------------------------------------------------
class _Spec(ast.NodeTransformer):
    def __init__(self, name, value):
        self.name, self.value = name, value

    def visit_Name(self, n):
        if n.id == self.name:
            if not isinstance(n.ctx, ast.Load):
                raise Unsupported("the parameter %s is assigned" % self.name)
            return ast.copy_location(ast.Constant(value=self.value), n)
        return n

    def visit_UnaryOp(self, n):
        self.generic_visit(n)
        if isinstance(n.op, ast.Not) and isinstance(n.operand, ast.Constant) and isinstance(n.operand.value, bool):
            return ast.copy_location(ast.Constant(value=not n.operand.value), n)
        return n

    def visit_BoolOp(self, n):
        self.generic_visit(n)
        isand = isinstance(n.op, ast.And)
        out = []
        for x in n.values:
            if isinstance(x, ast.Constant) and isinstance(x.value, bool):
                if x.value == isand:
                    continue                      # neutral element
                if not out:
                    return x                      # decides the whole expression before anything is evaluated
                out.append(x)
                break                             # later operands are never evaluated
            out.append(x)
        if not out:
            return ast.copy_location(ast.Constant(value=isand), n)
        if len(out) == 1:
            return out[0]
        n.values = out
        return n

    def visit_Compare(self, n):
        self.generic_visit(n)
        if len(n.ops) == 1 and isinstance(n.left, ast.Constant) and isinstance(n.comparators[0], ast.Constant) \
                and isinstance(n.left.value, bool) and isinstance(n.comparators[0].value, bool) \
                and isinstance(n.ops[0], (ast.Eq, ast.NotEq, ast.Is, ast.IsNot)):
            eq = n.left.value == n.comparators[0].value
            return ast.copy_location(ast.Constant(value=eq if isinstance(n.ops[0], (ast.Eq, ast.Is)) else not eq), n)
        return n

    def visit_IfExp(self, n):
        self.generic_visit(n)
        if isinstance(n.test, ast.Constant) and isinstance(n.test.value, bool):
            return n.body if n.test.value else n.orelse
        return n

    def _stmts(self, body):
        out = []
        for s in body:
            r = self.visit(s)
            if r is None:
                continue
            if isinstance(r, list):
                out.extend(r)
            else:
                out.append(r)
            if out and isinstance(out[-1], (ast.Return, ast.Raise, ast.Break, ast.Continue)):
                break                 # what follows is unreachable
        return out

    def visit_If(self, n):
        n.test = self.visit(n.test)
        n.body = self._stmts(n.body)
        n.orelse = self._stmts(n.orelse)
        if isinstance(n.test, ast.Constant) and isinstance(n.test.value, bool):
            return (n.body if n.test.value else n.orelse) or [ast.Pass()]
        if not n.body:
            n.body = [ast.Pass()]
        return n

    def visit_For(self, n):
        n.iter = self.visit(n.iter)
        n.body = self._stmts(n.body) or [ast.Pass()]
        n.orelse = self._stmts(n.orelse)
        return n

    def visit_While(self, n):
        n.test = self.visit(n.test)
        n.body = self._stmts(n.body) or [ast.Pass()]
        n.orelse = self._stmts(n.orelse)
        return n

    def visit_FunctionDef(self, n):
        n.body = self._stmts(n.body)
        return n


def specialise(node, name, value):
    node = _copy.deepcopy(node)
    node.args.args = [a for a in node.args.args]
    return _Spec(name, value).visit(node)


def _walk(nodes):
    stack = list(nodes)
    while stack:
        n = stack.pop()
        yield n
        for c in ast.iter_child_nodes(n):
            if isinstance(c, (ast.FunctionDef, ast.Lambda, ast.ClassDef)):
                continue
            stack.append(c)


def _has_exit(stmts, loop_level=True):
    """does the statement list contain return / raise (or break / continue of the ENCLOSING loop)?"""
    for s in stmts:
        if isinstance(s, (ast.Return, ast.Raise)):
            return True
        if loop_level and isinstance(s, (ast.Break, ast.Continue)):
            return True
        if isinstance(s, ast.If):
            if _has_exit(s.body, loop_level) or _has_exit(s.orelse, loop_level):
                return True
        if isinstance(s, (ast.For, ast.While)):
            if _has_exit(s.body, False) or _has_exit(s.orelse, False):
                return True
    return False


MUTATORS = ("append", "extend", "remove")


def _root_name(n):
    while isinstance(n, (ast.Attribute, ast.Subscript)):
        n = n.value
    return n.id if isinstance(n, ast.Name) else None


def _assigned(stmts, rec=None, procs=()):
    """names (re)bound or mutated in place by the statements, in order of first occurrence;
    rec = (name of a recursive local function, positions of its mutable arguments): a call changes those arguments"""
    out = []

    def add(x):
        if x is not None and x not in out:
            out.append(x)

    def targets(t):
        if isinstance(t, ast.Name):
            add(t.id)
        elif isinstance(t, (ast.Tuple, ast.List)):
            for e in t.elts:
                targets(e)
        elif isinstance(t, (ast.Attribute, ast.Subscript)):
            add(_root_name(t))

    def go(body):
        for s in body:
            if isinstance(s, ast.Assign):
                for t in s.targets:
                    targets(t)
            elif isinstance(s, (ast.AugAssign, ast.AnnAssign)):
                targets(s.target)
            elif isinstance(s, ast.Expr) and isinstance(s.value, ast.Call) and isinstance(s.value.func, ast.Attribute) \
                    and s.value.func.attr in MUTATORS:
                add(_root_name(s.value.func.value))
            elif isinstance(s, ast.If):
                go(s.body)
                go(s.orelse)
            elif isinstance(s, (ast.For, ast.While)):
                if isinstance(s, ast.For):
                    targets(s.target)
                    if isinstance(s.target, ast.Name) and isinstance(s.iter, ast.Name) and any(
                            isinstance(x, ast.Attribute) and isinstance(x.ctx, ast.Store) and isinstance(x.value, ast.Name)
                            and x.value.id == s.target.id for st in s.body for x in ast.walk(st)):
                        add(s.iter.id)
                go(s.body)
                go(s.orelse)
            elif isinstance(s, ast.Expr) and isinstance(s.value, ast.Call) and isinstance(s.value.func, ast.Attribute) \
                    and s.value.func.attr in ("sort", "clear"):
                add(_root_name(s.value.func.value))
            elif isinstance(s, ast.Expr) and isinstance(s.value, ast.Call) and isinstance(s.value.func, ast.Name) \
                    and s.value.func.id in procs:
                for a_ in s.value.args:          # a local procedure may change every object it is handed
                    if isinstance(a_, ast.Name):
                        add(a_.id)
            elif rec is not None and isinstance(s, ast.Expr) and isinstance(s.value, ast.Call) \
                    and isinstance(s.value.func, ast.Name) and s.value.func.id == rec[0]:
                for i in rec[1]:
                    if i < len(s.value.args) and isinstance(s.value.args[i], ast.Name):
                        add(s.value.args[i].id)
    go(stmts)
    return out


# ------------------------------------------------------------------------------------------------------
# the translator of one function
# ------------------------------------------------------------------------------------------------------
class Ctx:
    """how the code being translated continues: at the end of the block (fall), and when it leaves the function with an
    already built result term (leave), breaks out of / continues the innermost loop"""

    def __init__(self, fall, leave, brk=None, cont=None):
        self.fall, self.leave, self.brk, self.cont = fall, leave, brk, cont

    def with_fall(self, fall):
        return Ctx(fall, self.leave, self.brk, self.cont)


class _Retry(Exception):
    pass


class Translator:
    def __init__(self, fname, mode):
        self.fname, self.mode = fname, mode          # mode: True (resolute) / False (irresolute) / None
        self.objs = {}
        self.next_oid = 0
        self.names = {}            # python name -> number of Gallina binders made for it
        self.order = {}            # python name -> position of its first definition
        self.bound = {}            # python name -> set of oids it was bound to ('scalar' for non-objects)
        self.loaded = set()        # names that are read somewhere in the function
        self.hoists = []           # pending fallible sub-expressions: (binder, option-term, exception)
        self.nohoist = 0
        self.exits = 0             # number of function exits emitted so far (to detect non-simple branches)
        self.rtype = None
        self.uses_fuel = False
        self.params = []
        self.nils = []
        self.module_names = set()
        self.extras = {}
        self.classes = {}          # small local classes of the module: name -> ClassDef
        self.recfuns = set()
        self.rec_active = None
        self.rest_has_rec = False
        self.procs = set()

    # ---------------- bookkeeping ----------------
    def snapshot(self):
        return (_copy.deepcopy(self.objs), self.next_oid, dict(self.names), dict(self.order),
                {k: set(v) for k, v in self.bound.items()}, list(self.hoists), self.exits, len(self.nils))

    def restore(self, s):
        self.objs, self.next_oid, self.names, self.order, self.bound, self.hoists, self.exits = (
            _copy.deepcopy(s[0]), s[1], dict(s[2]), dict(s[3]), {k: set(v) for k, v in s[4].items()}, list(s[5]), s[6])
        del self.nils[s[7]:]

    def new_obj(self, origin, elem=FRESH, sources=()):
        self.next_oid += 1
        o = Obj(origin, elem)
        o.sources = set(sources)
        self.objs[self.next_oid] = o
        return self.next_oid

    def gname(self, name):
        if name == "_":
            return "_"
        k = self.names.get(name, 0)
        self.names[name] = k + 1
        if name not in self.order:
            self.order[name] = len(self.order)
        return "v_%s" % name if k == 0 else "v_%s_%d" % (name, k)

    def tmp(self, stem="t"):
        k = self.names.get("$" + stem, 0)
        self.names["$" + stem] = k + 1
        return "%s%d" % (stem, k)

    def note_binding(self, name, v):
        if name == "_":
            return
        if name not in self.order:
            self.order[name] = len(self.order)
        self.bound.setdefault(name, set()).add(v.oid if v.oid is not None else "scalar")

    def origin_of(self, oid, seen=None):
        seen = seen or set()
        if oid in seen:
            return FRESH
        seen.add(oid)
        o = self.objs[oid]
        r = o.origin
        for s in o.sources:
            r = join_origin(r, self.origin_of(s, seen))
        for c in o.elem_src:
            r = join_origin(r, self.elem_origin_of(c, set()))
        return r

    def elem_origin_of(self, oid, seen=None):
        seen = seen or set()
        if oid in seen:
            return FRESH
        seen.add(oid)
        o = self.objs[oid]
        r = o.elem
        for s in o.sources:
            r = join_origin(r, self.elem_origin_of(s, seen))
        for c in o.elem_src:
            r = join_origin(r, self.elem_origin_of(c, seen))
        for x in getattr(o, "elem_objs", ()):
            r = join_origin(r, self.origin_of(x, set()))
        return r

    def mark_mutated(self, oid):
        stack, seen = [oid], set()
        while stack:
            x = stack.pop()
            if x in seen:
                continue
            seen.add(x)
            self.objs[x].mutated = True
            stack.extend(self.objs[x].sources)

    def is_stored(self, oid, env, seen=None):
        seen = seen or set()
        if oid in seen:
            return False
        seen.add(oid)
        o = self.objs[oid]
        return oid in env.get("$stored", ()) or any(self.is_stored(x, env, seen) for x in o.sources)

    def escape_into(self, container_oid, v):
        """v is stored into the container: the container's elements may now be v's object"""
        if container_oid is None or v.oid is None:
            return
        c = self.objs[container_oid]
        c.elem_objs = getattr(c, "elem_objs", set()) | {v.oid}

    # ---------------- hoisting of fallible sub-expressions ----------------
    def hoist(self, opt_term, exc, stem="t"):
        if self.nohoist:
            raise Unsupported("an operation that can raise %s inside a comprehension, lambda or short-circuit operand" % exc)
        b = self.tmp(stem)
        self.hoists.append((b, opt_term, exc))
        return b

    def wrap(self, ctx, inner, start=0):
        """close the hoists made since `start` around the term `inner` (the first one outermost)"""
        hs, self.hoists = self.hoists[start:], self.hoists[:start]
        for b, t, exc in reversed(hs):
            self.exits += 1
            inner = "match %s with None => %s | Some %s => %s end" % (t, ctx.leave('(Raise %s)' % coq_string(exc)), b, inner)
        return inner

    # ---------------- coercions ----------------
    def unwrap(self, v, exc="TypeError"):
        """use of a possibly-None value where a value is needed: raises when it is None"""
        if is_opt(v.ty):
            b = self.hoist(v.term, exc, "u")
            return V(b, res(v.ty)[1], v.oid, extra=v.extra)
        if res(v.ty) == NONE:
            raise Unsupported("use of None where a value is needed (always raises %s)" % exc)
        return v

    def num(self, v):
        v = self.unwrap(v)
        t = res(v.ty)
        if t == Q:
            return v
        if t == NAT:
            return V("(Qnat %s)" % v.term, Q)
        if t == B:
            return V("(py_int_of_bool %s)" % v.term, Q)
        raise Unsupported("a number was expected, got %r" % (t,))

    def nat(self, v):
        v = self.unwrap(v)
        if res(v.ty) == NAT:
            return v
        if v.has_const and isinstance(v.const, int) and not isinstance(v.const, bool) and v.const >= 0:
            return V("%d%%nat" % v.const, NAT)
        raise Unsupported("an index / length was expected, got %r" % (res(v.ty),))

    def tobool(self, v):
        t = res(v.ty)
        if t == B:
            return v
        if t == NONE:
            return V("false", B, const=False, has_const=True)
        if is_opt(t):
            inner = res(t[1])
            if is_list(inner):
                return V("match %s with None => false | Some l => negb (py_is_empty l) end" % v.term, B)
            if inner in (Q, NAT, B):
                raise Unsupported("truth value of an optional number")
            return V("(negb (py_is_none %s))" % v.term, B)
        if t == Q:
            return V("(py_truth %s)" % v.term, B)
        if t == NAT:
            return V("(negb (py_nat_eq %s 0%%nat))" % v.term, B)
        if is_list(t):
            return V("(negb (py_is_empty %s))" % v.term, B)
        raise Unsupported("truth value of a %r" % (t,))

    def coerce(self, v, t):
        """v as a value of type t (Some-injection, None, number conversions)"""
        t = res(t)
        vt = res(v.ty)
        if is_opt(t):
            if vt == NONE:
                return V("None", t)
            if is_opt(vt):
                if same(vt, t):
                    return v
                raise Unsupported("type mismatch %r / %r" % (vt, t))
            inner = self.coerce(v, t[1])
            return V("(Some %s)" % inner.term, t, inner.oid, extra=inner.extra)
        if is_opt(vt) or vt == NONE:
            raise Unsupported("a possibly-None value where %r is needed" % (t,))
        if t == Q and vt in (NAT, B):
            return self.num(v)
        if t == QX and vt in (Q, NAT, B):
            return V("(Fin %s)" % self.num(v).term, QX)
        if same(vt, t):
            return v
        raise Unsupported("type mismatch: %r where %r is expected" % (vt, t))

    def to_list(self, v):
        v = self.unwrap(v)
        if is_list(v.ty):
            return v
        if res(v.ty) == APROFILE:
            return V(v.term, List(ABALLOT), v.oid, extra={"profile_term": v.term})
        if res(v.ty) == INST and v.extra.get("param"):
            # the order in which the instance (a set of projects) is iterated: a parameter of the generated function
            self.extras["v_enum"] = "(list proj)"
            return V("v_enum", ALLOC, self.new_obj(FRESH), extra={"subset_of": {"v_enum"}, "is_set": True})
        raise Unsupported("iteration over a %r" % (res(v.ty),))

    # ---------------- expressions ----------------
    def expr(self, n, env):
        m = getattr(self, "e_" + type(n).__name__, None)
        if m is None:
            raise Unsupported("expression %s outside the fragment" % type(n).__name__)
        return m(n, env)

    def e_Name(self, n, env):
        if n.id in env:
            return env[n.id]
        if n.id == "inf" and "inf" in self.module_names:        # from math import inf
            return V("PInf", QX)
        if n.id == "lexico_tie_breaking" and "lexico_tie_breaking" in self.module_names:
            return V("py_name", TIEBREAK)       # Props/TieGen.v: the key of lexico_tie_breaking is the name
        raise Unsupported("unknown name %s (or a name that is not defined on every path)" % n.id)

    def e_Constant(self, n, env):
        c = n.value
        if c is None:
            return V("tt", NONE, const=None, has_const=True)
        if isinstance(c, bool):
            return V("true" if c else "false", B, const=c, has_const=True)
        if isinstance(c, int):
            return V(qlit(c), Q, const=c, has_const=True)
        if isinstance(c, str):
            return V(coq_string(c), STR, const=c, has_const=True)
        raise Unsupported("constant %r outside the fragment (floats are not exact)" % (c,))

    def e_JoinedStr(self, n, env):
        return V('""%string', STR)

    def e_Attribute(self, n, env):
        o = self.unwrap(self.expr(n.value, env), "AttributeError")
        if res(o.ty) == INST and n.attr == "budget_limit":
            return V("(budget %s)" % o.term, Q)
        if is_obj(o.ty):
            return self.field(o, n.attr)
        if res(o.ty) == PROJ and n.attr == "cost":
            # the projects handed around are the instance's own objects
            return V("(py_cost %s %s)" % (self.the_instance(env).term, o.term), Q)
        raise Unsupported("attribute .%s of a %r" % (n.attr, res(o.ty)))

    def the_instance(self, env):
        c = [v for k, v in env.items() if not k.startswith("$") and res(v.ty) == INST and v.extra.get("param")]
        if len({v.term for v in c}) != 1:
            raise Unsupported("project.cost / total_cost needs the caller's (unmodified) instance")
        return c[0]

    def e_UnaryOp(self, n, env):
        if isinstance(n.op, ast.Not):
            b = self.boolexpr(n.operand, env)
            if b.has_const:
                return V("false" if b.const else "true", B, const=not b.const, has_const=True)
            return V("(negb %s)" % b.term, B)
        o = self.expr(n.operand, env)
        if isinstance(n.op, ast.USub) and res(o.ty) == QX:
            return V(o.term, NEGQX)            # only ever used as a sort key: compared in reverse
        if isinstance(n.op, ast.USub):
            x = self.num(o)
            return V("(- %s)" % x.term, Q, extra={"neg_of": x})
        if isinstance(n.op, ast.UAdd):
            return self.num(o)
        raise Unsupported("unary operator")

    def e_BinOp(self, n, env):
        a, b = self.expr(n.left, env), self.expr(n.right, env)
        if isinstance(n.op, ast.Add) and (is_list(a.ty) or is_list(b.ty) or is_opt(a.ty) and is_list(res(a.ty)[1])):
            a, b = self.to_list(a), self.to_list(b)
            if not same(a.ty, b.ty):
                raise Unsupported("list + of different element types")
            oid = self.new_obj(FRESH, join_origin(self.elem_origin_of(a.oid) if a.oid else FRESH,
                                                  self.elem_origin_of(b.oid) if b.oid else FRESH))
            return V("(%s ++ %s)" % (a.term, b.term), a.ty, oid)
        if isinstance(n.op, ast.Mult) and (is_list(a.ty) or is_list(b.ty)):
            # [c] * n: n copies; `[c] * len(xs)` is written as the comprehension [c for _ in xs]
            lst, cnt, cnode = (a, b, n.right) if is_list(a.ty) else (b, a, n.left)
            es = lst.extra.get("elems")
            if not es or len(es) != 1 or is_object(es[0].ty):
                raise Unsupported("list repetition of something that is not a one-element list of a number")
            oid = self.new_obj(FRESH)
            if isinstance(cnode, ast.Call) and isinstance(cnode.func, ast.Name) and cnode.func.id == "len" \
                    and len(cnode.args) == 1 and not cnode.keywords:
                xs = self.to_list(self.expr(cnode.args[0], env))
                return V("(map (fun _ => %s) %s)" % (es[0].term, xs.term), lst.ty, oid)
            return V("(repeat %s %s)" % (es[0].term, self.nat(cnt).term), lst.ty, oid)
        a, b = self.unwrap(a), self.unwrap(b)
        ops = {ast.Add: "+", ast.Sub: "-", ast.Mult: "*"}
        for k, s in ops.items():
            if isinstance(n.op, k):
                if res(a.ty) == NAT and res(b.ty) == NAT and k is not ast.Sub:
                    return V("(%s %s %s)%%nat" % (a.term, s, b.term), NAT)
                return V("(%s %s %s)" % (self.num(a).term, s, self.num(b).term), Q)
        raise Unsupported("operator %s outside the fragment (true division may produce floats: use frac)"
                          % type(n.op).__name__)

    # ---- boolean expressions with narrowing of `x is None` tests ----
    @staticmethod
    def none_test(n):
        """(name, True) for `name is None`, (name, False) for `name is not None`, else None"""
        if isinstance(n, ast.UnaryOp) and isinstance(n.op, ast.Not):
            r = Translator.none_test(n.operand)
            return (r[0], not r[1]) if r else None
        if isinstance(n, ast.Compare) and len(n.ops) == 1 and isinstance(n.left, ast.Name) \
                and isinstance(n.comparators[0], ast.Constant) and n.comparators[0].value is None:
            if isinstance(n.ops[0], (ast.Is, ast.Eq)):
                return (n.left.id, True)
            if isinstance(n.ops[0], (ast.IsNot, ast.NotEq)):
                return (n.left.id, False)
        return None

    def boolexpr(self, n, env):
        """truth value of an expression (short-circuit operators: later operands must not raise, except that the
        use of a variable is licensed by an earlier `is None` test on it)"""
        if isinstance(n, ast.BoolOp):
            return self.boolop(list(n.values), isinstance(n.op, ast.And), env)
        if isinstance(n, ast.UnaryOp) and isinstance(n.op, ast.Not):
            b = self.boolexpr(n.operand, env)
            if b.has_const:
                return V("false" if b.const else "true", B, const=not b.const, has_const=True)
            return V("(negb %s)" % b.term, B)
        return self.tobool(self.expr(n, env))

    def boolop(self, ops, isand, env, first=True):
        if len(ops) == 1:
            if first:
                return self.boolexpr(ops[0], env)
            self.nohoist += 1
            try:
                return self.boolexpr(ops[0], env)
            finally:
                self.nohoist -= 1
        head, rest = ops[0], ops[1:]
        nt = self.none_test(head)
        if nt and nt[0] in env and is_opt(env[nt[0]].ty) and nt[1] != isand:
            # `x is not None and REST` / `x is None or REST`: REST is evaluated only when x is not None
            x = env[nt[0]]
            b = self.tmp("n")
            env2 = dict(env)
            env2[nt[0]] = V(b, res(x.ty)[1], x.oid, extra=x.extra)
            r = self.boolop(rest, isand, env2, first=False)
            return V("match %s with None => %s | Some %s => %s end" % (x.term, "false" if isand else "true", b, r.term), B)
        if first:
            a = self.boolexpr(head, env)
        else:
            self.nohoist += 1
            try:
                a = self.boolexpr(head, env)
            finally:
                self.nohoist -= 1
        if a.has_const:
            if a.const != isand:
                return a                       # decides the expression: the later operands are not evaluated
            return self.boolop(rest, isand, env, first=first)
        facts = None
        # `"k" in d and d["k"] ...`: the subscript is licensed by the membership test
        if isand and isinstance(head, ast.Compare) and len(head.ops) == 1 and isinstance(head.ops[0], ast.In) \
                and isinstance(head.left, ast.Constant) and isinstance(head.comparators[0], ast.Name):
            facts = (head.comparators[0].id, head.left.value)
        env2 = env
        if facts:
            env2 = dict(env)
            env2["$has"] = set(env.get("$has", ())) | {facts}
        r = self.boolop(rest, isand, env2, first=False)
        return V("(%s %s %s)" % (a.term, "&&" if isand else "||", r.term), B)

    def e_BoolOp(self, n, env):
        return self.boolexpr(n, env)

    def e_Compare(self, n, env):
        parts = []
        left = self.expr(n.left, env)
        for op, rn in zip(n.ops, n.comparators):
            right = self.expr(rn, env)
            parts.append(self.compare(op, left, right, n, env))
            left = right
        if len(parts) == 1:
            return parts[0]
        return V("(" + " && ".join(p.term for p in parts) + ")", B)

    def compare(self, op, left, right, n, env):
        def neg(r):
            return V("(negb %s)" % r.term, B)
        if isinstance(op, (ast.Is, ast.IsNot)) or (isinstance(op, (ast.Eq, ast.NotEq)) and res(right.ty) == NONE):
            if res(right.ty) != NONE:
                raise Unsupported("`is` with something else than None")
            lt = res(left.ty)
            if lt == NONE:
                r = V("true", B, const=True, has_const=True)
            elif is_opt(lt):
                r = V("(py_is_none %s)" % left.term, B)
            else:
                r = V("false", B, const=False, has_const=True)
            if isinstance(op, (ast.IsNot, ast.NotEq)):
                r = V("false" if r.const else "true", B, const=not r.const, has_const=True) if r.has_const else neg(r)
            return r
        if isinstance(op, (ast.In, ast.NotIn)):
            c = self.unwrap(right)
            ct = res(c.ty)
            if ct == ABALLOT:
                x = self.unwrap(left)
                if res(x.ty) != PROJ:
                    raise Unsupported("`in` on a ballot with something that is not a project")
                r = V("(approves %s %s)" % (c.term, x.term), B)
                return neg(r) if isinstance(op, ast.NotIn) else r
            if ct == KW:
                if not (left.has_const and left.const == "resoluteness"):
                    raise Unsupported("membership test on a keyword dictionary for another key than 'resoluteness'")
                r = V("(py_kw_has_res %s)" % c.term, B)
            elif is_list(ct):
                x = self.unwrap(left)
                et = res(ct[1])
                if is_list(x.ty) and same(List(x.ty), ct) and same(x.ty, ALLOC):
                    r = V("(py_alloc_in %s %s)" % (x.term, c.term), B)
                elif res(x.ty) == PROJ and same(et, PROJ):
                    r = V("(py_in_list %s %s)" % (c.term, x.term), B)
                else:
                    raise Unsupported("`in` with a %r on a %r" % (res(x.ty), ct))
            else:
                raise Unsupported("`in` on a %r" % (ct,))
            return neg(r) if isinstance(op, ast.NotIn) else r
        l, r_ = self.unwrap(left), self.unwrap(right)
        if isinstance(res(l.ty), TV) and not isinstance(res(r_.ty), TV):
            same(l.ty, r_.ty)
        elif isinstance(res(r_.ty), TV) and not isinstance(res(l.ty), TV):
            same(l.ty, r_.ty)
        lt, rt = res(l.ty), res(r_.ty)
        if isinstance(op, (ast.Eq, ast.NotEq)):
            if is_list(lt) and is_list(rt) and same(lt, ALLOC) and same(rt, ALLOC):
                r = V("(py_alloc_eqb %s %s)" % (l.term, r_.term), B)
                return neg(r) if isinstance(op, ast.NotEq) else r
            if lt == B and rt == B:
                r = V("(py_bool_eq %s %s)" % (l.term, r_.term), B)
                return neg(r) if isinstance(op, ast.NotEq) else r
        if QX in (lt, rt) and lt in (Q, QX, NAT) and rt in (Q, QX, NAT):
            a, b = self.coerce(l, QX).term, self.coerce(r_, QX).term
            tab = {ast.Eq: "(Qx_eqb %s %s)" % (a, b), ast.NotEq: "(negb (Qx_eqb %s %s))" % (a, b),
                   ast.Lt: "(Qx_ltb %s %s)" % (a, b), ast.LtE: "(Qx_leb %s %s)" % (a, b),
                   ast.Gt: "(Qx_ltb %s %s)" % (b, a), ast.GtE: "(Qx_leb %s %s)" % (b, a)}
            if type(op) not in tab:
                raise Unsupported("comparison operator")
            return V(tab[type(op)], B)
        natural = lambda v, t: t == NAT or (v.has_const and isinstance(v.const, int) and not isinstance(v.const, bool)
                                            and v.const >= 0)
        if (lt == NAT or rt == NAT) and natural(l, lt) and natural(r_, rt):
            a, b = self.nat(l).term, self.nat(r_).term
            tab = {ast.Eq: "(py_nat_eq %s %s)" % (a, b), ast.NotEq: "(negb (py_nat_eq %s %s))" % (a, b),
                   ast.Lt: "(py_nat_lt %s %s)" % (a, b), ast.LtE: "(py_nat_le %s %s)" % (a, b),
                   ast.Gt: "(py_nat_lt %s %s)" % (b, a), ast.GtE: "(py_nat_le %s %s)" % (b, a)}
            if type(op) not in tab:
                raise Unsupported("comparison operator")
            return V(tab[type(op)], B)
        f = {ast.Eq: "py_eq", ast.NotEq: "py_ne", ast.Lt: "py_lt", ast.LtE: "py_le", ast.Gt: "py_gt",
             ast.GtE: "py_ge"}.get(type(op))
        if f is None:
            raise Unsupported("comparison operator")
        return V("(%s %s %s)" % (f, self.num(l).term, self.num(r_).term), B)

    def e_IfExp(self, n, env):
        c = self.boolexpr(n.test, env)
        if c.has_const:
            return self.expr(n.body if c.const else n.orelse, env)
        self.nohoist += 1
        try:
            nt = self.none_test(n.test)
            if nt and nt[0] in env and is_opt(env[nt[0]].ty):
                x = env[nt[0]]
                b = self.tmp("n")
                env2 = dict(env)
                env2[nt[0]] = V(b, res(x.ty)[1], x.oid, extra=x.extra)
                a_none = self.expr(n.body if nt[1] else n.orelse, env)
                a_some = self.expr(n.orelse if nt[1] else n.body, env2)
                t = join(a_none.ty, a_some.ty)
                if t is None:
                    raise Unsupported("conditional expression with branches of different types")
                oid = None
                if is_object(t):
                    oid = self.new_obj(FRESH, sources=[o for o in (a_none.oid, a_some.oid) if o])
                return V("match %s with None => %s | Some %s => %s end" % (
                    x.term, self.coerce(a_none, t).term, b, self.coerce(a_some, t).term), t, oid)
            ft, ff = self.nonzero_facts(n.test)
            e1, e2 = dict(env), dict(env)
            e1["$nz"] = set(env.get("$nz", ())) | ft
            e2["$nz"] = set(env.get("$nz", ())) | ff
            a, b = self.expr(n.body, e1), self.expr(n.orelse, e2)
        finally:
            self.nohoist -= 1
        t = join(a.ty, b.ty)
        if t is None:
            raise Unsupported("conditional expression with branches of different types")
        oid = None
        if is_object(t):
            oid = self.new_obj(FRESH, sources=[o for o in (a.oid, b.oid) if o])
        return V("(if %s then %s else %s)" % (c.term, self.coerce(a, t).term, self.coerce(b, t).term), t, oid)

    def pattern(self, target, ty, env):
        """binder pattern for a loop / comprehension target; returns (pattern text, env additions)"""
        ty = res(ty)
        if isinstance(target, ast.Name):
            g = self.gname(target.id)
            return g, {target.id: V(g, ty)}
        if isinstance(target, (ast.Tuple, ast.List)) and is_tuple(ty) and len(target.elts) == len(ty[1]):
            pats, add = [], {}
            for e, t in zip(target.elts, ty[1]):
                p, a = self.pattern(e, t, env)
                pats.append(p)
                add.update(a)
            return "'(" + ", ".join(x[1:] if x.startswith("'") else x for x in pats) + ")", add
        raise Unsupported("loop target outside the fragment")

    def comprehension(self, n, env):
        if len(n.generators) != 1:
            raise Unsupported("comprehension with several `for`")
        g = n.generators[0]
        if g.is_async:
            raise Unsupported("async comprehension")
        it = self.to_list(self.expr(g.iter, env))
        et = res(it.ty)[1]
        pat, add = self.pattern(g.target, et, env)
        env2 = dict(env)
        for k, v in add.items():
            if k != "_":
                v = self.elem_value(v, it, g.iter)
                env2[k] = v
        src = it.term
        self.nohoist += 1
        try:
            for c in g.ifs:
                cb = self.boolexpr(c, env2)
                src = "(filter (fun %s => %s) %s)" % (pat, cb.term, src)
        finally:
            self.nohoist -= 1
        return pat, env2, src, et, it

    def elem_value(self, v, container, iter_node):
        """a value obtained by iterating over / subscripting `container`"""
        v = v.but()
        if container.extra.get("enum_of") is not None and res(v.ty) != NAT:
            container = container.extra["enum_of"]        # for i, x in enumerate(xs): x is an element of xs
        if is_object(v.ty) and container.oid is not None:
            v.oid = self.new_obj(FRESH)
            self.objs[v.oid].elem_src.add(container.oid)
        v.extra = dict(v.extra)
        v.extra["elem_of_term"] = container.term
        v.extra["elem_subset"] = set(container.extra.get("subset_of", ())) | {container.term}
        if isinstance(iter_node, ast.Name):
            v.extra["elem_of"] = iter_node.id
        return v

    def literal_comp(self, n, env):
        """[e(x) for x in [a, b] if c(x)] with a literal sequence and no condition: [e(a); e(b)]"""
        if len(n.generators) != 1:
            return None
        g = n.generators[0]
        if g.ifs or g.is_async or not isinstance(g.target, ast.Name):
            return None
        snap_h = len(self.hoists)
        it = self.expr(g.iter, env)
        elems = it.extra.get("elems") if not is_opt(it.ty) else None
        if elems is None or not elems:
            del self.hoists[snap_h:]
            return None
        out = []
        for e in elems:
            env2 = dict(env)
            env2[g.target.id] = e
            out.append(self.expr(n.elt, env2))
        t = out[0].ty
        for v in out[1:]:
            t = join(t, v.ty)
            if t is None:
                raise Unsupported("comprehension with elements of different types")
        cs = [self.coerce(v, t) for v in out]
        return V("[" + "; ".join(c.term for c in cs) + "]", List(t), self.new_obj(FRESH), extra={"elems": cs})

    def e_ListComp(self, n, env):
        lit = self.literal_comp(n, env)
        if lit is not None:
            return lit
        pat, env2, src, et, it = self.comprehension(n, env)
        if isinstance(n.elt, ast.Name) and isinstance(n.generators[0].target, ast.Name) \
                and n.elt.id == n.generators[0].target.id:
            oid = self.new_obj(FRESH, self.elem_origin_of(it.oid) if it.oid else FRESH)
            return V(src, List(et), oid, extra={"subset_of": set(it.extra.get("subset_of", ())) | {it.term}})
        # the element expression: may raise (subscripts) -> py_all_some
        saved, self.hoists = self.hoists, []
        keep = self.nohoist
        self.nohoist = 0
        try:
            e = self.expr(n.elt, env2)
            inner = self.hoists
        finally:
            self.hoists = saved
            self.nohoist = keep
        eo = self.origin_of(e.oid) if e.oid else FRESH
        oid = self.new_obj(FRESH, eo)
        if not inner:
            return V("(map (fun %s => %s) %s)" % (pat, e.term, src), List(e.ty), oid)
        excs = {h[2] for h in inner}
        if len(excs) != 1:
            raise Unsupported("comprehension element that can raise several kinds of exception")
        body = "Some %s" % e.term
        for b, t, exc in reversed(inner):
            body = "match %s with None => None | Some %s => %s end" % (t, b, body)
        b = self.hoist("(py_all_some (map (fun %s => %s) %s))" % (pat, body, src), excs.pop(), "c")
        return V(b, List(e.ty), oid)

    e_GeneratorExp = e_ListComp

    def e_SetComp(self, n, env):
        v = self.e_ListComp(n, env)
        if not same(v.ty, ALLOC):
            raise Unsupported("set comprehension of something that is not a collection of projects")
        v.extra = dict(v.extra)
        v.extra["is_set"] = True
        v.extra.setdefault("subset_of", set())
        return v

    def e_List(self, n, env):
        vs = [self.expr(x, env) for x in n.elts]
        if not vs:
            return self.empty_list()
        t = vs[0].ty
        for v in vs[1:]:
            t = join(t, v.ty)
            if t is None:
                raise Unsupported("list literal with elements of different types")
        eo = FRESH
        for v in vs:
            if v.oid:
                eo = join_origin(eo, self.origin_of(v.oid))
        cs = [self.coerce(v, t) for v in vs]
        return V("[" + "; ".join(c.term for c in cs) + "]", List(t), self.new_obj(FRESH, eo), extra={"elems": cs})

    def empty_list(self):
        tv = TV()
        self.nils.append(tv)
        return V("$NIL%d$" % (len(self.nils) - 1), List(tv), self.new_obj(FRESH))

    def finish(self, term):
        for i, tv in enumerate(self.nils):
            t = res(tv)
            term = term.replace("$NIL%d$" % i, "(@nil unit)" if isinstance(t, TV) else "(@nil %s)" % gty(t))
        return term

    def e_Tuple(self, n, env):
        vs = [self.expr(x, env) for x in n.elts]
        if len(vs) == 1:            # (x,) is only ever used as a one-element sequence
            return V("[%s]" % vs[0].term, List(vs[0].ty), self.new_obj(FRESH), extra={"elems": vs})
        return V("(" + ", ".join(v.term for v in vs) + ")", Tup(*[v.ty for v in vs]), extra={"tuple": vs})

    def e_Dict(self, n, env):
        if n.keys:
            raise Unsupported("non-empty dictionary literal")
        return V("py_no_kwargs", KW, self.new_obj(FRESH))

    def e_DictComp(self, n, env):
        """{x: e(x) for x in xs} / {x: i for i, x in enumerate(xs)}: a finite map on the elements of xs, only ever
        applied to elements of xs (KeyError is not tracked otherwise: fail closed)"""
        if len(n.generators) != 1:
            raise Unsupported("dict comprehension with several `for`")
        g = n.generators[0]
        if g.ifs or g.is_async or not isinstance(n.key, ast.Name):
            raise Unsupported("dict comprehension outside the fragment")
        it = g.iter
        if isinstance(g.target, ast.Name) and g.target.id == n.key.id:
            xs = self.to_list(self.expr(it, env))
            return V("tt", "Map", extra={"domain": xs.term, "elem": res(xs.ty)[1], "macro": ([n.key.id], n.value, env)})
        if isinstance(g.target, ast.Tuple) and len(g.target.elts) == 2 and all(isinstance(e, ast.Name) for e in g.target.elts) \
                and isinstance(it, ast.Call) and isinstance(it.func, ast.Name) and it.func.id == "enumerate" \
                and len(it.args) == 1 and not it.keywords and g.target.elts[1].id == n.key.id \
                and isinstance(n.value, ast.Name) and n.value.id == g.target.elts[0].id:
            xs = self.to_list(self.expr(it.args[0], env))
            if not same(xs.ty, ALLOC):
                raise Unsupported("rank dictionary of something that is not a list of projects")
            return V("tt", "Map", extra={"domain": xs.term, "elem": PROJ, "rank": True})
        raise Unsupported("dict comprehension outside the fragment")

    def map_lookup(self, m, a, env):
        if a.extra.get("elem_of_term") != m.extra["domain"] and m.extra["domain"] not in a.extra.get("elem_subset", ()):
            raise Unsupported("lookup in a local dictionary with a key that is not known to be in it (KeyError)")
        if m.extra.get("rank"):
            return V("(py_last_index_of %s %s)" % (m.extra["domain"], a.term), NAT, extra={"position_in": m.extra["domain"]})
        return self.apply_macro(m.extra["macro"], [a], env, eager=True)

    def e_Lambda(self, n, env):
        a = n.args
        if a.vararg or a.kwarg or a.kwonlyargs or a.defaults or a.posonlyargs:
            raise Unsupported("lambda signature outside the fragment")
        return V("tt", "Macro", extra={"macro": ([x.arg for x in a.args], n.body, env)})

    def apply_macro(self, m, args, env, eager=False):
        params, body, menv = m
        if len(args) != len(params):
            raise Unsupported("call of a local function with the wrong number of arguments")
        # Python looks the free names of the body up when the function is CALLED: they must still be what they were
        # (the values of a dict comprehension are computed when it is built: no such condition)
        nodes = [] if eager else [y for st in (body if isinstance(body, list) else [body]) for y in ast.walk(st)]
        local = {y.id for y in nodes if isinstance(y, ast.Name) and isinstance(y.ctx, ast.Store)}
        for x in nodes:
            if isinstance(x, ast.Name) and x.id not in params and x.id not in local and (x.id in menv or x.id in env):
                a_, b_ = menv.get(x.id), env.get(x.id)
                if a_ is None or b_ is None or a_.term != b_.term or a_.oid != b_.oid:
                    raise Unsupported("local function whose free name %s changes between its definition and a call" % x.id)
        env2 = dict(menv)
        for p_, a_ in zip(params, args):
            env2[p_] = a_
        if isinstance(body, list):
            return self.fun_block(body, env2)
        return self.expr(body, env2)

    def fun_block(self, stmts, env):
        """a pure local function with assignments, conditionals and returns on every path, as an expression"""
        rt = [None]

        def go(stmts, env, final):
            if not stmts:
                raise Unsupported("local function that can end without return")
            s, rest = stmts[0], stmts[1:]
            if _is_doc(s) or isinstance(s, ast.Pass):
                return go(rest, env, final)
            if isinstance(s, ast.Return):
                if s.value is None:
                    raise Unsupported("return without a value in a local function")
                v = self.expr(s.value, env)
                if final is None:
                    t = v.ty if rt[0] is None else join(rt[0], v.ty)
                    if t is None:
                        raise Unsupported("local function returning values of different types")
                    rt[0] = t
                    return "?"
                return self.coerce(v, final).term
            if isinstance(s, ast.Assign) and len(s.targets) == 1 and isinstance(s.targets[0], ast.Name):
                v = self.expr(s.value, env)
                g = self.gname(s.targets[0].id)
                env2 = dict(env)
                env2[s.targets[0].id] = v.but(term=g)
                return "(let %s := %s in %s)" % (g, v.term, go(rest, env2, final))
            if isinstance(s, ast.If):
                test, body, orelse = s.test, s.body, s.orelse
                while isinstance(test, ast.UnaryOp) and isinstance(test.op, ast.Not):
                    test, body, orelse = test.operand, orelse, body
                c = self.boolexpr(test, env)
                ft, ff = self.nonzero_facts(test)
                e1, e2 = dict(env), dict(env)
                e1["$nz"] = set(env.get("$nz", ())) | ft
                e2["$nz"] = set(env.get("$nz", ())) | ff
                if c.has_const:
                    return go((body if c.const else orelse) + rest, e1 if c.const else e2, final)
                return "(if %s then %s else %s)" % (c.term, go(body + rest, e1, final), go(orelse + rest, e2, final))
            raise Unsupported("statement %s in a local function" % type(s).__name__)
        self.nohoist += 1
        try:
            snap = self.snapshot()
            go(stmts, env, None)
            self.restore(snap)
            term = go(stmts, env, rt[0])
        finally:
            self.nohoist -= 1
        return V(term, rt[0])

    @staticmethod
    def nonzero_facts(test):
        """expressions known to be non-zero when the test is true / false (guards of frac)"""
        if isinstance(test, ast.Compare) and len(test.ops) == 1:
            l, op, r = test.left, test.ops[0], test.comparators[0]
            zero = lambda x: isinstance(x, ast.Constant) and x.value == 0 and not isinstance(x.value, bool)
            if zero(r) and isinstance(op, (ast.Gt, ast.Lt, ast.NotEq)):
                return {ast.unparse(l)}, set()
            if zero(l) and isinstance(op, (ast.Gt, ast.Lt, ast.NotEq)):
                return {ast.unparse(r)}, set()
            if zero(r) and isinstance(op, ast.Eq):
                return set(), {ast.unparse(l)}
            if zero(l) and isinstance(op, ast.Eq):
                return set(), {ast.unparse(r)}
            if zero(r) and isinstance(op, (ast.LtE, ast.GtE)):       # not (x <= 0)  ->  x > 0
                return set(), {ast.unparse(l)}
            if zero(l) and isinstance(op, (ast.LtE, ast.GtE)):
                return set(), {ast.unparse(r)}
        if isinstance(test, ast.BoolOp) and isinstance(test.op, ast.And):
            out = set()
            for x in test.values:
                out |= Translator.nonzero_facts(x)[0]
            return out, set()
        return set(), set()

    def e_Subscript(self, n, env):
        o0 = self.expr(n.value, env)
        if o0.ty == "Map":
            return self.map_lookup(o0, self.expr(n.slice, env), env)
        o = self.unwrap(o0)
        ot = res(o.ty)
        if ot == KW:
            if isinstance(n.slice, ast.Constant) and n.slice.value == "resoluteness":
                if isinstance(n.value, ast.Name) and (n.value.id, "resoluteness") in env.get("$has", ()):
                    return V("(py_kw_res_present %s)" % o.term, B)
                b = self.hoist("(kw_resoluteness %s)" % o.term, "KeyError", "k")
                return V(b, B)
            raise Unsupported("subscript of a keyword dictionary with another key than 'resoluteness'")
        if is_list(ot):
            k = self.nat(self.expr(n.slice, env))
            b = self.hoist("(py_getitem %s %s)" % (o.term, k.term), "IndexError", "g")
            return self.elem_value(V(b, ot[1]), o, n.value)
        raise Unsupported("subscript of a %r" % (ot,))

    # ---------------- calls ----------------
    def copy_of(self, v, deep):
        """BudgetAllocation(x) / list(x) / copy(x) / dict(x) [shallow], deepcopy(x): the same VALUE, a fresh object"""
        v = self.unwrap(v)
        if not is_object(v.ty):
            return v
        eo = FRESH if deep or v.oid is None else self.elem_origin_of(v.oid)
        r = v.but(oid=self.new_obj(FRESH, eo))
        r.extra = {k: x for k, x in v.extra.items() if k in ("subset_of", "is_set", "elems")}
        if "subset_of" in r.extra:
            r.extra["subset_of"] = set(r.extra["subset_of"]) | {v.term}
        return r

    def class_fields(self, cls):
        """fields of a small class: __init__ is a sequence of `self.f = <parameter>`"""
        node = self.classes[cls]
        init = [x for x in node.body if isinstance(x, ast.FunctionDef) and x.name == "__init__"]
        if len(init) != 1:
            raise Unsupported("class %s without a single __init__" % cls)
        a = init[0].args
        params = [x.arg for x in a.args]
        if a.vararg or a.kwarg or a.kwonlyargs or a.defaults or params[:1] != ["self"]:
            raise Unsupported("%s.__init__ has a signature outside the fragment" % cls)
        fields = []
        for st in init[0].body:
            if _is_doc(st) or isinstance(st, ast.Pass):
                continue
            if isinstance(st, ast.Assign) and len(st.targets) == 1 and isinstance(st.targets[0], ast.Attribute) \
                    and isinstance(st.targets[0].value, ast.Name) and st.targets[0].value.id == "self" \
                    and isinstance(st.value, ast.Name) and st.value.id in params[1:]:
                fields.append((st.targets[0].attr, params.index(st.value.id) - 1))
                continue
            raise Unsupported("statement in %s.__init__ outside the fragment" % cls)
        if len({f for f, _ in fields}) != len(fields):
            raise Unsupported("%s.__init__ sets a field twice" % cls)
        return fields, len(params) - 1

    def construct(self, cls, n, env):
        fields, nparams = self.class_fields(cls)
        if n.keywords or len(n.args) != nparams:
            raise Unsupported("construction of a %s with an unexpected argument list" % cls)
        args = [self.unwrap(self.expr(a, env)) for a in n.args]
        vals = [args[i] for _, i in fields]
        vals = [self.num(v) if res(v.ty) in (NAT, B) else v for v in vals]
        t = ObjT(cls, [v.ty for v in vals])
        return V("(" + ", ".join(v.term for v in vals) + ")", t, self.new_obj(FRESH))

    def field(self, o, name):
        """(term, type) of the field of an object value"""
        t = res(o.ty)
        fields, _ = self.class_fields(t[1])
        names = [f for f, _ in fields]
        if name not in names:
            raise Unsupported("%s has no field %s" % (t[1], name))
        k, n_ = names.index(name), len(names)
        term = o.term
        for _ in range(n_ - 1 - k):
            term = "(fst %s)" % term
        if k > 0:
            term = "(snd %s)" % term
        return V(term, t[2][k])

    def with_field(self, o, name, v):
        t = res(o.ty)
        fields, _ = self.class_fields(t[1])
        names = [f for f, _ in fields]
        k = names.index(name)
        parts = [self.field(o, f).term for f in names]
        parts[k] = self.coerce(v, t[2][k]).term
        return V("(" + ", ".join(parts) + ")", t, o.oid)

    def class_method(self, o, mname, n, env):
        t = res(o.ty)
        node = self.classes[t[1]]
        ms = [x for x in node.body if isinstance(x, ast.FunctionDef) and x.name == mname]
        if len(ms) != 1:
            raise Unsupported("%s has no method %s" % (t[1], mname))
        m = ms[0]
        a = m.args
        body = [x for x in m.body if not _is_doc(x) and not isinstance(x, ast.Pass)]
        params = [x.arg for x in a.args]
        if a.vararg or a.kwarg or a.kwonlyargs or a.defaults or m.decorator_list or params[:1] != ["self"] \
                or len(body) != 1 or not isinstance(body[0], ast.Return) or body[0].value is None or n.keywords \
                or len(n.args) != len(params) - 1:
            raise Unsupported("method %s.%s outside the fragment (a single return)" % (t[1], mname))
        env2 = {"self": o}
        for p_, a_ in zip(params[1:], n.args):
            env2[p_] = self.expr(a_, env)
        return self.expr(body[0].value, env2)

    def kwargs(self, n, allowed):
        d = {}
        for k in n.keywords:
            if k.arg is None or k.arg not in allowed:
                raise Unsupported("keyword argument %s outside the fragment" % k.arg)
            d[k.arg] = k.value
        return d

    def rule_call(self, f, n, env):
        """rule(inst, profile, initial_budget_allocation=a, resoluteness=r, **params)  ->  rule params' (budget inst) a"""
        rt = res(f.ty)[1]
        if len(n.args) != 2:
            raise Unsupported("a rule must be called with (instance, profile) as positional arguments")
        inst = self.unwrap(self.expr(n.args[0], env))
        if res(inst.ty) != INST:
            raise Unsupported("first argument of a rule call is not an instance")
        if not (isinstance(n.args[1], ast.Name) and n.args[1].id in env and res(env[n.args[1].id].ty) == PROFILE
                and env[n.args[1].id].extra.get("param")):
            raise Unsupported("second argument of a rule call is not the caller's profile")
        init, reso, params = None, None, None
        for k in n.keywords:
            if k.arg is None:
                if params is not None:
                    raise Unsupported("several ** arguments in a rule call")
                params = self.unwrap(self.expr(k.value, env))
                if res(params.ty) != KW:
                    raise Unsupported("** argument of a rule call is not a keyword dictionary")
            elif k.arg == "initial_budget_allocation":
                init = self.coerce(self.unwrap(self.expr(k.value, env)), ALLOC)
            elif k.arg == "resoluteness":
                reso = self.expr(k.value, env)
            else:
                raise Unsupported("keyword argument %s in a rule call" % k.arg)
        pterm = "py_no_kwargs"
        if params is not None:
            pterm = params.term
            ov = params.extra.get("init")
            if ov is not None:
                if init is not None:
                    raise Unsupported("initial_budget_allocation passed twice to the rule (TypeError)")
                init = ov
            if params.extra.get("res") is not None:
                if reso is not None:
                    raise Unsupported("resoluteness passed twice to the rule (TypeError)")
        if init is not None and init.oid is not None:
            pass       # the rule receives the object: rules do not modify their arguments (C20)
        if reso is not None:
            if not (reso.has_const and isinstance(reso.const, bool)):
                raise Unsupported("resoluteness passed to the rule is not the wrapper's own resoluteness")
            if self.mode is None or reso.const != self.mode:
                raise Unsupported("the rule is called with another resoluteness than the wrapper's")
            pterm = "(py_kw_set_res %s %s)" % (pterm, "true" if reso.const else "false")
        elif self.mode is False and not (params is not None and params.extra.get("res") is False):
            raise Unsupported("the irresolute wrapper calls the rule without resoluteness=False")
        iterm = init.term if init is not None else "[]"
        t = "(%s %s (budget %s) %s)" % (f.term, pterm, inst.term, iterm)
        oid = self.new_obj(RULERES, RULERES) if is_object(rt) else None
        return V(t, rt, oid)

    def e_Call(self, n, env):
        f = n.func
        if isinstance(f, ast.Attribute):
            return self.method_call(n, env)
        if isinstance(f, ast.Name) and f.id in env and env[f.id].ty == "Macro":
            if n.keywords:
                raise Unsupported("keyword arguments in a call of a local function")
            return self.apply_macro(env[f.id].extra["macro"], [self.expr(a, env) for a in n.args], env)
        if isinstance(f, ast.Subscript) or (isinstance(f, ast.Name) and f.id in env):
            fv = self.unwrap(self.expr(f, env))
            if is_rule(fv.ty):
                return self.rule_call(fv, n, env)
            raise Unsupported("call of something that is not a rule")
        if not isinstance(f, ast.Name):
            raise Unsupported("call of a computed function")
        name = f.id
        if name == "sorted":
            return self.sorted_call(n, env)
        if name == "total_cost" and len(n.args) == 1 and not n.keywords:
            a = self.coerce(self.to_list(self.expr(n.args[0], env)), ALLOC)
            return V("(py_total_cost %s %s)" % (self.the_instance(env).term, a.term), Q)
        if name == "float" and len(n.args) == 1 and not n.keywords and isinstance(n.args[0], ast.Constant) \
                and n.args[0].value in ("inf", "+inf", "Infinity"):
            return V("PInf", QX)
        if name == "set" and len(n.args) == 1 and not n.keywords:
            # a set of projects is the list of its elements in iteration order; the order in which a set built from
            # a generator is iterated is taken to be the order of insertion (the rule theorems show it is immaterial)
            a = self.to_list(self.expr(n.args[0], env))
            if not same(a.ty, ALLOC):
                raise Unsupported("set(...) of something that is not a collection of projects")
            v = a.but(oid=self.new_obj(FRESH, self.elem_origin_of(a.oid) if a.oid else FRESH))
            v.extra = dict(a.extra)
            v.extra["is_set"] = True
            v.extra.setdefault("subset_of", set())
            return v
        if name in self.classes:
            return self.construct(name, n, env)
        if name in ("BudgetAllocation", "list", "copy", "deepcopy", "dict", "tuple"):
            kws = [k for k in n.keywords if not (name == "BudgetAllocation" and k.arg == "details")]
            if kws:       # BudgetAllocation(x, details=...): the details are not modelled
                raise Unsupported("keyword arguments in %s(...)" % name)
            if not n.args:
                if name == "dict":
                    return V("py_no_kwargs", KW, self.new_obj(FRESH))
                if name in ("BudgetAllocation", "list"):
                    return self.empty_list()
                raise Unsupported("%s() without argument" % name)
            if len(n.args) != 1:
                raise Unsupported("%s(...) with several arguments" % name)
            a = self.expr(n.args[0], env)
            at = res(self.unwrap(a).ty) if not isinstance(n.args[0], ast.GeneratorExp) else res(a.ty)
            if name == "dict" and at != KW:
                raise Unsupported("dict(...) of something that is not a keyword dictionary")
            if name in ("BudgetAllocation", "list", "tuple") and not is_list(at):
                raise Unsupported("%s(...) of something that is not a sequence" % name)
            return self.copy_of(a, deep=(name == "deepcopy"))
        if name == "len" and len(n.args) == 1 and not n.keywords:
            return V("(length %s)" % self.to_list(self.expr(n.args[0], env)).term, NAT)
        if name == "range" and len(n.args) == 1 and not n.keywords:
            return V("(py_range %s)" % self.nat(self.expr(n.args[0], env)).term, List(NAT), self.new_obj(FRESH))
        if name == "enumerate" and len(n.args) == 1 and not n.keywords:
            a = self.to_list(self.expr(n.args[0], env))
            v = V("(py_enumerate %s)" % a.term, List(Tup(NAT, res(a.ty)[1])), self.new_obj(FRESH, self.elem_origin_of(a.oid) if a.oid else FRESH))
            v.extra = {"enum_of": a, "enum_node": n.args[0]}
            return v
        if name == "zip" and len(n.args) == 2 and not n.keywords:
            a = self.to_list(self.expr(n.args[0], env))
            b = self.to_list(self.expr(n.args[1], env))
            eo = join_origin(self.elem_origin_of(a.oid) if a.oid else FRESH, self.elem_origin_of(b.oid) if b.oid else FRESH)
            v = V("(py_zip %s %s)" % (a.term, b.term), List(Tup(res(a.ty)[1], res(b.ty)[1])), self.new_obj(FRESH, eo))
            v.extra = {"zip_of": (a, b), "zip_nodes": (n.args[0], n.args[1])}
            return v
        if name in ("any", "all") and len(n.args) == 1 and not n.keywords:
            xs = self.to_list(self.expr(n.args[0], env))
            et = res(res(xs.ty)[1])
            if et != B:
                raise Unsupported("%s of a sequence without truth values" % name)
            if xs.extra.get("elems"):
                es = xs.extra["elems"]
                if len(es) == 1:
                    return es[0]
                return V("(" + (" || " if name == "any" else " && ").join(e.term for e in es) + ")", B)
            return V("(py_%s %s)" % (name, xs.term), B)
        if name in ("max", "min") and not n.keywords:
            if len(n.args) >= 2:
                vs = [self.num(self.expr(a, env)) for a in n.args]
                t = vs[0].term
                for v in vs[1:]:
                    t = "(py_%s2 %s %s)" % (name, t, v.term)
                return V(t, Q)
            if len(n.args) == 1:
                xs = self.to_list(self.expr(n.args[0], env))
                if not same(xs.ty, List(Q)):
                    raise Unsupported("%s of a sequence that is not numeric" % name)
                b = self.hoist("(py_%s_opt %s)" % (name, xs.term), "ValueError", "m")
                return V(b, Q)
        if name == "sum" and len(n.args) == 1 and not n.keywords:
            xs = self.to_list(self.expr(n.args[0], env))
            if not same(xs.ty, List(Q)):
                raise Unsupported("sum of a sequence that is not numeric")
            return V("(py_sum %s)" % xs.term, Q)
        if name == "frac" and not n.keywords:
            args = [self.expr(a, env) for a in n.args]
            if len(args) == 1:
                return self.num(args[0])
            if len(args) == 2:
                d = args[1]
                if d.has_const and isinstance(d.const, int) and not isinstance(d.const, bool) and d.const != 0:
                    return V("(frac %s %s)" % (self.num(args[0]).term, d.term), Q)
                if ast.unparse(n.args[1]) in env.get("$nz", ()):
                    return V("(frac %s %s)" % (self.num(args[0]).term, self.num(d).term), Q)
                raise Unsupported("frac(a, b) with a denominator that is not known to be non-zero on this path "
                                  "(ZeroDivisionError)")
        if name == "bool" and len(n.args) == 1 and not n.keywords:
            return self.boolexpr(n.args[0], env)
        raise Unsupported("call of %s outside the fragment" % name)

    def sorted_call(self, n, env):
        """sorted(instance) / sorted(xs) by name; sorted(xs, key=lambda p: -k(p)) and
        sorted(xs, key=lambda p: (-k(p), <position of p in xs>)): decreasing key, stable / position as tie-break"""
        kws = self.kwargs(n, ("key", "reverse"))
        rev = False
        if "reverse" in kws:
            r_ = self.expr(kws.pop("reverse"), env)
            if not (r_.has_const and isinstance(r_.const, bool)):
                raise Unsupported("sorted(..., reverse=<not a constant>)")
            rev = r_.const
        if len(n.args) != 1:
            raise Unsupported("sorted with several positional arguments")
        a = self.unwrap(self.expr(n.args[0], env))
        if res(a.ty) == INST:
            if kws or rev:
                raise Unsupported("sorted(instance, key=...)")
            return V("(py_sorted_projects (py_instance_iter %s))" % a.term, ALLOC, self.new_obj(FRESH))
        xs = self.to_list(a)
        if not same(xs.ty, ALLOC):
            raise Unsupported("sorted of a sequence that is not a sequence of projects")
        if "key" not in kws:
            if rev:
                raise Unsupported("sorted(xs, reverse=True) without key")
            return V("(py_sorted_projects %s)" % xs.term, ALLOC, self.new_obj(FRESH))
        kf = self.expr(kws["key"], env)
        if kf.ty != "Macro":
            raise Unsupported("sort key that is not a lambda / local function")
        b = self.tmp("p")
        arg = V(b, PROJ, extra={"elem_of_term": xs.term})
        self.nohoist += 1
        try:
            k = self.apply_macro(kf.extra["macro"], [arg], env)
        finally:
            self.nohoist -= 1
        oid = self.new_obj(FRESH)
        if rev:
            # reverse=True keeps the original order among equal keys: the stable sort by DEcreasing key
            if res(k.ty) in (Q, QX, NAT) and k.extra.get("neg_of") is None:
                return V("(py_sorted_neg (fun %s => %s) %s)" % (b, self.coerce(k, QX).term, xs.term), ALLOC, oid)
            raise Unsupported("sorted(..., reverse=True) with a key outside the fragment")

        def as_neg(v):          # -x for a rational x is a decreasing key as well
            if res(v.ty) == Q and v.extra.get("neg_of") is not None:
                return V("(Fin %s)" % v.extra["neg_of"].term, NEGQX)
            return v
        k = as_neg(k)
        if k.extra.get("tuple"):
            k.extra["tuple"] = [as_neg(k.extra["tuple"][0])] + list(k.extra["tuple"][1:])
        if res(k.ty) == NEGQX:
            return V("(py_sorted_neg (fun %s => %s) %s)" % (b, k.term, xs.term), ALLOC, oid)
        parts = k.extra.get("tuple")
        if parts and len(parts) == 2 and res(parts[0].ty) == NEGQX and res(parts[1].ty) == NAT \
                and parts[1].extra.get("position_in") == xs.term:
            return V("(py_sorted_neg_then (fun %s => %s) (fun %s => %s) %s)" % (b, parts[0].term, b, parts[1].term, xs.term),
                     ALLOC, oid)
        raise Unsupported("sort key outside the fragment (expected -k(p) or (-k(p), position of p in the sorted list))")

    def method_call(self, n, env):
        f = n.func
        o = self.unwrap(self.expr(f.value, env), "AttributeError")
        ot = res(o.ty)
        m = f.attr
        if is_obj(ot):
            return self.class_method(o, m, n, env)
        if ot == APROFILE and m == "multiplicity" and len(n.args) == 1 and not n.keywords:
            a = self.expr(n.args[0], env)
            if res(a.ty) != ABALLOT or a.extra.get("elem_of_term") != o.term:
                raise Unsupported("multiplicity(...) of a ballot that was not obtained by iterating over that profile")
            return V("(Qnat (amul %s))" % a.term, Q)
        if ot == APROFILE and m == "approval_score" and len(n.args) == 1 and not n.keywords:
            a = self.expr(n.args[0], env)
            if res(a.ty) != PROJ:
                raise Unsupported("approval_score of something that is not a project")
            return V("(py_approval_score %s %s)" % (o.term, a.term), Q)
        if ot == GROUPSAT and m == "total_satisfaction_project" and len(n.args) == 1 and not n.keywords:
            a = self.expr(n.args[0], env)
            if res(a.ty) != PROJ:
                raise Unsupported("total_satisfaction_project of something that is not a project")
            return V("(%s %s)" % (o.term, a.term), Q)
        if ot == TIEBREAK and m == "order" and len(n.args) == 3 and not n.keywords:
            i_, p_, l_ = [self.expr(x, env) for x in n.args]
            if not (res(i_.ty) == INST and i_.extra.get("param") and res(p_.ty) in (PROFILE, APROFILE) and p_.extra.get("param")):
                raise Unsupported("tie_breaking.order called on something else than the caller's instance and profile")
            l_ = self.coerce(self.to_list(l_), ALLOC)
            return V("(tb_order_of_key %s %s)" % (o.term, l_.term), ALLOC, self.new_obj(FRESH))
        if is_list(ot) and m == "index" and len(n.args) == 1 and not n.keywords:
            a = self.expr(n.args[0], env)
            if res(a.ty) != PROJ or not same(ot, ALLOC):
                raise Unsupported(".index outside the fragment")
            if a.extra.get("elem_of_term") != o.term:
                raise Unsupported(".index(x) of something that is not known to be in the list (ValueError)")
            return V("(py_index_of %s %s)" % (o.term, a.term), NAT, extra={"position_in": o.term})
        if ot == INST and m == "is_feasible" and len(n.args) == 1 and not n.keywords:
            a = self.coerce(self.unwrap(self.expr(n.args[0], env)), ALLOC)
            return V("(py_is_feasible %s %s)" % (o.term, a.term), B)
        if ot == INST and m == "is_exhaustive" and len(n.args) == 1:
            kws = self.kwargs(n, ("available_projects",))
            a = self.coerce(self.unwrap(self.expr(n.args[0], env)), ALLOC)
            if "available_projects" in kws:
                av = self.expr(kws["available_projects"], env)
                if res(av.ty) != NONE:
                    av = self.coerce(self.unwrap(av), ALLOC)
                    return V("(py_is_exhaustive_avail %s %s %s)" % (o.term, a.term, av.term), B)
            return V("(py_is_exhaustive %s %s)" % (o.term, a.term), B)
        if ot == PROFILE and m == "num_ballots" and not n.args and not n.keywords:
            return V("(Qnat (cp_num_ballots %s))" % o.term, Q)
        if ot == PROFILE and m == "as_sat_profile" and len(n.args) == 1 and not n.keywords:
            c = self.expr(n.args[0], env)
            if res(c.ty) != SATCLASS:
                raise Unsupported("as_sat_profile of something that is not the satisfaction class")
            return V("(cp_as_sat %s %s)" % (o.term, c.term), SATPROFILE, self.new_obj(FRESH))
        if ot == SAT and m == "sat" and len(n.args) == 1 and not n.keywords:
            a = self.coerce(self.unwrap(self.expr(n.args[0], env)), ALLOC)
            return V("(py_sat_sat %s %s)" % (o.term, a.term), Q)
        if same(ot, SATPROFILE) and m == "multiplicity" and len(n.args) == 1 and not n.keywords:
            a = self.expr(n.args[0], env)
            if res(a.ty) != SAT or not isinstance(f.value, ast.Name) or a.extra.get("elem_of") != f.value.id:
                raise Unsupported("multiplicity(...) of something that was not obtained by iterating over that profile")
            return V("(py_sat_multiplicity %s)" % a.term, Q)
        if same(ot, SATPROFILE) and m == "total_satisfaction" and len(n.args) == 1 and not n.keywords:
            a = self.coerce(self.unwrap(self.expr(n.args[0], env)), ALLOC)
            return V("(py_total_satisfaction %s %s)" % (o.term, a.term), Q)
        if ot == KW and m == "get" and len(n.args) == 2 and not n.keywords:
            k = self.expr(n.args[0], env)
            d = self.expr(n.args[1], env)
            if not (k.has_const and k.const == "resoluteness") or res(d.ty) != B:
                raise Unsupported(".get on a keyword dictionary for another key than 'resoluteness'")
            return V("(py_kw_res_get %s %s)" % (o.term, d.term), B)
        if is_list(ot) and m == "copy" and not n.args and not n.keywords:
            return self.copy_of(o, deep=False)
        raise Unsupported("method .%s of a %r outside the fragment" % (m, ot))

    # ---------------- statements ----------------
    def define(self, env, name, v, body_of, force_let=False):
        """bind the Python name to the value and continue; a plain alias (`y = x`) needs no binder"""
        env2 = dict(env)
        self.note_binding(name, v)
        if name == "_" or name not in self.loaded:
            return body_of(env2) if name == "_" or name not in env else body_of({k: x for k, x in env2.items() if k != name})
        simple = v.term.replace("_", "a").replace("'", "a").isalnum()
        if (simple and not force_let) or res(v.ty) == NONE or v.ty in ("Macro", "Map", "RecFun"):
            env2[name] = v.but()
            return body_of(env2)
        g = self.gname(name)
        env2[name] = v.but(term=g)
        return "let %s := %s in\n  %s" % (g, v.term, body_of(env2))

    def mutate(self, env, oid, name, newv, body_of):
        """an in-place change of the object `oid` (reached through `name`): every name bound to it sees the new value"""
        if oid is not None:
            if self.is_stored(oid, env):
                raise Unsupported("in-place mutation of an object after it has been stored into a container")
            self.mark_mutated(oid)
            names = [k for k, x in env.items() if not k.startswith("$") and x.oid == oid]
        else:
            names = [name]
        if name not in names:
            names.append(name)
        g = self.gname(name)
        env2 = dict(env)
        for k in names:
            env2[k] = newv.but(term=g, oid=oid)
            self.note_binding(k, env2[k])
        return "let %s := %s in\n  %s" % (g, newv.term, body_of(env2))

    def block(self, stmts, env, ctx):
        if not stmts:
            return ctx.fall(env)
        s, rest = stmts[0], stmts[1:]

        def nxt(env2):
            return self.block(rest, env2, ctx)

        h0 = len(self.hoists)
        if _is_doc(s) or isinstance(s, (ast.Pass, ast.Assert, ast.Import, ast.ImportFrom)):
            return nxt(env)
        if isinstance(s, ast.FunctionDef):
            a = s.args
            body = [x for x in s.body if not _is_doc(x) and not isinstance(x, ast.Pass)]
            if a.vararg or a.kwarg or a.kwonlyargs or a.defaults or a.posonlyargs or s.decorator_list or not body:
                raise Unsupported("local function signature outside the fragment")
            env2 = dict(env)
            if any(isinstance(x, ast.Call) and isinstance(x.func, ast.Name) and x.func.id == s.name
                   for st in body for x in ast.walk(st)):
                self.recfuns.add(s.name)
                env2[s.name] = V("tt", "RecFun", extra={"node": s})
                return nxt(env2)
            if len(body) == 1 and isinstance(body[0], ast.Return) and body[0].value is not None:
                body = body[0].value
            if isinstance(body, list) and not any(isinstance(x, ast.Return) for st in body for x in ast.walk(st)):
                self.procs.add(s.name)
            env2[s.name] = V("tt", "Macro", extra={"macro": ([x.arg for x in a.args], body, env)})
            return nxt(env2)
        if isinstance(s, ast.AnnAssign):
            if s.value is None:
                return nxt(env)
            s = ast.Assign(targets=[s.target], value=s.value)
        if isinstance(s, ast.Assign):
            if len(s.targets) != 1:
                raise Unsupported("chained assignment")
            t = s.targets[0]
            if isinstance(t, ast.Name):
                v = self.expr(s.value, env)
                return self.wrap(ctx, self.define(env, t.id, v, nxt), h0)
            if isinstance(t, ast.Tuple) and isinstance(s.value, ast.Tuple) and len(t.elts) == len(s.value.elts) \
                    and all(isinstance(x, ast.Name) for x in t.elts):
                vs = [self.expr(x, env) for x in s.value.elts]

                def chain(i, e):
                    if i == len(vs):
                        return nxt(e)
                    return self.define(e, t.elts[i].id, vs[i], lambda e2: chain(i + 1, e2), force_let=True)
                return self.wrap(ctx, chain(0, env), h0)
            if isinstance(t, ast.Subscript) and isinstance(t.value, ast.Name):
                return self.store_item(t, s.value, None, env, ctx, nxt, h0)
            if isinstance(t, ast.Attribute) and isinstance(t.value, ast.Name):
                return self.store_attr(t, s.value, None, env, ctx, nxt, h0)
            raise Unsupported("assignment target outside the fragment")
        if isinstance(s, ast.AugAssign):
            t = s.target
            if isinstance(t, ast.Name) and t.id not in self.loaded:
                self.expr(s.value, env)          # a variable that is never read: only what the right-hand side may raise
                return self.wrap(ctx, nxt(env), h0)
            if isinstance(t, ast.Name):
                cur = self.expr(t, env)
                if is_list(cur.ty) or (is_opt(cur.ty) and is_list(res(cur.ty)[1])):
                    if not isinstance(s.op, ast.Add):
                        raise Unsupported("augmented assignment on a list")
                    return self.extend(t.id, s.value, False, env, ctx, nxt, h0)
                e = ast.BinOp(left=ast.Name(id=t.id, ctx=ast.Load()), op=s.op, right=s.value)
                v = self.expr(e, env)
                return self.wrap(ctx, self.define(env, t.id, v, nxt, force_let=True), h0)
            if isinstance(t, ast.Subscript) and isinstance(t.value, ast.Name):
                return self.store_item(t, s.value, s.op, env, ctx, nxt, h0)
            if isinstance(t, ast.Attribute) and isinstance(t.value, ast.Name):
                return self.store_attr(t, s.value, s.op, env, ctx, nxt, h0)
            raise Unsupported("augmented assignment target outside the fragment")
        if isinstance(s, ast.Expr):
            c = s.value
            if isinstance(c, ast.Call) and isinstance(c.func, ast.Attribute) and c.func.attr in ("append", "extend") \
                    and isinstance(c.func.value, ast.Name):
                if len(c.args) != 1 or c.keywords:
                    raise Unsupported(".%s with an unexpected argument list" % c.func.attr)
                return self.extend(c.func.value.id, c.args[0], c.func.attr == "append", env, ctx, nxt, h0)
            if isinstance(c, ast.Call) and isinstance(c.func, ast.Attribute) and c.func.attr == "remove" \
                    and isinstance(c.func.value, ast.Name) and len(c.args) == 1 and not c.keywords:
                return self.remove(c.func.value.id, c.args[0], env, ctx, nxt, h0)
            if isinstance(c, ast.Call) and isinstance(c.func, ast.Attribute) and c.func.attr == "sort" \
                    and isinstance(c.func.value, ast.Name) and not c.args and not c.keywords:
                nm = c.func.value.id
                if nm not in env:
                    raise Unsupported("unknown name %s" % nm)
                x = env[nm]
                l = self.unwrap(x, "AttributeError")
                if not same(l.ty, ALLOC):
                    raise Unsupported(".sort() of something that is not a list of projects")
                newv = V("(py_sorted_projects %s)" % l.term, ALLOC, x.oid)
                return self.wrap(ctx, self.mutate(env, x.oid, nm, newv, nxt), h0)
            if isinstance(c, ast.Call) and isinstance(c.func, ast.Name) and c.func.id in self.recfuns:
                return self.rec_call(c, env, ctx, nxt, h0)
            if isinstance(c, ast.Call) and isinstance(c.func, ast.Name) and c.func.id in env \
                    and env[c.func.id].ty == "Macro" and isinstance(env[c.func.id].extra["macro"][1], list) \
                    and not any(isinstance(x, ast.Return) for st in env[c.func.id].extra["macro"][1] for x in ast.walk(st)):
                return self.proc_call(c, env, ctx, nxt, h0)
            if isinstance(c, ast.Call) and isinstance(c.func, ast.Name) and c.func.id == "__replace__":
                x, a_ = env[c.args[0].id], env[c.args[1].id]
                newv = V(a_.term, x.ty, x.oid, extra={k: y for k, y in x.extra.items() if k in ("subset_of", "is_set")})
                if not same(x.ty, a_.ty):
                    raise Unsupported("internal: rebuilt list of another type")
                if x.oid is not None:
                    self.mark_mutated(x.oid)
                env2 = {k: y for k, y in env.items() if k != c.args[1].id}
                for k, y in env.items():
                    if not k.startswith("$") and (k == c.args[0].id or (x.oid is not None and y.oid == x.oid)):
                        env2[k] = newv
                return nxt(env2)
            if isinstance(c, ast.Call) and isinstance(c.func, ast.Name) and c.func.id == "print":
                return nxt(env)
            self.expr(c, env)         # evaluated for the exceptions it may raise only
            return self.wrap(ctx, nxt(env), h0)
        if isinstance(s, ast.If):
            self.rest_has_rec = any(isinstance(x, ast.Call) and isinstance(x.func, ast.Name) and x.func.id in self.recfuns
                                    for st in rest for x in ast.walk(st))
            return self.if_stmt(s, env, ctx, nxt)
        if isinstance(s, ast.Return) and self.rec_active is not None:
            if s.value is not None:
                raise Unsupported("a recursive local function that returns a value")
            return self.rec_active["fall"](env)
        if isinstance(s, ast.Return):
            v = self.expr(s.value, env) if s.value is not None else V("tt", NONE, has_const=True)
            return self.wrap(ctx, self.ret(ctx, v), h0)
        if isinstance(s, ast.Raise):
            self.exits += 1
            return ctx.leave("(Raise %s)" % coq_string(self.exc_name(s)))
        if isinstance(s, ast.Break):
            if ctx.brk is None:
                raise Unsupported("break outside a loop")
            self.exits += 1
            return ctx.brk(env)
        if isinstance(s, ast.Continue):
            if ctx.cont is None:
                raise Unsupported("continue outside a loop")
            self.exits += 1
            return ctx.cont(env)
        if isinstance(s, ast.For):
            d = self.update_loop(s, env)
            if d is not None:
                return self.block(d + rest, env, ctx)
            return self.loop(s, env, ctx, nxt)
        if isinstance(s, ast.While):
            return self.loop(s, env, ctx, nxt)
        raise Unsupported("statement %s outside the fragment" % type(s).__name__)

    @staticmethod
    def exc_name(s):
        e = s.exc
        if isinstance(e, ast.Call):
            e = e.func
        if isinstance(e, ast.Name):
            return e.id
        raise Unsupported("raise of something that is not ExceptionClass(...)")

    def ret(self, ctx, v):
        self.exits += 1
        if self.rtype is None:
            self.rtype = v.ty
        t = join(self.rtype, v.ty)
        if t is None:
            raise Unsupported("return values of different types (%r, %r)" % (res(self.rtype), res(v.ty)))
        if res(t) != res(self.rtype) and not same(t, self.rtype):
            self.rtype = t
            raise _Retry()
        if res(t) == NONE:
            return ctx.leave("(Ok tt)")
        return ctx.leave("(Ok %s)" % self.coerce(v, t).term)

    def extend(self, name, arg, single, env, ctx, nxt, h0):
        if name not in env:
            raise Unsupported("unknown name %s" % name)
        x = env[name]
        was_opt = is_opt(x.ty)
        l = self.unwrap(x, "AttributeError" if single else "TypeError")
        if not is_list(l.ty):
            raise Unsupported(".append/.extend/+= on a %r" % (res(l.ty),))
        a = self.expr(arg, env)
        et = res(l.ty)[1]
        if single:
            a = self.unwrap(a) if not is_opt(et) else a
            if not same(List(a.ty), l.ty):
                a = self.coerce(a, et)
            term = "(%s ++ [%s])" % (l.term, a.term)
            if x.oid is not None and a.oid is not None:
                self.escape_into(x.oid, a)
        else:
            a = self.to_list(a)
            if not same(a.ty, l.ty):
                raise Unsupported("extension of a list by a list of another type")
            term = "(%s ++ %s)" % (l.term, a.term)
            if x.oid is not None and a.oid is not None:
                c = self.objs[x.oid]
                c.elem = join_origin(c.elem, self.elem_origin_of(a.oid))
        newv = V(("(Some %s)" % term) if was_opt else term, x.ty, x.oid)
        env_s = env
        if single and a.oid is not None:
            env_s = dict(env)
            env_s["$stored"] = frozenset(env.get("$stored", ())) | {a.oid}
        return self.wrap(ctx, self.mutate(env_s, x.oid, name, newv, nxt), h0)

    def remove(self, name, arg, env, ctx, nxt, h0):
        """xs.remove(v): the first occurrence; ValueError when there is none"""
        if name not in env:
            raise Unsupported("unknown name %s" % name)
        x = env[name]
        l = self.unwrap(x, "AttributeError")
        a = self.expr(arg, env)
        if not same(l.ty, ALLOC) or res(a.ty) != PROJ:
            raise Unsupported(".remove outside the fragment (a project from a list of projects)")
        b = self.hoist("(py_remove %s %s)" % (l.term, a.term), "KeyError" if x.extra.get("is_set") else "ValueError", "rm")
        newv = V(b, ALLOC, x.oid, extra={k: y for k, y in x.extra.items() if k in ("subset_of", "is_set")})
        return self.wrap(ctx, self.mutate(env, x.oid, name, newv, nxt), h0)

    def store_item(self, t, value, op, env, ctx, nxt, h0):
        name = t.value.id
        if name not in env:
            raise Unsupported("unknown name %s" % name)
        x = env[name]
        o = self.unwrap(x)
        ot = res(o.ty)
        if ot == KW:
            if op is not None or not isinstance(t.slice, ast.Constant) or not isinstance(t.slice.value, str):
                raise Unsupported("store into a keyword dictionary outside the fragment")
            key = t.slice.value
            v = self.expr(value, env)
            if key == "resoluteness":
                if res(v.ty) != B:
                    raise Unsupported("resoluteness set to something that is not a truth value")
                newv = V("(py_kw_set_res %s %s)" % (o.term, v.term), KW, x.oid, extra=dict(x.extra))
                newv.extra["res"] = v.const if v.has_const else "dynamic"
                if newv.extra["res"] == "dynamic" or self.mode is None or v.const != self.mode:
                    raise Unsupported("resoluteness stored in the rule parameters is not the wrapper's own resoluteness")
            elif key == "initial_budget_allocation":
                a = self.coerce(self.unwrap(v), ALLOC)
                newv = V(o.term, KW, x.oid, extra=dict(x.extra))
                newv.extra["init"] = a
            else:
                raise Unsupported("store of the key %r into the rule parameters" % key)
            if x.oid is not None:
                self.mark_mutated(x.oid)
            env2 = dict(env)
            for k, y in env.items():
                if not k.startswith("$") and (k == name or (x.oid is not None and y.oid == x.oid)):
                    env2[k] = newv
                    self.note_binding(k, newv)
            return self.wrap(ctx, nxt(env2), h0)
        if is_list(ot):
            k = self.nat(self.expr(t.slice, env))
            old = self.hoist("(py_getitem %s %s)" % (o.term, k.term), "IndexError", "g")
            v = self.expr(value, env)
            et = res(ot[1])
            if op is not None:
                if et not in (Q, NAT) or not isinstance(op, (ast.Add, ast.Sub, ast.Mult)):
                    raise Unsupported("augmented item assignment outside the fragment")
                sym = {ast.Add: "+", ast.Sub: "-", ast.Mult: "*"}[type(op)]
                v = V("(%s %s %s)" % (old, sym, self.num(v).term), Q) if et == Q else \
                    V("(%s %s %s)%%nat" % (old, sym, self.nat(v).term), NAT)
            else:
                v = self.coerce(v, et)
                self.escape_into(x.oid, v)
            newv = V("(py_setitem %s %s %s)" % (o.term, k.term, v.term), ot, x.oid)
            return self.wrap(ctx, self.mutate(env, x.oid, name, newv, nxt), h0)
        raise Unsupported("item assignment on a %r" % (ot,))

    def store_attr(self, t, value, op, env, ctx, nxt, h0):
        name = t.value.id
        if name not in env:
            raise Unsupported("unknown name %s" % name)
        x = env[name]
        if is_obj(x.ty):
            v = self.expr(value, env)
            if op is not None:
                cur = self.field(x, t.attr)
                if not isinstance(op, (ast.Add, ast.Sub, ast.Mult)):
                    raise Unsupported("augmented attribute assignment outside the fragment")
                sym = {ast.Add: "+", ast.Sub: "-", ast.Mult: "*"}[type(op)]
                v = V("(%s %s %s)" % (self.num(cur).term, sym, self.num(v).term), Q)
            ft = res(self.field(x, t.attr).ty)
            if ft == Q and is_opt(v.ty):
                v = self.unwrap(v)
            if ft == Q and res(v.ty) == QX:
                # a float infinity stored where exact numbers live: outside what the translation can represent; the
                # generated function reports it as an exception of its own (the theorems show it cannot happen)
                b = self.hoist("(py_finite %s)" % v.term, "FloatInfinity", "f")
                v = V(b, Q)
            newv = self.with_field(x, t.attr, v)
            return self.wrap(ctx, self.mutate(env, x.oid, name, newv, nxt), h0)
        if res(x.ty) != INST or t.attr != "budget_limit":
            raise Unsupported("assignment to the attribute .%s of a %r" % (t.attr, res(x.ty)))
        v = self.expr(value, env)
        if op is not None:
            if not isinstance(op, (ast.Add, ast.Sub, ast.Mult)):
                raise Unsupported("augmented attribute assignment outside the fragment")
            sym = {ast.Add: "+", ast.Sub: "-", ast.Mult: "*"}[type(op)]
            v = V("(budget %s %s %s)" % (x.term, sym, self.num(v).term), Q)
        newv = V("(py_with_budget %s %s)" % (x.term, self.num(v).term), INST, x.oid)
        return self.wrap(ctx, self.mutate(env, x.oid, name, newv, nxt), h0)

    # ---------------- if ----------------
    def narrow(self, test):
        """(names known to be not None when the test is true, ... when it is false)"""
        nt = self.none_test(test)
        if nt:
            return (set(), {nt[0]}) if nt[1] else ({nt[0]}, set())
        if isinstance(test, ast.UnaryOp) and isinstance(test.op, ast.Not):
            a, b = self.narrow(test.operand)
            return b, a
        if isinstance(test, ast.BoolOp):
            parts = [self.narrow(x) for x in test.values]
            if isinstance(test.op, ast.And):
                return set().union(*[p[0] for p in parts]), set()
            return set(), set().union(*[p[1] for p in parts])
        return set(), set()

    @staticmethod
    def loads(stmts, name):
        return any(isinstance(n, ast.Name) and n.id == name for n in _walk(stmts))

    def if_stmt(self, s, env, ctx, nxt):
        test, body, orelse = s.test, s.body, s.orelse
        while isinstance(test, ast.UnaryOp) and isinstance(test.op, ast.Not):
            test, body, orelse = test.operand, orelse, body
        h0 = len(self.hoists)
        nt = self.none_test(test)
        c2 = ctx.with_fall(nxt)
        if nt and nt[0] in env:
            x = env[nt[0]]
            if not is_opt(x.ty):
                isnone = res(x.ty) == NONE
                return self.block(body if isnone == nt[1] else orelse, env, c2)
            b_none, b_some = (body, orelse) if nt[1] else (orelse, body)
            g = self.gname(nt[0])
            env_some = dict(env)
            env_some[nt[0]] = V(g, res(x.ty)[1], x.oid, extra=x.extra)

            def emit(t_none, t_some):
                return "match %s with\n  | None => %s\n  | Some %s => %s\n  end" % (x.term, t_none, g, t_some)
            return self.wrap(ctx, self.branches(emit, [(b_none, env), (b_some, env_some)], env, ctx, nxt), h0)
        c = self.boolexpr(test, env)
        if c.has_const:
            return self.wrap(ctx, self.block(body if c.const else orelse, env, c2), h0)
        n_true, n_false = self.narrow(test)
        nz = self.nonzero_facts(test)
        pre = []
        envs = []
        for k_, (stmts, names) in enumerate(((body, n_true), (orelse, n_false))):
            e, w = dict(env), []
            if nz[k_]:
                e["$nz"] = set(env.get("$nz", ())) | nz[k_]
            for nm in sorted(names):
                if nm in env and is_opt(env[nm].ty) and self.loads(stmts, nm):
                    g = self.gname(nm)
                    w.append((env[nm].term, g))
                    e[nm] = V(g, res(env[nm].ty)[1], env[nm].oid, extra=env[nm].extra)
            envs.append(e)
            pre.append(w)

        def guard(w, t):
            for ot, g in reversed(w):
                self.exits += 1
                t = "match %s with None => %s | Some %s => %s end" % (ot, ctx.leave('(Raise "TypeError"%string)'), g, t)
            return t

        def emit(t_a, t_b):
            return "(if %s\n  then %s\n  else %s)" % (c.term, guard(pre[0], t_a), guard(pre[1], t_b))
        force_cps = bool(pre[0] or pre[1])
        return self.wrap(ctx, self.branches(emit, [(body, envs[0]), (orelse, envs[1])], env, ctx, nxt, force_cps), h0)

    def branches(self, emit, parts, env, ctx, nxt, force_cps=False):
        """the two branches of a conditional, JOINED on the variables they change when neither can leave the block
        (value form: let '(x, y) := if c then (..) else (..) in rest), else with the rest of the block continued in
        both (continuation form)"""
        def has_exit(stmts):
            return _has_exit(stmts) or any(isinstance(n, (ast.For, ast.While)) or (
                isinstance(n, ast.Call) and isinstance(n.func, ast.Name) and n.func.id in self.recfuns) for n in _walk(stmts))
        use_k = self.rest_has_rec
        self.rest_has_rec = False
        if not force_cps and not any(has_exit(st) for st, _ in parts):
            snap = self.snapshot()
            e0 = self.exits
            k = self.tmp("J")
            ends, starts = [], []
            terms = []
            for st, e0_ in parts:
                def fall(e, e0_=e0_):
                    ends.append(e)
                    starts.append(e0_)
                    return "$%s_%d$" % (k, len(ends) - 1)
                terms.append(self.block(st, e0_, Ctx(fall, ctx.leave, ctx.brk, ctx.cont)))
            if self.exits == e0:
                r = self.join_branches(emit, terms, ends, starts, env, nxt, k)
                if r is not None:
                    return r
            self.restore(snap)
        if use_k:
            # the rest of the block is big (it defines / calls a recursive function): it is not copied into the
            # branches but becomes a local continuation  let k := fun <changed variables> => rest in ...
            k = self.tmp("J")
            ends, starts, terms = [], [], []
            for st, e0_ in parts:
                def fall(e, e0_=e0_):
                    ends.append(e)
                    starts.append(e0_)
                    return "$%s_%d$" % (k, len(ends) - 1)
                terms.append(self.block(st, e0_, Ctx(fall, ctx.leave, ctx.brk, ctx.cont)))
            if not ends:
                return emit(*terms)
            r = self.join_branches(emit, terms, ends, starts, env, nxt, k, kform=True)
            if r is None:
                raise Unsupported("variables of different types on the branches of a conditional")
            return r
        c2 = ctx.with_fall(nxt)
        return emit(*[self.block(st, e, c2) for st, e in parts])

    def join_branches(self, emit, terms, ends, starts, env, nxt, k, kform=False):
        names = []
        for e in ends:
            for n, v in e.items():
                if n.startswith("$") or n in names:
                    continue
                names.append(n)
        mods = []
        for n in names:
            if not all(n in e for e in ends):
                continue
            if n not in env or any(n not in st or (e[n] is not st[n] and (
                    e[n].term != st[n].term or e[n].oid != st[n].oid)) for e, st in zip(ends, starts)):
                if n in self.loaded:
                    mods.append(n)
        mods.sort(key=lambda n: self.order.get(n, 10 ** 6))
        gone = [n for n in env if not n.startswith("$") and not all(n in e for e in ends)]
        env2 = {n: v for n, v in env.items() if n not in gone}
        st_ = frozenset().union(*[frozenset(e.get("$stored", ())) for e in ends]) if ends else frozenset()
        if st_:
            env2["$stored"] = st_
        if not mods and not kform:
            return nxt(env2)
        types = {}
        def val_at(i, n):
            e, st = ends[i], starts[i]
            return e[n]
        for n in mods:
            t = val_at(0, n).ty
            for i in range(1, len(ends)):
                t = join(t, val_at(i, n).ty)
                if t is None:
                    return None
            types[n] = t
        for i, e in enumerate(ends):
            vals = []
            for n in mods:
                src = e[n]
                vals.append(self.coerce(src, types[n]).term)
            tup = vals[0] if len(vals) == 1 else "(" + ", ".join(vals) + ")"
            if kform:
                tup = "(k%s %s)" % (k, " ".join(vals) if vals else "tt")
            terms = [t.replace("$%s_%d$" % (k, i), tup) for t in terms]
        merged = {}
        binders = []
        for n in mods:
            g = self.gname(n)
            binders.append(g)
            oid = None
            if is_object(types[n]):
                key = tuple(e[n].oid for e in ends)
                if key not in merged:
                    if len(set(key)) == 1 and key[0] is not None:
                        merged[key] = key[0]
                    else:
                        merged[key] = self.new_obj(FRESH, sources=[o for o in key if o is not None])
                oid = merged[key]
            extra = {}
            ex = [e[n].extra for e in ends]
            if any(x.get("init") is not None or x.get("res") is not None for x in ex):
                raise Unsupported("rule parameters written on one branch of a conditional only")
            env2[n] = V(g, types[n], oid, extra=extra)
            self.note_binding(n, env2[n])
        if kform:
            ps = "".join(" (%s : %s)" % (b_, gty(types[n_])) for b_, n_ in zip(binders, mods)) or " (_ : unit)"
            return "let k%s := (fun%s =>\n  %s) in\n  %s" % (k, ps, nxt(env2), emit(*terms))
        lhs = binders[0] if len(binders) == 1 else "'(" + ", ".join(binders) + ")"
        return "let %s := %s in\n  %s" % (lhs, emit(*terms), nxt(env2))

    # ---------------- loops ----------------
    # ---------------- recursive local functions ----------------
    def rec_call(self, c, env, ctx, nxt, h0):
        """a call `aux(...)` (as a statement) of a recursive local function that returns nothing and works by
        changing the objects it is handed: translated by state passing -- the function becomes a fuelled `fix` that
        returns the final values of its mutable arguments, and the caller's names for those objects are rebound"""
        name = c.func.id
        if c.keywords:
            raise Unsupported("keyword arguments in a call of a recursive local function")
        if self.rec_active is not None:
            if self.rec_active["name"] != name:
                raise Unsupported("nested recursive local functions")
            return self.rec_inner(c, env, ctx, nxt, h0)
        node = env[name].extra["node"]
        params = [x.arg for x in node.args.args]
        if len(c.args) != len(params):
            raise Unsupported("call of %s with the wrong number of arguments" % name)
        args = [self.expr(a, env) for a in c.args]
        body = [x for x in node.body if not _is_doc(x)]
        rcalls = [x for st in body for x in ast.walk(st)
                  if isinstance(x, ast.Call) and isinstance(x.func, ast.Name) and x.func.id == name]
        for rc in rcalls:
            if rc.keywords or len(rc.args) != len(params):
                raise Unsupported("recursive call of %s with an unexpected argument list" % name)
        direct = set(_assigned(body))
        changed = {n_ for n_ in _assigned(body, None, self.procs)
                   if n_ in direct or n_ not in params or is_object(args[params.index(n_)].ty)}
        invariant = [all(isinstance(rc.args[i], ast.Name) and rc.args[i].id == params[i] for rc in rcalls)
                     and params[i] not in changed for i in range(len(params))]
        # constant invariant arguments are folded into the body (resolute=True / False)
        for i, p_ in enumerate(params):
            if invariant[i] and args[i].has_const and isinstance(args[i].const, bool):
                node = specialise(node, p_, args[i].const)
        body = [x for x in node.body if not _is_doc(x)]
        varying = [i for i in range(len(params)) if not invariant[i]]
        self.uses_fuel = True
        fix, fuel_in = self.gname(name), self.tmp("fuel")
        env_f = {k: v for k, v in env.items() if k not in params}
        vparams = []
        for i, p_ in enumerate(params):
            a = args[i]
            if invariant[i]:
                env_f[p_] = a
                continue
            a = self.unwrap(a)
            g = self.gname(p_)
            oid = self.new_obj(FRESH, sources=[a.oid] if a.oid is not None else []) if is_object(a.ty) else None
            ex = {k: y for k, y in a.extra.items() if k in ("is_set",)}
            if "subset_of" in a.extra:
                ex["subset_of"] = set(a.extra["subset_of"]) | {a.term}
            pv = V(g, a.ty, oid, extra=ex)
            env_f[p_] = pv
            self.note_binding(p_, pv)
            vparams.append((i, p_, pv, a))
        state = [(i, p_, pv) for i, p_, pv, _ in vparams if is_object(pv.ty)]

        def pack(e):
            vals = []
            for _, p_, pv in state:
                if p_ not in e:
                    raise Unsupported("the parameter %s is undefined at the end of %s" % (p_, name))
                vals.append(self.coerce(e[p_], pv.ty).term)
            return "(Ok %s)" % ("tt" if not vals else vals[0] if len(vals) == 1 else "(" + ", ".join(vals) + ")")
        self.rec_active = {"name": name, "fix": fix, "fuel": fuel_in, "params": params, "invariant": invariant,
                           "vparams": vparams, "state": state, "fall": pack}
        fixed = [(params[i], args[i].oid) for i in range(len(params)) if invariant[i] and args[i].oid is not None]
        before = {o: self.objs[o].mutated for _, o in fixed}
        try:
            body_t = self.block(body, env_f, Ctx(pack, lambda r: r))
        finally:
            self.rec_active = None
        for p_, o in fixed:
            if self.objs[o].mutated and not before[o]:
                raise Unsupported("the recursive function changes its argument %s, which is not threaded through the "
                                  "recursion" % p_)
        stype = "unit" if not state else gty(state[0][2].ty) if len(state) == 1 else \
            "(" + " * ".join(gty(pv.ty) for _, _, pv in state) + ")%type"
        fuel_out = self.tmp("fuel")
        ps = "".join(" (%s : %s)" % (pv.term, gty(pv.ty)) for _, _, pv, _ in vparams)
        fixt = ("(fix %s (%s : nat)%s {struct %s} : py_res %s :=\n    match %s with\n    | O => OutOfFuel\n    | Datatypes.S %s =>\n    %s\n    end)"
                % (fix, fuel_out, ps, fuel_out, stype, fuel_out, fuel_in, body_t))
        call = self.call_and_rebind(fix, "fuel", [a for _, _, _, a in vparams], vparams, state, env, ctx, nxt)
        return self.wrap(ctx, "let %s := %s in\n  %s" % (fix, fixt, call), h0)

    def call_and_rebind(self, fix, fuel, argvals, vparams, state, env, ctx, nxt):
        terms = [self.coerce(a, pv.ty).term for a, (_, _, pv, _) in zip(argvals, vparams)]
        env2 = dict(env)
        binders = []
        for (i, p_, pv), a in zip(state, [a for a, (j, _, pv2, _) in zip(argvals, vparams) if is_object(pv2.ty)]):
            g = self.tmp("s")
            binders.append(g)
            if a.oid is not None:
                self.mark_mutated(a.oid)
                if pv.oid is not None and a.oid != pv.oid:
                    self.objs[pv.oid].sources.add(a.oid)
                for k, y in env.items():
                    if not k.startswith("$") and y.oid == a.oid:
                        env2[k] = V(g, pv.ty, a.oid, extra={k2: z for k2, z in y.extra.items() if k2 in ("subset_of", "is_set")})
        handed = {a.oid for a in argvals if a.oid is not None}
        if handed:
            env2["$stored"] = frozenset(env.get("$stored", ())) | handed
        pat = "_" if not binders else binders[0] if len(binders) == 1 else "(" + ", ".join(binders) + ")"
        e_ = self.tmp("e")
        self.exits += 1
        return ("match %s %s %s with\n  | Ok %s => %s\n  | Raise %s => %s\n  | OutOfFuel => %s\n  end" % (
            fix, fuel, " ".join(terms), pat, nxt(env2), e_, ctx.leave("(Raise %s)" % e_), ctx.leave("OutOfFuel")))

    def rec_inner(self, c, env, ctx, nxt, h0):
        ra = self.rec_active
        argvals = []
        for i, p_, pv, _ in ra["vparams"]:
            a = self.unwrap(self.expr(c.args[i], env))
            need = pv.extra.get("subset_of")
            if need is not None and not need <= (set(a.extra.get("subset_of", ())) | {a.term}):
                raise Unsupported("recursive call with a collection that is not known to stay within the original one")
            argvals.append(a)
        call = self.call_and_rebind(ra["fix"], ra["fuel"], argvals, ra["vparams"], ra["state"], env, ctx, nxt)
        return self.wrap(ctx, call, h0)

    def proc_call(self, c, env, ctx, nxt, h0):
        """a local function without return value called as a statement: its body is executed in place, the parameters
        being further names of the caller's objects"""
        params, body, menv = env[c.func.id].extra["macro"]
        if c.keywords or len(c.args) != len(params):
            raise Unsupported("call of a local procedure with an unexpected argument list")
        args = [self.expr(a, env) for a in c.args]
        depth = getattr(self, "_proc_depth", 0)
        if depth > 3:
            raise Unsupported("local procedures nested too deeply")
        local = {y.id for st in body for y in ast.walk(st) if isinstance(y, ast.Name) and isinstance(y.ctx, ast.Store)}
        for st in body:
            for x in ast.walk(st):
                if isinstance(x, ast.Name) and x.id not in params and x.id not in local and (x.id in menv or x.id in env):
                    a_, b_ = menv.get(x.id), env.get(x.id)
                    if x.id in self.recfuns or (a_ is not None and a_.ty in ("Macro", "RecFun")):
                        continue
                    if a_ is None or b_ is None or a_.term != b_.term or a_.oid != b_.oid:
                        raise Unsupported("local procedure whose free name %s changes between its definition and a call" % x.id)
        env_c = dict(env)
        for p_, a_ in zip(params, args):
            env_c[p_] = a_
            self.loaded.add(p_)

        def back(e):
            by_oid = {}
            for k, y in e.items():
                if not k.startswith("$") and y.oid is not None:
                    by_oid[y.oid] = y
            out = {}
            for k, y in env.items():
                if k.startswith("$"):
                    continue
                out[k] = by_oid.get(y.oid, y) if y.oid is not None else y
            for k, y in e.items():
                if k.startswith("$"):
                    out[k] = y
            return nxt(out)
        self._proc_depth = depth + 1
        try:
            t = self.block(list(body), env_c, ctx.with_fall(back))
        finally:
            self._proc_depth = depth
        return self.wrap(ctx, t, h0)

    def update_loop(self, s, env):
        """`for v in xs: ... v.f = e ...` changes the elements of xs in place: rebuilt as
        acc = []; for v in xs: ...; acc.append(v)   and then xs (the object) becomes acc"""
        if not (isinstance(s.target, ast.Name) and isinstance(s.iter, ast.Name) and not s.orelse):
            return None
        t = s.target.id
        stores = [x for st in s.body for x in ast.walk(st)
                  if isinstance(x, ast.Attribute) and isinstance(x.ctx, ast.Store) and isinstance(x.value, ast.Name) and x.value.id == t]
        if not stores or getattr(s, "_desugared", False):
            return None
        if any(isinstance(x, (ast.Break, ast.Continue)) for st in s.body for x in ast.walk(st)):
            raise Unsupported("break / continue in a loop that changes the elements it iterates over")
        if any(isinstance(x, ast.Name) and x.id == s.iter.id for st in s.body for x in ast.walk(st)):
            raise Unsupported("a loop that changes the elements of a list and reads the list itself")
        acc = "acc__%d" % self._fresh_id()
        self.loaded.add(acc)
        new = ast.For(target=s.target, iter=s.iter, orelse=[], body=list(s.body) + [
            ast.Expr(value=ast.Call(func=ast.Attribute(value=ast.Name(id=acc, ctx=ast.Load()), attr="append", ctx=ast.Load()),
                                    args=[ast.Name(id=t, ctx=ast.Load())], keywords=[]))])
        new._desugared = True
        init = ast.Assign(targets=[ast.Name(id=acc, ctx=ast.Store())], value=ast.List(elts=[], ctx=ast.Load()))
        fin = ast.Expr(value=ast.Call(func=ast.Name(id="__replace__", ctx=ast.Load()),
                                      args=[ast.Name(id=s.iter.id, ctx=ast.Load()), ast.Name(id=acc, ctx=ast.Load())], keywords=[]))
        out = [init, new, fin]
        for x in out:
            ast.fix_missing_locations(x)
        return out

    def _fresh_id(self):
        self.names["$id"] = self.names.get("$id", 0) + 1
        return self.names["$id"]

    def loop(self, s, env, ctx, nxt):
        is_for = isinstance(s, ast.For)
        if s.orelse:
            raise Unsupported("loop with an else clause")
        h0 = len(self.hoists)
        it = None
        if is_for:
            it = self.to_list(self.expr(s.iter, env))
        else:
            self.uses_fuel = True
        tnames = set()
        if is_for:
            tnames = {n.id for n in ast.walk(s.target) if isinstance(n, ast.Name)}
        rec = (self.rec_active["name"], [i for i, _, _ in self.rec_active["state"]]) if self.rec_active else None
        direct = _assigned(s.body)
        # a call of a local procedure / of the recursive function can only change the OBJECTS it is handed
        cands = [n for n in _assigned(s.body, rec, self.procs) if n in env and n not in tnames
                 and (n in direct or is_object(env[n].ty))]
        oids = {env[n].oid for n in cands if env[n].oid is not None}
        for n, v in env.items():
            if not n.startswith("$") and n not in cands and n not in tnames and v.oid in oids:
                cands.append(n)
        carried = sorted([n for n in cands if n in self.loaded], key=lambda n: self.order.get(n, 10 ** 6))
        for n in carried:
            if env[n].extra.get("init") is not None:
                raise Unsupported("rule parameters with an overridden initial allocation changed in a loop")
        types = {n: env[n].ty for n in carried}
        for attempt in range(6):
            snap = self.snapshot()
            retry = [False]
            phis, env_b = {}, dict(env)
            binders = []
            for n in carried:
                g = self.gname(n)
                binders.append(g)
                oid = None
                if is_object(types[n]):
                    key = env[n].oid
                    if key not in phis:
                        phis[key] = self.new_obj(FRESH, sources=[key] if key is not None else [])
                    oid = phis[key]
                env_b[n] = V(g, types[n], oid, extra={})
                self.note_binding(n, env_b[n])
            cond_term, cond_binders = None, None
            if not is_for:
                # the condition is evaluated in the same state: its own copy of the binders
                cond_binders = [self.gname(n) for n in carried]
                env_c = dict(env_b)
                for n, g in zip(carried, cond_binders):
                    env_c[n] = env_b[n].but(term=g)
                self.nohoist += 1
                try:
                    cond_term = self.boolexpr(s.test, env_c).term
                finally:
                    self.nohoist -= 1
            pat = None
            if is_for:
                pat, add = self.pattern(s.target, res(it.ty)[1], env)
                for k2, v in add.items():
                    if k2 != "_":
                        env_b[k2] = self.elem_value(v, it, s.iter)
                        self.note_binding(k2, env_b[k2])
            ends = []

            def pack(e, kind):
                vals = []
                for n in carried:
                    if n not in e:
                        raise Unsupported("the variable %s is not defined at the end of the loop body" % n)
                    t = join(types[n], e[n].ty)
                    if t is None:
                        raise Unsupported("the variable %s changes its type in a loop" % n)
                    if res(t) != res(types[n]) and not (same(t, types[n])):
                        types[n] = t
                        retry[0] = True
                        vals.append("?")
                        continue
                    vals.append(self.coerce(e[n], types[n]).term)
                    if e[n].extra.get("init") is not None:
                        raise Unsupported("rule parameters with an overridden initial allocation changed in a loop")
                ends.append(e)
                tup = "tt" if not vals else (vals[0] if len(vals) == 1 else "(" + ", ".join(vals) + ")")
                return "(%s %s)" % (kind, tup)

            def leave(r):
                return "(Exit %s)" % r
            lctx = Ctx(lambda e: pack(e, "Next"), leave, brk=lambda e: pack(e, "Break"), cont=lambda e: pack(e, "Next"))
            body = self.block(s.body, env_b, lctx)
            if retry[0]:
                self.restore(snap)
                continue
            break
        else:
            raise Unsupported("the types of the loop variables do not stabilise")
        # objects at the loop head stand for the objects at the end of the body as well
        for e in ends:
            groups = {}
            for n in carried:
                if env_b[n].oid is not None:
                    if e[n].oid is not None and e[n].oid != env_b[n].oid:
                        self.objs[env_b[n].oid].sources.add(e[n].oid)
                    groups.setdefault(e[n].oid, set()).add(env_b[n].oid)
            for o, ps in groups.items():
                if o is not None and len(ps) > 1:
                    raise Unsupported("two loop variables that were different objects become the same object in the loop")
            for n in carried:
                for m in carried:
                    if n < m and env_b[n].oid is not None and env_b[n].oid == env_b[m].oid and e[n].oid != e[m].oid:
                        raise Unsupported("two names of one object are bound to different objects in the loop")
        stype = "unit" if not carried else (gty(types[carried[0]]) if len(carried) == 1 else
                                            "(" + " * ".join(gty(types[n]) for n in carried) + ")%type")

        def head(bs):
            if not carried:
                return "fun (_ : unit)", ""
            if len(carried) == 1:
                return "fun (%s : %s)" % (bs[0], stype), ""
            st = self.tmp("st")
            return "fun (%s : %s)" % (st, stype), "let '(%s) := %s in " % (", ".join(bs), st)
        init_vals = [self.coerce(env[n], types[n]).term for n in carried]
        init = "tt" if not carried else (init_vals[0] if len(carried) == 1 else "(" + ", ".join(init_vals) + ")")
        # after the loop
        env_a = {k2: v for k2, v in env.items() if k2 not in tnames}
        st_ = frozenset(env.get("$stored", ())).union(*[frozenset(e.get("$stored", ())) for e in ends]) if ends else frozenset(env.get("$stored", ()))
        if st_:
            env_a["$stored"] = st_
        outs = []
        for n in carried:
            g = self.gname(n)
            outs.append(g)
            env_a[n] = V(g, types[n], env_b[n].oid, extra={})
        if not carried:
            opat, olet = "_", ""
        elif len(carried) == 1:
            opat, olet = outs[0], ""
        else:
            st = self.tmp("st")
            opat, olet = st, "let '(%s) := %s in\n  " % (", ".join(outs), st)
        r = self.tmp("r")
        self.exits += 1
        after = olet + nxt(env_a)
        if is_for:
            h, l = head(binders)
            hp = pat
            term = ("match py_for (%s %s => %s\n    %s)\n    %s %s with\n  | inl %s => %s\n  | inr %s => %s\n  end" % (
                h, hp, l, body, it.term, init, opat, after, r, ctx.leave(r)))
        else:
            hc, lc = head(cond_binders)
            h, l = head(binders)
            term = ("match py_while fuel (%s => %s%s)\n    (%s => %s\n    %s)\n    %s with\n  | None => %s\n"
                    "  | Some (inl %s) => %s\n  | Some (inr %s) => %s\n  end" % (
                        hc, lc, cond_term, h, l, body, init, ctx.leave("OutOfFuel"), opat, after, r, ctx.leave(r)))
        return self.wrap(ctx, term, h0)


# ------------------------------------------------------------------------------------------------------
# targets
# ------------------------------------------------------------------------------------------------------
EXH = "pabutools/rules/exhaustion.py"
COMP = "pabutools/rules/composition.py"
GREEDY = "pabutools/rules/greedywelfare/greedywelfare_rule.py"
PHRAG = "pabutools/rules/phragmen.py"


def _sig(mode_t):
    """parameter types by name; mode_t = what a wrapped rule returns"""
    return {
        "instance": INST, "profile": PROFILE, "sat_class": SATCLASS,
        "rule": Rule(mode_t), "rule_sequence": List(Rule(mode_t)),
        "initial_budget_allocation": Opt(ALLOC),
        "exhaustive_stop": B, "budget_step": Opt(Q), "budget_bound": Opt(Q),
        "sat_profile": GROUPSAT, "budget_allocation": ALLOC, "tie_breaking": TIEBREAK,
    }


# (file, function, modes, type of rule_params)
TARGETS = [
    (EXH, "completion_by_rule_combination", (True, False), Opt(List(KW))),
    (EXH, "exhaustion_by_budget_increase", (True, False), Opt(KW)),
    (COMP, "popularity_comparison", (None,), Opt(List(KW))),
    (COMP, "social_welfare_comparison", (None,), Opt(List(KW))),
    # the additive fast path of the greedy rule: resolute (the irresolute call is delegated to the general scheme),
    # analytics switched off (the details object is not modelled)
    (GREEDY, "greedy_utilitarian_scheme_additive", ("greedy",), None),
    # Phragmen's sequential rule (recursive inner function, voters as objects with a mutable load)
    (PHRAG, "sequential_phragmen", (True, False), "phragmen"),
]
FLAGS = {"greedy": {"resoluteness": True, "analytics": False}}
# per-target parameter types that differ from the common table
SIG_OVERRIDES = {"phragmen": {"profile": APROFILE, "initial_loads": Opt(List(Q)), "tie_breaking": Opt(TIEBREAK)}}


class Def:
    def __init__(self, name, comment):
        self.name, self.comment = name, comment
        self.params, self.body, self.rtype, self.error, self.alias = [], None, None, None, []


ORIGIN_TERM = {"fresh": "Fresh", "rule": "RuleResult"}


def translate_function(node, fname, mode, kw_type, module_names=(), classes=None):
    """-> (params [(gallina name, gallina type)], body term, result type, alias table)"""
    a = node.args
    if a.vararg or a.kwarg or a.kwonlyargs or a.posonlyargs or node.decorator_list:
        raise Unsupported("signature outside the fragment")
    fixed = set()
    if mode in FLAGS:
        for fl, val in FLAGS[mode].items():
            if fl not in [x.arg for x in a.args]:
                raise Unsupported("no parameter `%s`" % fl)
            node = specialise(node, fl, val)
            fixed.add(fl)
        mode = None
    if mode is not None:
        if "resoluteness" not in [x.arg for x in a.args]:
            raise Unsupported("no parameter `resoluteness`")
        node = specialise(node, "resoluteness", mode)
    sig = _sig(ALLOC if mode in (True, None) else List(ALLOC))
    if isinstance(kw_type, str):
        sig.update(SIG_OVERRIDES[kw_type])
    else:
        sig["rule_params"] = kw_type
    pnames = [x.arg for x in node.args.args if not (mode is not None and x.arg == "resoluteness") and x.arg not in fixed]
    defaults = {}
    allp = [x.arg for x in node.args.args]
    for p, d in zip(allp[len(allp) - len(a.defaults):], a.defaults):
        defaults[p] = d
    for p in pnames:
        if p not in sig:
            raise Unsupported("unknown parameter %s" % p)
        if is_opt(sig[p]) and not (p in defaults and isinstance(defaults[p], ast.Constant) and defaults[p].value is None):
            raise Unsupported("parameter %s no longer defaults to None" % p)
    rtype = None
    for attempt in range(4):
        tr = Translator(fname, mode)
        tr.rtype = rtype
        tr.loaded = {n.id for st in node.body for n in ast.walk(st) if isinstance(n, ast.Name) and isinstance(n.ctx, ast.Load)}
        tr.module_names = set(module_names)
        tr.classes = dict(classes or {})
        # names read only through an attribute / subscript / method call count as read as well
        env, gparams = {}, []
        for p in pnames:
            g = tr.gname(p)
            t = sig[p]
            oid = None
            if is_object(t):
                oid = tr.new_obj(("param", p), ("elem", p))
            env[p] = V(g, t, oid, extra={"param": True})
            tr.loaded.add(p)
            tr.note_binding(p, env[p])
            gparams.append((g, gty(t)))
        tr.params = list(pnames)

        def top_fall(env2):
            raise Unsupported("the function can end without `return` (returns None)")
        try:
            body = tr.block(node.body, env, Ctx(top_fall, lambda r: r))
        except _Retry:
            rtype = tr.rtype
            continue
        if tr.hoists:
            raise Unsupported("internal: pending hoists")
        body = tr.finish(body)
        break
    else:
        raise Unsupported("the return type does not stabilise")
    if tr.rtype is None:
        raise Unsupported("the function never returns")
    for x in sorted(tr.extras):
        gparams.append((x, tr.extras[x]))
    if tr.uses_fuel:
        gparams.append(("fuel", "nat"))
    # aliasing table; a mutated object whose origin cannot be classified fails closed
    for oid, o in tr.objs.items():
        if o.mutated and tr.origin_of(oid) in (UNKNOWN, RULERES):
            raise Unsupported("in-place mutation of an object whose origin cannot be classified (the result of a "
                              "wrapped rule may be one of the caller's objects)")
    table = []
    for name in sorted(tr.bound, key=lambda n: tr.order.get(n, 10 ** 6)):
        rows = []
        for o in sorted(tr.bound[name], key=lambda x: (x == "scalar", x if x != "scalar" else 0)):
            if o == "scalar":
                row = (name, "Scalar", False)
            else:
                org, mut = tr.origin_of(o), tr.objs[o].mutated
                if org == UNKNOWN:
                    if mut:
                        raise Unsupported("in-place mutation of an object whose origin cannot be classified")
                    org = RULERES
                if org[0] == "param":
                    ot = "(AliasOf %s)" % coq_string(org[1])
                elif org[0] == "elem":
                    ot = "(ElemOf %s)" % coq_string(org[1])
                else:
                    ot = ORIGIN_TERM[org[0]]
                row = (name, ot, mut)
            if row not in rows:
                rows.append(row)
        table.extend(sorted(rows, key=lambda r: (r[1], r[2])))
    return gparams, body, tr.rtype, table


class World:
    def __init__(self, repo):
        self.repo = repo
        self.defs = []
        self.errors = []
        trees = {}
        for rel in (EXH, COMP, GREEDY, PHRAG):
            try:
                path = os.path.join(repo, rel)
                trees[rel] = ast.parse(open(path).read(), filename=path)
            except Exception as e:
                trees[rel] = ast.Module(body=[], type_ignores=[])
                self.errors.append("%s: %r" % (rel, e))
        for rel, fname, modes, kwt in TARGETS:
            node = None
            for n in trees[rel].body:
                if isinstance(n, ast.FunctionDef) and n.name == fname:
                    node = n
            for mode in modes:
                suffix = {True: "_res", False: "_irr", None: ""}.get(mode, "")
                d = Def("gen_" + fname + suffix, "")
                d.rel = rel
                self.defs.append(d)
                d.alias_name = "gen_alias_" + fname + suffix
                if node is None:
                    d.error = "function %s not found in %s" % (fname, rel)
                    d.comment = rel
                    continue
                d.comment = "%s:%d %s%s\n%s" % (rel, node.lineno, fname,
                                                  "" if mode is None else (" with resoluteness=%s" % mode if mode in (True, False)
                                                                           else " with " + ", ".join("%s=%s" % kv for kv in FLAGS[mode].items())),
                                                  ast.unparse(_strip_docstrings(node)))
                try:
                    names, classes = set(), {}
                    for st in trees[rel].body:
                        if isinstance(st, ast.ImportFrom) and st.module in ("math", "pabutools.tiebreaking"):
                            names |= {al.asname or al.name for al in st.names}
                        if isinstance(st, ast.ClassDef) and not st.bases and not st.decorator_list:
                            classes[st.name] = st
                    d.params, d.body, d.rtype, d.alias = translate_function(node, fname, mode, kwt, names, classes)
                    d.rt = gty(d.rtype)
                except Unsupported as e:
                    d.error = str(e)
                except RecursionError:
                    d.error = "expression too deep"
                except Exception as e:       # any defect of the translator itself also fails closed
                    d.error = "translator error: %r" % (e,)

    def render(self):
        L = ["(* Generated/PyCtrl.v -- REGENERATED from the Python source on every run by harness/vharness/pytrans_ctrl.py.",
             "   Do not edit.  One definition per translated function (state-passing translation of the imperative",
             "   wrappers), over the vocabulary of Model/PyCtrlPrims.v; [Untranslated] marks a function whose source left",
             "   the translated fragment.  X = the opaque part of a keyword dictionary, SC = the satisfaction class. *)",
             "From Coq Require Import String.", "From PB Require Import Model.PyCtrlPrims.", "Open Scope Q_scope.", "",
             "Section Gen.", "Context {X SC : Type}.", ""]
        for e in self.errors:
            L.append("(* SOURCE FILE NOT READABLE: %s *)" % _comment_safe(e))
        failed = []
        by_file = {EXH: [], COMP: [], GREEDY: [], PHRAG: []}
        for d in self.defs:
            L.append("(* " + _comment_safe(d.comment) + " *)")
            if d.error is not None:
                failed.append(d.name)
                by_file[d.rel].append(d.name)
                reason = d.error.replace('"', "'").replace("\n", " ")
                reason = "".join(ch if ch.isascii() else "?" for ch in reason)
                L.append('Definition %s : py_untranslated := Untranslated "%s".' % (d.name, reason[:300]))
                L.append('Definition %s : py_untranslated := Untranslated "%s".' % (d.alias_name, reason[:300]))
            else:
                ps = "".join(" (%s : %s)" % p for p in d.params)
                L.append("Definition %s%s : py_res %s :=\n  %s." % (d.name, ps, d.rt, d.body))
                items = ["mkAlias %s %s %s" % (coq_string(n), o, "true" if m else "false") for n, o, m in d.alias]
                L.append("(* what every variable of the function is bound to, and whether that object is mutated in place *)")
                L.append("Definition %s : list py_alias :=\n  [%s]." % (d.alias_name, ";\n   ".join(items)))
            L.append("")
        L.append("End Gen.")
        for rel, nm in ((EXH, "exhaustion"), (COMP, "composition"), (GREEDY, "greedy"), (PHRAG, "phragmen")):
            L.append("Definition gen_untranslated_%s : list string := [%s]." % (nm, "; ".join(coq_string(x) for x in by_file[rel])))
        return "\n".join(L) + "\n"


def generate(repo):
    w = World(repo)
    return w.render(), w


def regenerate(repo, coq):
    """write coq/theories/Generated/PyCtrl.v (only when its content changes, so that make stays a no-op)"""
    txt, _ = generate(repo)
    path = os.path.join(coq, "theories", "Generated", "PyCtrl.v")
    os.makedirs(os.path.dirname(path), exist_ok=True)
    old = open(path).read() if os.path.exists(path) else None
    if old != txt:
        with open(path, "w") as f:
            f.write(txt)
    return path


if __name__ == "__main__":
    import sys
    repo = sys.argv[1] if len(sys.argv) > 1 else os.environ.get("VERIF_REPO", "/repo")
    if len(sys.argv) > 2:
        print(regenerate(repo, sys.argv[2]))
    else:
        print(generate(repo)[0])
