"""Fail-closed translator: Python source of the C20 entry points -> effect summaries (Model/Effects.v).

For every entry point of property C20 this module runs a small points-to / effect analysis over the
`ast` of /repo's source and renders the result as a program of the effect language of
coq/theories/Model/Effects.v into coq/theories/Generated/EffectSummaries.v (REGENERATED ON EVERY RUN).
Props/C20gen.v then proves, by evaluating the verified test `writes_only_fresh` on the regenerated
summaries, that every entry point leaves the caller's view unchanged -- so an edit of the Python that
makes a rule write into an object it was handed breaks the theorem.

The analysis (trusted, described in DESIGN.md "C20: the effect translator"):

* abstract objects ("regions"): ("P", i) the object bound to parameter i of the summarised function,
  ("D", i) everything reachable from it, ("L", site) the object allocated at a source position (a
  constructor call, literal, comprehension, copy/deepcopy/dict()/list()/set(), slice, concatenation, the
  result of an allow-listed library call).  A value is a set of regions (empty = None or an immutable
  scalar) + "may be None" + "is a number".
* local names are tracked flow-sensitively (strong updates on assignment, union at joins, loop fixpoints,
  `x is None` tests refine x); the heap (region -> field -> regions, with '*' = elements and '?' = any
  field) is flow-insensitive and only grows; the whole function is re-run until nothing changes.
* every statement that writes THROUGH a name is recorded against all regions the name may denote:
  attribute / subscript assignment, augmented assignment, `del x[k]`, mutating method calls
  (MUTATORS) -- and calls: functions and classes of the analysed modules are either inlined (analysed
  again with the caller's abstract arguments, recursion cut by a fixpoint on the abstract arguments) or,
  when the callee is itself an entry point that writes at most into the TOP-LEVEL object of its parameters,
  emitted as a by-reference `SCall` that the Coq checker follows.
* a call of anything else must be in one of the allow-lists below; everything that is not recognised
  raises EffectError, which breaks the build and therefore every check.
"""
from __future__ import annotations

import ast
import os
import re


class EffectError(Exception):
    pass


# ------------------------------------------------------------------------------------------------
# scope

MODULES = {
    "greedywelfare_rule": "pabutools/rules/greedywelfare/greedywelfare_rule.py",
    "greedywelfare_details": "pabutools/rules/greedywelfare/greedywelfare_details.py",
    "maxwelfare": "pabutools/rules/maxwelfare.py",
    "mes_rule": "pabutools/rules/mes/mes_rule.py",
    "mes_details": "pabutools/rules/mes/mes_details.py",
    "phragmen": "pabutools/rules/phragmen.py",
    "exhaustion": "pabutools/rules/exhaustion.py",
    "composition": "pabutools/rules/composition.py",
    "mesanalytics": "pabutools/analysis/mesanalytics.py",
    "budgetallocation": "pabutools/rules/budgetallocation.py",
}

# (function, work parameters).  A work parameter is an object the function is SPECIFIED to write into (the
# running allocation / voters / projects of the inner Equal Shares recursion, the allocation the Equal
# Shares scheme completes with zero-cost projects, the item list the knapsack search sorts, its solution
# vectors).  Public rules, wrappers, comparisons and analyses have none.
ENTRIES = [
    ("greedy_utilitarian_welfare", ()),
    ("greedy_utilitarian_scheme", ()),
    ("greedy_utilitarian_scheme_additive", ()),
    ("max_additive_utilitarian_welfare", ()),
    ("max_additive_utilitarian_welfare_ilp_scheme", ()),
    ("max_additive_utilitarian_welfare_primal_dual_scheme", ()),
    ("primal_dual_branch", ("items",)),
    ("primal_dual_branch_impl", ("x", "lower_bound", "a_star", "b_star")),
    ("method_of_equal_shares", ()),
    ("method_of_equal_shares_scheme", ("initial_budget_allocation",)),
    ("mes_inner_algo", ("voters", "projects", "current_alloc", "all_allocs")),
    ("sequential_phragmen", ()),
    ("completion_by_rule_combination", ()),
    ("exhaustion_by_budget_increase", ()),
    ("popularity_comparison", ()),
    ("social_welfare_comparison", ()),
    ("calculate_project_loss", ()),
    ("calculate_effective_support", ()),
    ("calculate_effective_supports", ()),
]
ENTRY_NAMES = [e[0] for e in ENTRIES]

# A call through a parameter named `rule` (exhaustion.py, composition.py: the caller-supplied rule
# functions) is a call of ANY of these (assumption, stated in DESIGN.md).
CALLABLE_PARAMS = {"rule"}
RULE_UNIVERSE = ["greedy_utilitarian_welfare", "max_additive_utilitarian_welfare", "method_of_equal_shares",
                 "sequential_phragmen"]

# Statement-level exceptions: (function, ast.unparse of the statement) -> (tag, must_be_present).
# The writes of such a statement are left out of `summary_<entry>` and kept in `summary_<entry>_full`.
EXCEPTIONS = {
    # documented override: calculate_effective_supports(final_budget=...) is specified to replace the budget
    ("calculate_effective_supports", "instance.budget_limit = final_budget"): ("final_budget_override", True),
}

# ------------------------------------------------------------------------------------------------
# allow-lists (everything else that is called must be a function / class / method of MODULES)

# methods that write into their receiver (builtin list / dict / set protocol)
MUTATORS = {"append", "extend", "insert", "remove", "pop", "clear", "update", "setdefault", "sort", "reverse",
            "add", "discard", "__setitem__", "popitem", "__delitem__", "difference_update",
            "intersection_update", "symmetric_difference_update", "__iadd__", "__imul__"}
MUTATORS_RETURNING_ELEMENT = {"pop", "popitem", "setdefault"}
MUTATORS_STORING_ELEMENTS = {"extend", "update", "__iadd__"}
# python-mip: Model.add_var / Model.optimize write into the (locally built) model object
LIB_RECEIVER_WRITERS = {"add_var": "fresh", "optimize": "scalar"}

# Methods of library / pabutools.election objects that do not write into their receiver or arguments.
# Justification: builtin container readers; pabutools/election/{instance,profile/*,ballot/*}.py and
# tiebreaking.py implement the named methods without assignments to self or to their arguments (C17 proves
# the containers' value semantics, the C20 snapshot correspondence exercises every one of them on every
# run); the four satisfaction queries fill the memoisation caches AdditiveSatisfaction.scores and are
# modelled as the memo effect (SMemo), which Props/C20.v C20_memo_transparent shows unobservable.
PURE_METHODS = {
    "multiplicity": "scalar", "num_ballots": "scalar", "approval_score": "scalar", "is_feasible": "scalar",
    "is_exhaustive": "scalar", "index": "scalar", "count": "scalar", "format": "scalar", "__repr__": "scalar",
    "__str__": "scalar",
    "sat": "memo", "sat_project": "memo", "total_satisfaction": "memo", "total_satisfaction_project": "memo",
    "keys": "view", "values": "view", "items": "view", "copy": "view", "difference": "view", "union": "view",
    "intersection": "view",
    "get": "get",
    "order": "order",                  # TieBreakingRule.order(instance, profile, projects) -> new list
    "as_sat_profile": "derived",       # new SatisfactionProfile referring to the instance / profile / ballots
}

# free functions: numbers
NUM_FUNCS = {"len", "sum", "int", "float", "frac", "total_cost", "abs"}
# free functions: other immutable results (mip expressions are immutable values)
SCALAR_FUNCS = {"isinstance", "issubclass", "hasattr", "any", "all", "str", "repr", "bool", "print", "range",
                "ValueError", "RuntimeError", "xsum", "maximize"}
# library constructors of fresh objects that keep no reference we care about
LIB_CONSTRUCTORS = {"Model"}
# explicit base-class initialisers `X.__init__(self, ...)` of library classes: store their arguments in self
# Project.__init__(self, name, cost, categories, targets) (election/instance.py:65-79) assigns exactly these
# attributes; list.__init__(self, iterable) takes the elements of the iterable
LIB_INITS = {"Project": ("name", "cost", "categories", "targets"), "list": None}
SCALAR_ANNOTATIONS = {"Numeric": True, "int": True, "float": True, "bool": False, "str": False}
COPY_HOOKS = {"__deepcopy__", "__copy__"}


# ------------------------------------------------------------------------------------------------
# abstract values

class Val:
    __slots__ = ("regions", "none", "num", "fn")

    def __init__(self, regions=(), none=False, num=False, fn=None):
        self.regions = frozenset(regions)
        self.none = none
        self.num = num and not self.regions
        self.fn = fn          # ('closure', FunctionDef, Frame) | ('lambda', Lambda, Frame) | None

    def key(self):
        return (tuple(sorted(self.regions)), self.none, self.num, id(self.fn[1]) if self.fn else None)

    def __eq__(self, other):
        return isinstance(other, Val) and self.key() == other.key()

    def __hash__(self):
        return hash(self.key())


BOTTOM = Val((), False, True)
NONE = Val((), True, False)
SCALAR = Val((), False, False)
NUM = Val((), False, True)


def join(a: Val, b: Val) -> Val:
    if a is BOTTOM:
        return b
    if b is BOTTOM:
        return a
    return Val(a.regions | b.regions, a.none or b.none, a.num and b.num, a.fn or b.fn)


def join_all(vals):
    out = BOTTOM
    for v in vals:
        out = join(out, v)
    return out


class Frame:
    def __init__(self, func, mod, env, parent=None, cls=None):
        self.func = func        # name of the function whose body this is (for EXCEPTIONS and messages)
        self.mod = mod          # ModuleInfo
        self.env = env
        self.parent = parent
        self.cls = cls
        self.returns = []
        self.assume = {}        # parameter name -> assumed truthiness (case split, see Summarizer.split_flags)

    def truth(self, name):
        f = self
        while f is not None:
            if name in f.env:
                return f.assume.get(name)
            f = f.parent
        return None

    def lookup(self, name):
        f = self
        while f is not None:
            if name in f.env:
                return f.env[name]
            f = f.parent
        return None

    def is_local(self, name):
        return self.lookup(name) is not None


class ModuleInfo:
    def __init__(self, short, rel, tree):
        self.short = short
        self.rel = rel
        self.tree = tree
        self.globals = set()
        for node in tree.body:
            if isinstance(node, (ast.Import, ast.ImportFrom)):
                for a in node.names:
                    self.globals.add((a.asname or a.name).split(".")[0])
            elif isinstance(node, (ast.FunctionDef, ast.ClassDef)):
                self.globals.add(node.name)
            elif isinstance(node, ast.Assign):
                for t in node.targets:
                    if isinstance(t, ast.Name):
                        self.globals.add(t.id)


class ClassInfo:
    def __init__(self, mod, node):
        self.mod = mod
        self.node = node
        self.name = node.name
        self.bases = []
        for b in node.bases:
            if isinstance(b, ast.Subscript):
                b = b.value
            if not isinstance(b, ast.Name):
                raise EffectError("class %s: unsupported base expression" % node.name)
            self.bases.append(b.id)
        self.methods = {}
        self.properties = {}
        for st in node.body:
            if isinstance(st, ast.FunctionDef):
                decos = [ast.unparse(d) for d in st.decorator_list]
                if decos == ["property"]:
                    self.properties[st.name] = st
                elif decos == ["classmethod"] or decos == ["staticmethod"]:
                    continue          # never dispatched to; a call of one is an unknown method -> raises
                elif decos:
                    raise EffectError("class %s: unsupported decorator on %s" % (node.name, st.name))
                else:
                    self.methods[st.name] = st
            elif isinstance(st, (ast.Expr, ast.Pass)):
                continue
            elif isinstance(st, (ast.Assign, ast.AnnAssign)):
                v = st.value
                if v is not None and not isinstance(v, (ast.Constant, ast.Tuple)):
                    raise EffectError("class %s: unsupported class-level assignment" % node.name)
            else:
                raise EffectError("class %s: unsupported class-level statement %s" % (node.name, type(st).__name__))


class Summary:
    def __init__(self, name, params, work, effects, sites, ret, deep_writes):
        self.name = name
        self.params = params
        self.work = work
        self.effects = effects        # list of effect tuples in discovery order
        self.sites = sites            # ordered {region: ('new',) | ('copy', regions)}
        self.ret = ret
        self.deep_writes = deep_writes
        self.pwrites = {e[1][1] for e in effects if e[0] == "w" and e[1][0] == "P"}
        self.tagged = any(e[0] == "w" and e[4] for e in effects)

    def scallable(self):
        return not self.deep_writes and not self.tagged


# ------------------------------------------------------------------------------------------------

class Analyzer:
    def __init__(self, repo):
        self.repo = repo
        self.mods = {}
        self.funcs = {}      # top-level function name -> (ModuleInfo, FunctionDef)
        self.classes = {}    # class name -> ClassInfo
        for short, rel in MODULES.items():
            path = os.path.join(repo, rel)
            try:
                tree = ast.parse(open(path).read(), filename=path)
            except (OSError, SyntaxError) as e:
                raise EffectError("cannot read %s: %s" % (rel, e))
            mi = ModuleInfo(short, rel, tree)
            self.mods[short] = mi
            for node in tree.body:
                if isinstance(node, ast.FunctionDef):
                    if node.name in self.funcs:
                        raise EffectError("duplicate top-level function " + node.name)
                    if node.decorator_list:
                        raise EffectError("decorated function " + node.name)
                    self.funcs[node.name] = (mi, node)
                elif isinstance(node, ast.ClassDef):
                    if node.name in self.classes:
                        raise EffectError("duplicate class " + node.name)
                    if node.decorator_list:
                        raise EffectError("decorated class " + node.name)
                    self.classes[node.name] = ClassInfo(mi, node)
        self.method_table = {}
        self.property_table = {}
        for ci in self.classes.values():
            for m, fd in ci.methods.items():
                self.method_table.setdefault(m, []).append((ci, fd))
            for m, fd in ci.properties.items():
                self.property_table.setdefault(m, []).append((ci, fd))
        self._check_copy_hooks()
        for name in ENTRY_NAMES:
            if name not in self.funcs:
                raise EffectError("entry point %s not found in the analysed modules" % name)
        for (fn, _txt) in EXCEPTIONS:
            if fn not in self.funcs:
                raise EffectError("exception table names unknown function " + fn)
        self.summaries = {}
        self.in_progress = []
        self.matched_exceptions = set()
        self._check_implicit_dunders()

    IMPLICIT = {"__eq__", "__ne__", "__hash__", "__lt__", "__le__", "__gt__", "__ge__", "__contains__", "__repr__",
                "__str__", "__bool__", "__len__", "__iter__", "__getitem__", "__format__"}

    def _check_implicit_dunders(self):
        """`==`, `in`, sorting, hashing, printing call these without a visible call: in the analysed classes they
        must not write anywhere (not even into self)"""
        for ci in self.classes.values():
            for m, fd in ci.methods.items():
                if m in self.IMPLICIT:
                    self.in_progress.append("%s.%s" % (ci.name, m))
                    try:
                        summ = Summarizer(self, "%s.%s" % (ci.name, m), method=(ci, fd)).run()
                    finally:
                        self.in_progress.pop()
                    if any(e[0] == "w" for e in summ.effects):
                        raise EffectError("%s.%s (called implicitly) writes through a reference" % (ci.name, m))

    def _check_copy_hooks(self):
        """copy()/deepcopy() are modelled as standard except for the hooks of the analysed classes (which are
        analysed): no other class of the package may define one."""
        root = os.path.join(self.repo, "pabutools")
        analysed = {os.path.join(self.repo, rel) for rel in MODULES.values()}
        for dp, _dn, fns in os.walk(root):
            for fn in fns:
                if not fn.endswith(".py"):
                    continue
                path = os.path.join(dp, fn)
                if path in analysed:
                    continue
                try:
                    tree = ast.parse(open(path).read(), filename=path)
                except SyntaxError as e:
                    raise EffectError("cannot parse %s: %s" % (path, e))
                for node in ast.walk(tree):
                    if isinstance(node, ast.FunctionDef) and node.name in COPY_HOOKS:
                        raise EffectError("%s defines %s outside the analysed modules" % (path, node.name))

    def summary(self, name) -> Summary:
        if name not in self.summaries:
            if name in self.in_progress:
                raise EffectError("internal: recursive summary request for " + name)
            self.in_progress.append(name)
            try:
                self.summaries[name] = Summarizer(self, name).run()
            finally:
                self.in_progress.pop()
        return self.summaries[name]


def _params(fd: ast.FunctionDef):
    a = fd.args
    if a.vararg or a.kwarg:
        raise EffectError("%s: *args / **kwargs parameters are not supported" % fd.name)
    names = [x.arg for x in a.posonlyargs + a.args + a.kwonlyargs]
    pos = a.posonlyargs + a.args
    defaults = {}
    for x, d in zip(pos[len(pos) - len(a.defaults):], a.defaults):
        defaults[x.arg] = d
    for x, d in zip(a.kwonlyargs, a.kw_defaults):
        if d is not None:
            defaults[x.arg] = d
    annots = {x.arg: x.annotation for x in a.posonlyargs + a.args + a.kwonlyargs}
    npos = len(pos)
    return names, defaults, annots, npos


class Summarizer:
    MAX_PASSES = 40

    def __init__(self, an: Analyzer, root: str, method=None):
        self.an = an
        self.root = root
        if method is None:
            self.mod, self.fd = an.funcs[root]
            self.root_cls = None
        else:
            self.root_cls, self.fd = method
            self.mod = self.root_cls.mod
        self.heap = {}
        self.effects = {}
        self.sites = {}
        self.site_class = {}
        self.ret_cache = {}
        self.active = []
        self.done_pass = {}
        self.exc = []
        self.deep_writes = False
        self.changed = False
        self.ctx = []           # case-split context of the frames being analysed (part of allocation-site names)
        self._flags = {}

    # -- heap --------------------------------------------------------------------------------
    def field(self, regions, name):
        out = set()
        for r in regions:
            h = self.heap.get(r)
            if h:
                out.update(h.get(name, ()))
                out.update(h.get("?", ()))
        return frozenset(out)

    def elems(self, v: Val) -> Val:
        return Val(self.field(v.regions, "*"), True, False)

    def store(self, regions, name, targets):
        targets = frozenset(targets)
        if not targets:
            return
        for r in regions:
            h = self.heap.setdefault(r, {})
            cur = h.get(name, frozenset())
            if not targets <= cur:
                h[name] = cur | targets
                self.changed = True

    def below(self, regions):
        seen = set()
        todo = list(regions)
        while todo:
            r = todo.pop()
            for tg in self.heap.get(r, {}).values():
                for t in tg:
                    if t not in seen:
                        seen.add(t)
                        todo.append(t)
        return frozenset(seen)

    def shallow_from(self, site, regions):
        for r in regions:
            for f, tg in list(self.heap.get(r, {}).items()):
                self.store([site], f, tg)

    def new_site(self, fr: Frame, node, tag, kind=("new",)):
        r = ("L", "%s:%d:%d:%s%s" % (fr.mod.short, node.lineno, node.col_offset, tag,
                                     "@" + ",".join(self.ctx) if self.ctx else ""))
        if r not in self.sites:
            self.sites[r] = kind
            self.changed = True
        elif kind[0] == "copy" and self.sites[r][0] == "copy" and not kind[1] <= self.sites[r][1]:
            self.sites[r] = ("copy", self.sites[r][1] | kind[1])
        return r

    # -- effects -----------------------------------------------------------------------------
    def effect(self, e):
        if e not in self.effects:
            self.effects[e] = None
            self.changed = True

    def write(self, fr: Frame, regions, kind, node):
        tag = self.exc[-1] if self.exc else None
        for r in sorted(regions):
            if r[0] == "D":
                self.deep_writes = True
            self.effect(("w", r, kind, "%s:%d" % (fr.mod.short, node.lineno), tag))

    def memo(self, fr, regions, node):
        for r in sorted(regions):
            self.effect(("m", r, "%s:%d" % (fr.mod.short, node.lineno)))

    def guard_global_write(self, fr: Frame, expr):
        """a write whose target expression starts at a module-level name cannot be attributed: fail closed"""
        e = expr
        while isinstance(e, (ast.Attribute, ast.Subscript)):
            e = e.value
        if isinstance(e, ast.Name) and not fr.is_local(e.id):
            raise EffectError("%s:%d: write through the module-level name %s" % (fr.mod.rel, expr.lineno, e.id))

    # -- case split on flags -----------------------------------------------------------------
    def split_flags(self, fd):
        """Parameters on whose truthiness the analysis of fd is split into two separate runs (with separate
        allocation sites): those used as the bare test of a conditional EXPRESSION `a if flag else b` and never
        re-bound in fd.  Sound for any choice (a parameter that is never re-bound is either truthy or falsy for
        the whole call); needed where a value and a later branch depend on the same flag
        (`BudgetAllocation(x, Details() if analytics else None)` ... `if analytics: alloc.details.attr = 0`)."""
        if id(fd) not in self._flags:
            names, _d, _a, _n = _params(fd)
            tested = {n.test.id for n in ast.walk(fd) if isinstance(n, ast.IfExp) and isinstance(n.test, ast.Name)}
            stored = {n.id for n in ast.walk(fd) if isinstance(n, ast.Name) and not isinstance(n.ctx, ast.Load)}
            stored |= {a.arg for n in ast.walk(fd) if isinstance(n, (ast.FunctionDef, ast.Lambda)) and n is not fd
                       for a in n.args.posonlyargs + n.args.args + n.args.kwonlyargs}
            flags = [n for n in names if n in tested and n not in stored]
            if len(flags) > 3:
                raise EffectError("%s: too many case-split flags" % fd.name)
            self._flags[id(fd)] = flags
        return self._flags[id(fd)]

    def run_body(self, fd, make_frame):
        """execute fd's body once per truth assignment of its split flags; -> list of returned values"""
        flags = self.split_flags(fd)
        combos = [{}]
        for fl in flags:
            combos = [dict(c, **{fl: b}) for c in combos for b in (True, False)]
        rets = []
        for c in combos:
            label = ",".join("%s=%s" % (k, "T" if v else "F") for k, v in c.items())
            if label:
                self.ctx.append(label)
            try:
                fr = make_frame()
                fr.assume = c
                self.exec_block(fd.body, fr)
                rets += fr.returns
            finally:
                if label:
                    self.ctx.pop()
        return rets

    @staticmethod
    def flag_test(test):
        """(name, polarity) for the tests `name` and `not name`"""
        if isinstance(test, ast.Name):
            return test.id, True
        if isinstance(test, ast.UnaryOp) and isinstance(test.op, ast.Not) and isinstance(test.operand, ast.Name):
            return test.operand.id, False
        return None

    def known_truth(self, test, fr):
        ft = self.flag_test(test)
        if ft is None:
            return None
        t = fr.truth(ft[0])
        if t is None:
            return None
        return t if ft[1] else not t

    # -- driver ------------------------------------------------------------------------------
    def run(self) -> Summary:
        names, _defaults, annots, _npos = _params(self.fd)
        work = dict(ENTRIES).get(self.root, ())
        for w in work:
            if w not in names:
                raise EffectError("%s: work parameter %s does not exist" % (self.root, w))
        ret = BOTTOM
        for _pass in range(self.MAX_PASSES):
            self.changed = False
            self.done_pass = {}
            env = {}
            for i, n in enumerate(names):
                ann = annots.get(n)
                txt = re.sub(r"\s*\|\s*None$", "", ast.unparse(ann)) if ann is not None else None
                if txt in SCALAR_ANNOTATIONS:
                    env[n] = Val((), True, SCALAR_ANNOTATIONS[txt])    # immutable (or None): no region
                else:
                    env[n] = Val([("P", i)], True, False)
                    self.store([("P", i)], "?", [("D", i)])
                    self.store([("D", i)], "?", [("D", i)])
            key = (id(self.fd), tuple((n, env[n].key()) for n in names), "")
            self.active = [key]
            self.ctx = []
            r = join_all(self.run_body(self.fd, lambda: Frame(self.fd.name, self.mod, dict(env), None, self.root_cls)))
            if r != ret:
                ret = join(ret, r)
                self.changed = True
            if not self.changed:
                break
        else:
            raise EffectError("%s: no fixpoint after %d passes" % (self.root, self.MAX_PASSES))
        return Summary(self.root, names, work, list(self.effects), dict(self.sites), ret, self.deep_writes)

    # -- statements --------------------------------------------------------------------------
    def exec_block(self, stmts, fr: Frame):
        for st in stmts:
            self.exec_stmt(st, fr)

    def exec_stmt(self, st, fr: Frame):
        tagged = False
        if isinstance(st, (ast.Assign, ast.AugAssign, ast.AnnAssign, ast.Expr, ast.Delete)):
            k = (fr.func, ast.unparse(st))
            if k in EXCEPTIONS:
                self.exc.append(EXCEPTIONS[k][0])
                self.an.matched_exceptions.add(k)
                tagged = True
        try:
            self._exec_stmt(st, fr)
        finally:
            if tagged:
                self.exc.pop()

    def _exec_stmt(self, st, fr: Frame):
        if isinstance(st, ast.Expr):
            self.eval(st.value, fr)
        elif isinstance(st, ast.Assign):
            v = self.eval(st.value, fr)
            for t in st.targets:
                self.assign(t, v, fr, st.value)
        elif isinstance(st, ast.AnnAssign):
            if st.value is not None:
                self.assign(st.target, self.eval(st.value, fr), fr, st.value)
        elif isinstance(st, ast.AugAssign):
            self.augassign(st, fr)
        elif isinstance(st, ast.If):
            self.exec_if(st, fr)
        elif isinstance(st, ast.For):
            it = self.eval(st.iter, fr)
            self.exec_loop(fr, st.body, st.orelse, bind=lambda: self.bind_iter(st.target, st.iter, it, fr))
        elif isinstance(st, ast.While):
            self.exec_loop(fr, st.body, st.orelse, test=st.test)
        elif isinstance(st, ast.Return):
            fr.returns.append(self.eval(st.value, fr) if st.value is not None else NONE)
        elif isinstance(st, ast.Raise):
            if st.exc is not None:
                self.eval(st.exc, fr)
            if st.cause is not None:
                self.eval(st.cause, fr)
        elif isinstance(st, ast.Assert):
            self.eval(st.test, fr)
        elif isinstance(st, (ast.Pass, ast.Break, ast.Continue)):
            pass
        elif isinstance(st, ast.Delete):
            for t in st.targets:
                if isinstance(t, ast.Name):
                    continue
                if isinstance(t, (ast.Subscript, ast.Attribute)):
                    self.guard_global_write(fr, t)
                    base = self.eval(t.value, fr)
                    if isinstance(t, ast.Subscript):
                        self.eval_slice(t.slice, fr)
                    self.write(fr, base.regions, "key", st)
                else:
                    raise EffectError("%s:%d: unsupported del target" % (fr.mod.rel, st.lineno))
        elif isinstance(st, ast.FunctionDef):
            if st.decorator_list:
                raise EffectError("%s:%d: decorated nested function" % (fr.mod.rel, st.lineno))
            fr.env[st.name] = Val((), False, False, ("closure", st, fr))
        else:
            raise EffectError("%s:%d: unsupported statement %s" % (fr.mod.rel, st.lineno, type(st).__name__))

    def assign(self, target, v: Val, fr: Frame, value_node=None):
        if isinstance(target, ast.Name):
            fr.env[target.id] = v
        elif isinstance(target, (ast.Tuple, ast.List)):
            if any(isinstance(e, ast.Starred) for e in target.elts):
                raise EffectError("%s:%d: starred assignment" % (fr.mod.rel, target.lineno))
            if isinstance(value_node, (ast.Tuple, ast.List)) and len(value_node.elts) == len(target.elts) \
                    and not any(isinstance(e, ast.Starred) for e in value_node.elts):
                for t, e in zip(target.elts, value_node.elts):
                    self.assign(t, self.eval(e, fr), fr, e)
            else:
                ev = self.elems(v)
                for t in target.elts:
                    self.assign(t, ev, fr)
        elif isinstance(target, ast.Attribute):
            self.guard_global_write(fr, target)
            base = self.eval(target.value, fr)
            self.write(fr, base.regions, "key", target)
            self.store(base.regions, target.attr, v.regions)
        elif isinstance(target, ast.Subscript):
            self.guard_global_write(fr, target)
            base = self.eval(target.value, fr)
            k = self.eval_slice(target.slice, fr)
            self.write(fr, base.regions, "key", target)
            self.store(base.regions, "*", v.regions | k.regions)
        else:
            raise EffectError("%s:%d: unsupported assignment target" % (fr.mod.rel, target.lineno))

    def augassign(self, st: ast.AugAssign, fr: Frame):
        """x op= rhs.  If rhs is a number, or x holds None / an immutable value, this is plain rebinding to a new
        immutable value.  Otherwise x may be a mutable object updated IN PLACE (list +=, set -=, mip model +=):
        a write into every object x may denote; or an immutable one, in which case x is rebound to a new object
        that may share what x and rhs hold."""
        rhs = self.eval(st.value, fr)
        t = st.target

        def in_place(old_regions):
            self.write(fr, old_regions, "app", st)
            self.store(old_regions, "*", rhs.regions | self.field(rhs.regions, "*"))
            site = self.new_site(fr, st, "augassign")
            self.shallow_from(site, old_regions | rhs.regions)
            self.store([site], "*", self.field(rhs.regions, "*"))
            return site

        if isinstance(t, ast.Name):
            cur = fr.lookup(t.id)
            if cur is None:
                raise EffectError("%s:%d: augmented assignment to the non-local name %s" % (fr.mod.rel, st.lineno, t.id))
            if t.id not in fr.env:
                raise EffectError("%s:%d: augmented assignment to a closure variable" % (fr.mod.rel, st.lineno))
            if rhs.num:
                fr.env[t.id] = NUM          # then the left operand is a number too
            elif not cur.regions:
                fr.env[t.id] = Val((), False, cur.num)
            else:
                site = in_place(cur.regions)
                fr.env[t.id] = Val(cur.regions | {site}, False, False)
            return
        if isinstance(t, ast.Attribute):
            fname = t.attr
        elif isinstance(t, ast.Subscript):
            fname = "*"
        else:
            raise EffectError("%s:%d: unsupported augmented assignment" % (fr.mod.rel, st.lineno))
        self.guard_global_write(fr, t)
        base = self.eval(t.value, fr)
        if isinstance(t, ast.Subscript):
            self.eval_slice(t.slice, fr)
        self.write(fr, base.regions, "key", st)
        old = self.field(base.regions, fname)
        if rhs.num or not old:
            return                          # a number is stored: no region
        site = in_place(old)
        self.store(base.regions, fname, [site])

    @staticmethod
    def none_test(test):
        """(name, True) for `name is None`, (name, False) for `name is not None`, else None"""
        if isinstance(test, ast.Compare) and len(test.ops) == 1 and isinstance(test.left, ast.Name) \
                and isinstance(test.comparators[0], ast.Constant) and test.comparators[0].value is None:
            if isinstance(test.ops[0], ast.Is):
                return test.left.id, True
            if isinstance(test.ops[0], ast.IsNot):
                return test.left.id, False
        return None

    def exec_if(self, st: ast.If, fr: Frame):
        self.eval(st.test, fr)
        kt = self.known_truth(st.test, fr)
        if kt is not None:
            self.exec_block(st.body if kt else st.orelse, fr)
            return
        nt = self.none_test(st.test)
        env0 = fr.env
        env_t, env_f = dict(env0), dict(env0)
        skip_t = skip_f = False
        if nt is not None and nt[0] in env0:
            name, is_none = nt
            cur = env0[name]
            as_none = Val((), True, False)
            as_some = Val(cur.regions, False, cur.num, cur.fn)
            never_none = not cur.none
            if is_none:
                env_t[name], env_f[name] = as_none, as_some
                skip_t = never_none
            else:
                env_t[name], env_f[name] = as_some, as_none
                skip_f = never_none
        outs = []
        if not skip_t:
            fr.env = env_t
            self.exec_block(st.body, fr)
            outs.append(fr.env)
        if not skip_f:
            fr.env = env_f
            self.exec_block(st.orelse, fr)
            outs.append(fr.env)
        fr.env = self.join_env(outs)

    @staticmethod
    def join_env(envs):
        out = {}
        for e in envs:
            for k, v in e.items():
                out[k] = join(out[k], v) if k in out else v
        return out

    def exec_loop(self, fr: Frame, body, orelse, bind=None, test=None):
        for _ in range(30):
            before = dict(fr.env)
            if test is not None:
                self.eval(test, fr)
            if bind is not None:
                bind()
            self.exec_block(body, fr)
            fr.env = self.join_env([before, fr.env])
            if fr.env == before:
                break
        else:
            raise EffectError("%s: loop does not stabilise" % fr.func)
        self.exec_block(orelse, fr)

    def bind_iter(self, target, iter_node, it: Val, fr: Frame):
        """bind the loop / comprehension target to the elements of the iterable"""
        if isinstance(iter_node, ast.Call) and isinstance(iter_node.func, ast.Name) and iter_node.func.id == "enumerate" \
                and not fr.is_local("enumerate") and isinstance(target, ast.Tuple) and len(target.elts) == 2 \
                and len(iter_node.args) == 1 and not iter_node.keywords:
            self.assign(target.elts[0], NUM, fr)
            self.assign(target.elts[1], self.elems(self.eval(iter_node.args[0], fr)), fr)
        else:
            self.assign(target, self.elems(it), fr)

    # -- expressions -------------------------------------------------------------------------
    def eval_slice(self, sl, fr: Frame) -> Val:
        if isinstance(sl, ast.Slice):
            for p in (sl.lower, sl.upper, sl.step):
                if p is not None:
                    self.eval(p, fr)
            return SCALAR
        return self.eval(sl, fr)

    def eval(self, e, fr: Frame) -> Val:
        if isinstance(e, ast.Constant):
            if e.value is None:
                return NONE
            if isinstance(e.value, (int, float)) and not isinstance(e.value, bool):
                return NUM
            return SCALAR
        if isinstance(e, ast.Name):
            v = fr.lookup(e.id)
            if v is not None:
                return v
            if e.id in fr.mod.globals or e.id in ("inf",):
                return SCALAR
            raise EffectError("%s:%d: unknown name %s" % (fr.mod.rel, e.lineno, e.id))
        if isinstance(e, ast.Attribute):
            base = self.eval(e.value, fr)
            out = Val(self.field(base.regions, e.attr), True, False)
            for ci, fd in self.an.property_table.get(e.attr, ()):
                out = join(out, self.inline(fd, ci.mod, None, {"self": base}, ci.name + "." + fd.name, ci))
            return out
        if isinstance(e, ast.Subscript):
            base = self.eval(e.value, fr)
            self.eval_slice(e.slice, fr)
            if isinstance(e.slice, ast.Slice):
                site = self.new_site(fr, e, "slice", ("copy", base.regions))
                self.shallow_from(site, base.regions)
                return Val([site])
            return self.elems(base)
        if isinstance(e, ast.Call):
            return self.eval_call(e, fr)
        if isinstance(e, ast.BinOp):
            l, r = self.eval(e.left, fr), self.eval(e.right, fr)
            if not l.regions and not r.regions:
                return Val((), False, l.num or r.num)
            if isinstance(e.op, ast.Mult):
                if l.num and r.num:
                    return NUM
            elif isinstance(e.op, (ast.Sub, ast.Div, ast.FloorDiv, ast.Mod, ast.Pow)):
                if l.num or r.num:
                    return NUM
            elif isinstance(e.op, ast.Add):
                if l.num or r.num:
                    return NUM
            # concatenation / set algebra / arithmetic on values we know nothing about: a new object that may
            # share everything its operands hold (BudgetAllocation.__add__ keeps `details`)
            site = self.new_site(fr, e, "binop")
            self.shallow_from(site, l.regions | r.regions)
            return Val([site])
        if isinstance(e, ast.UnaryOp):
            v = self.eval(e.operand, fr)
            if isinstance(e.op, ast.Not):
                return SCALAR
            return NUM if v.num else Val(v.regions, False, False)
        if isinstance(e, ast.BoolOp):
            return join_all([self.eval(x, fr) for x in e.values])
        if isinstance(e, ast.Compare):
            self.eval(e.left, fr)
            for c in e.comparators:
                self.eval(c, fr)
            return SCALAR
        if isinstance(e, ast.IfExp):
            self.eval(e.test, fr)
            kt = self.known_truth(e.test, fr)
            if kt is not None:
                return self.eval(e.body if kt else e.orelse, fr)
            return join(self.eval(e.body, fr), self.eval(e.orelse, fr))
        if isinstance(e, (ast.List, ast.Set, ast.Tuple)):
            if any(isinstance(x, ast.Starred) for x in e.elts):
                raise EffectError("%s:%d: starred element" % (fr.mod.rel, e.lineno))
            vals = [self.eval(x, fr) for x in e.elts]
            regs = frozenset().union(*[v.regions for v in vals]) if vals else frozenset()
            if isinstance(e, ast.Tuple) and not regs:
                return SCALAR
            site = self.new_site(fr, e, "lit")
            self.store([site], "*", regs)
            return Val([site])
        if isinstance(e, ast.Dict):
            regs = set()
            for k, v in zip(e.keys, e.values):
                if k is None:
                    raise EffectError("%s:%d: dict unpacking in a literal" % (fr.mod.rel, e.lineno))
                regs |= self.eval(k, fr).regions | self.eval(v, fr).regions
            site = self.new_site(fr, e, "lit")
            self.store([site], "*", regs)
            return Val([site])
        if isinstance(e, (ast.ListComp, ast.SetComp, ast.GeneratorExp, ast.DictComp)):
            sub = Frame(fr.func, fr.mod, {}, fr, fr.cls)
            for g in e.generators:
                if g.is_async:
                    raise EffectError("async comprehension")
                it = self.eval(g.iter, sub)
                self.bind_iter(g.target, g.iter, it, sub)
                for c in g.ifs:
                    self.eval(c, sub)
            if isinstance(e, ast.DictComp):
                regs = self.eval(e.key, sub).regions | self.eval(e.value, sub).regions
            else:
                regs = self.eval(e.elt, sub).regions
            site = self.new_site(fr, e, "comp")
            self.store([site], "*", regs)
            return Val([site])
        if isinstance(e, ast.JoinedStr):
            for v in e.values:
                if isinstance(v, ast.FormattedValue):
                    self.eval(v.value, fr)
                    if v.format_spec is not None:
                        self.eval(v.format_spec, fr)
            return SCALAR
        if isinstance(e, ast.Lambda):
            return Val((), False, False, ("lambda", e, fr))
        raise EffectError("%s:%d: unsupported expression %s" % (fr.mod.rel, getattr(e, "lineno", 0), type(e).__name__))

    # -- calls -------------------------------------------------------------------------------
    def eval_args(self, node: ast.Call, fr: Frame):
        args = []
        for a in node.args:
            if isinstance(a, ast.Starred):
                raise EffectError("%s:%d: *args at a call site" % (fr.mod.rel, node.lineno))
            args.append(self.eval(a, fr))
        kwargs, starkw = {}, None
        for k in node.keywords:
            if k.arg is None:
                v = self.eval(k.value, fr)
                starkw = v if starkw is None else join(starkw, v)
            else:
                kwargs[k.arg] = self.eval(k.value, fr)
        return args, kwargs, starkw

    def apply_lambda(self, v: Val, argvals, what, fr):
        """evaluate a `key=` callable on the given arguments (for its effects)"""
        if v.fn is None:
            if v.regions or not v.none:
                raise EffectError("%s: %s is not a lambda / local function" % (fr.func, what))
            return SCALAR           # the constant None
        kind, node, dfr = v.fn
        if kind == "lambda":
            a = node.args
            if a.vararg or a.kwarg or a.kwonlyargs or a.defaults or len(a.args) != len(argvals):
                raise EffectError("%s: unsupported lambda signature" % fr.func)
            sub = Frame(dfr.func, dfr.mod, {x.arg: val for x, val in zip(a.args, argvals)}, dfr, dfr.cls)
            return self.eval(node.body, sub)
        bound = self.bind(node, argvals, {}, None, dfr)
        return self.inline(node, dfr.mod, dfr, bound, dfr.func + "." + node.name, dfr.cls)

    def bind(self, fd: ast.FunctionDef, args, kwargs, starkw, fr: Frame, self_val=None):
        names, defaults, _annots, npos = _params(fd)
        bound = {}
        pos = list(args)
        if self_val is not None:
            pos = [self_val] + pos
        if len(pos) > npos:
            raise EffectError("%s: too many positional arguments for %s" % (fr.func, fd.name))
        for n, v in zip(names, pos):
            bound[n] = v
        for k, v in kwargs.items():
            if k not in names or k in bound:
                raise EffectError("%s: bad keyword %s for %s" % (fr.func, k, fd.name))
            bound[k] = v
        extra = self.elems(starkw) if starkw is not None else None
        for n in names:
            if n in bound:
                continue
            if n in defaults:
                d = defaults[n]
                if isinstance(d, ast.Constant):
                    dv = self.eval(d, fr)
                elif isinstance(d, ast.Tuple) and not d.elts:
                    dv = SCALAR
                elif isinstance(d, ast.Name):
                    dv = SCALAR
                else:
                    raise EffectError("%s: unsupported default value of parameter %s" % (fd.name, n))
                bound[n] = join(dv, extra) if extra is not None else dv
            elif extra is not None:
                bound[n] = extra
            else:
                raise EffectError("%s: missing argument %s in a call of %s" % (fr.func, n, fd.name))
        return {n: bound[n] for n in names}

    def inline(self, fd, mod, closure_frame, bound, qual, cls=None) -> Val:
        key = (id(fd), tuple((n, v.key()) for n, v in bound.items()), ",".join(self.ctx))
        if key in self.active:
            return self.ret_cache.get(key, BOTTOM)
        if key in self.done_pass:
            return self.done_pass[key]
        if len(self.active) > 60:
            raise EffectError("%s: call nesting too deep while analysing %s" % (self.root, qual))
        self.active.append(key)
        try:
            rets = self.run_body(fd, lambda: Frame(fd.name, mod, dict(bound), closure_frame, cls))
        finally:
            self.active.pop()
        r = join_all(rets) if rets else BOTTOM
        r = Val(r.regions, True, False, r.fn)      # a call result may always be None as far as we know
        old = self.ret_cache.get(key, BOTTOM)
        new = join(old, r)
        if new != old or key not in self.ret_cache:
            self.ret_cache[key] = new
            self.changed = True
        self.done_pass[key] = new
        return new

    def eval_call(self, node: ast.Call, fr: Frame) -> Val:
        f = node.func
        if isinstance(f, ast.Name):
            name = f.id
            v = fr.lookup(name)
            if v is not None:
                args, kwargs, starkw = self.eval_args(node, fr)
                if v.fn is not None and v.fn[0] == "closure":
                    _k, fd, dfr = v.fn
                    bound = self.bind(fd, args, kwargs, starkw, fr)
                    return self.inline(fd, dfr.mod, dfr, bound, dfr.func + "." + fd.name, dfr.cls)
                if name in CALLABLE_PARAMS and v.regions and all(r[0] in "PD" for r in v.regions):
                    return join_all([self.call_known(g, node, args, kwargs, starkw, fr) for g in RULE_UNIVERSE])
                raise EffectError("%s:%d: call of the local value %s" % (fr.mod.rel, node.lineno, name))
            if name not in fr.mod.globals and name not in NUM_FUNCS | SCALAR_FUNCS | _BUILTIN_MODELS:
                raise EffectError("%s:%d: call of the unknown name %s" % (fr.mod.rel, node.lineno, name))
            if name in self.an.funcs:
                args, kwargs, starkw = self.eval_args(node, fr)
                return self.call_known(name, node, args, kwargs, starkw, fr)
            if name in self.an.classes:
                args, kwargs, starkw = self.eval_args(node, fr)
                return self.construct(name, node, args, kwargs, starkw, fr)
            return self.call_builtin(name, node, fr)
        if isinstance(f, ast.Attribute):
            # X.__init__(self, ...) with X a class named at module level
            if f.attr == "__init__" and isinstance(f.value, ast.Name) and not fr.is_local(f.value.id):
                args, kwargs, starkw = self.eval_args(node, fr)
                if not args or starkw is not None:
                    raise EffectError("%s:%d: unsupported explicit __init__ call" % (fr.mod.rel, node.lineno))
                self.base_init(f.value.id, args[0], args[1:], kwargs, node, fr)
                return NONE
            if f.attr == "__init__" and isinstance(f.value, ast.Call) and isinstance(f.value.func, ast.Name) \
                    and f.value.func.id == "super" and not f.value.args:
                args, kwargs, starkw = self.eval_args(node, fr)
                if fr.cls is None or starkw is not None or fr.lookup("self") is None:
                    raise EffectError("%s:%d: unsupported super().__init__" % (fr.mod.rel, node.lineno))
                for b in fr.cls.bases:
                    self.base_init(b, fr.lookup("self"), args, kwargs, node, fr)
                return NONE
            return self.method_call(node, fr)
        raise EffectError("%s:%d: unsupported call target" % (fr.mod.rel, node.lineno))

    def base_init(self, cname, self_val: Val, args, kwargs, node, fr: Frame):
        if cname in self.an.classes:
            ci = self.an.classes[cname]
            fd = self.find_init(ci)
            if fd is not None:
                ci2, fdef = fd
                bound = self.bind(fdef, args, kwargs, None, fr, self_val=self_val)
                self.inline(fdef, ci2.mod, None, bound, ci2.name + ".__init__", ci2)
            else:
                self.default_init(ci, self_val, args, kwargs, node, fr)
        elif cname in LIB_INITS:
            self.write(fr, self_val.regions, "key", node)
            fields = LIB_INITS[cname]
            if fields is None:
                for v in list(args) + list(kwargs.values()):
                    self.store(self_val.regions, "*", self.field(v.regions, "*"))
            else:
                if len(args) > len(fields) or set(kwargs) - set(fields):
                    raise EffectError("%s:%d: unexpected arguments for %s.__init__" % (fr.mod.rel, node.lineno, cname))
                for fname, v in list(zip(fields, args)) + list(kwargs.items()):
                    self.store(self_val.regions, fname, v.regions)
        elif cname == "object":
            pass
        else:
            raise EffectError("%s:%d: initialiser of the unknown class %s" % (fr.mod.rel, node.lineno, cname))

    def find_init(self, ci: ClassInfo):
        """first __init__ along the (single-inheritance) chain of analysed classes"""
        seen = set()
        while ci is not None and ci.name not in seen:
            seen.add(ci.name)
            if "__init__" in ci.methods:
                return ci, ci.methods["__init__"]
            nxt = [b for b in ci.bases if b in self.an.classes]
            if len(nxt) > 1:
                raise EffectError("class %s: multiple analysed bases" % ci.name)
            ci = self.an.classes[nxt[0]] if nxt else None
        return None

    def default_init(self, ci: ClassInfo, self_val, args, kwargs, node, fr):
        lib = [b for b in ci.bases if b not in self.an.classes]
        for b in lib:
            if b not in LIB_INITS and b != "object":
                raise EffectError("class %s: no __init__ and unknown base %s" % (ci.name, b))
            self.base_init(b, self_val, args, kwargs, node, fr)
        if not lib and (args or kwargs):
            raise EffectError("class %s: arguments for a class without __init__" % ci.name)

    def construct(self, cname, node, args, kwargs, starkw, fr: Frame) -> Val:
        if starkw is not None:
            raise EffectError("%s:%d: **kwargs in a constructor call" % (fr.mod.rel, node.lineno))
        ci = self.an.classes[cname]
        kind = ("new",)
        if cname == "BudgetAllocation" and args and args[0].regions:
            kind = ("copy", args[0].regions)
        site = self.new_site(fr, node, cname, kind)
        self.site_class[site] = cname
        self_val = Val([site])
        found = self.find_init(ci)
        if found is not None:
            ci2, fdef = found
            bound = self.bind(fdef, args, kwargs, None, fr, self_val=self_val)
            self.inline(fdef, ci2.mod, None, bound, ci2.name + ".__init__", ci2)
        else:
            self.default_init(ci, self_val, args, kwargs, node, fr)
        return self_val

    def call_known(self, name, node, args, kwargs, starkw, fr: Frame) -> Val:
        mod, fd = self.an.funcs[name]
        bound = self.bind(fd, args, kwargs, starkw, fr)
        if name in ENTRY_NAMES and name not in self.an.in_progress:
            summ = self.an.summary(name)
            if summ.scallable():
                return self.scall(name, summ, bound, node, fr)
        return self.inline(fd, mod, None, bound, name)

    def scall(self, name, summ: Summary, bound, node, fr: Frame) -> Val:
        vals = [bound[n] for n in summ.params]
        regs = [sorted(v.regions) for v in vals]
        width = max([1] + [len(r) for r in regs])
        for j in range(width):
            refs = tuple((r[min(j, len(r) - 1)] if r else None) for r in regs)
            self.effect(("c", name, refs, "%s:%d" % (fr.mod.short, node.lineno)))
        everything = set()
        for v in vals:
            everything |= v.regions | self.below(v.regions)
        ret = self.new_site(fr, node, "ret:" + name)
        self.store([ret], "?", everything | {ret})
        for i in summ.pwrites:
            # the callee writes into the top-level object of parameter i: a D region there is a deep write of ours
            if any(r[0] == "D" for r in vals[i].regions):
                self.deep_writes = True
            self.store(vals[i].regions, "?", everything | {ret})
        out = {ret}
        for r in summ.ret.regions:
            if r[0] == "P":
                out |= vals[r[1]].regions
            elif r[0] == "D":
                out |= self.below(vals[r[1]].regions)
        return Val(out, True, False)

    def call_builtin(self, name, node: ast.Call, fr: Frame) -> Val:
        args, kwargs, starkw = self.eval_args(node, fr)
        if starkw is not None:
            raise EffectError("%s:%d: **kwargs in a call of %s" % (fr.mod.rel, node.lineno, name))
        if name in NUM_FUNCS:
            return NUM
        if name in SCALAR_FUNCS:
            return SCALAR
        if name in LIB_CONSTRUCTORS:
            site = self.new_site(fr, node, name)
            self.store([site], "?", [site])
            return Val([site])
        if name in ("min", "max"):
            if kwargs:
                raise EffectError("%s:%d: %s with keyword arguments" % (fr.mod.rel, node.lineno, name))
            regs = set()
            for a in args:
                regs |= a.regions | self.field(a.regions, "*")
            return Val(regs, False, len(args) >= 2 and all(a.num for a in args))
        if name == "enumerate":
            if len(args) != 1 or kwargs:
                raise EffectError("%s:%d: unsupported enumerate" % (fr.mod.rel, node.lineno))
            pair = self.new_site(fr, node, "enumpair")
            self.store([pair], "*", self.field(args[0].regions, "*"))
            site = self.new_site(fr, node, "enumerate")
            self.store([site], "*", [pair])
            return Val([site])
        if name == "sorted":
            if len(args) != 1 or set(kwargs) - {"key", "reverse"}:
                raise EffectError("%s:%d: unsupported sorted" % (fr.mod.rel, node.lineno))
            if "key" in kwargs:
                self.apply_lambda(kwargs["key"], [self.elems(args[0])], "sorted key", fr)
            site = self.new_site(fr, node, "sorted")
            self.store([site], "*", self.field(args[0].regions, "*"))
            return Val([site])
        if name in ("set", "list", "tuple", "dict", "copy"):
            if kwargs or len(args) > 1 or (name == "copy" and len(args) != 1):
                raise EffectError("%s:%d: unsupported %s call" % (fr.mod.rel, node.lineno, name))
            if not args:
                return Val([self.new_site(fr, node, name)])
            site = self.new_site(fr, node, name, ("copy", args[0].regions))
            if name in ("dict", "copy"):
                self.shallow_from(site, args[0].regions)
                for r in args[0].regions:
                    if r in self.site_class:
                        self.site_class[site] = self.site_class[r]
            else:
                self.store([site], "*", self.field(args[0].regions, "*"))
            return Val([site], args[0].none and name == "copy", False)
        if name == "deepcopy":
            if len(args) != 1 or kwargs:
                raise EffectError("%s:%d: unsupported deepcopy" % (fr.mod.rel, node.lineno))
            site = self.new_site(fr, node, "deepcopy", ("copy", args[0].regions))
            self.store([site], "?", [site])
            out = {site}
            # objects with a custom __deepcopy__ (MESVoter, MESProject: shallow copies that keep sharing the
            # ballot / satisfaction / project) are copied by running the hook
            for r in sorted(args[0].regions | self.below(args[0].regions)):
                cname = self.site_class.get(r)
                hook = self.find_method(cname, "__deepcopy__") if cname else None
                if hook is not None:
                    ci, fdef = hook
                    res = self.inline(fdef, ci.mod, None, self.bind(fdef, [SCALAR], {}, None, fr, self_val=Val([r])),
                                      ci.name + ".__deepcopy__", ci)
                    self.store([site], "?", res.regions)
                    if r in args[0].regions:
                        out |= res.regions
            return Val(out, args[0].none, False)
        if name == "next":
            if len(args) not in (1, 2) or kwargs:
                raise EffectError("%s:%d: unsupported next" % (fr.mod.rel, node.lineno))
            v = self.elems(args[0])
            return join(v, args[1]) if len(args) == 2 else v
        raise EffectError("%s:%d: call of %s, which is neither analysed nor allow-listed" % (fr.mod.rel, node.lineno, name))

    def find_method(self, cname, m):
        seen = set()
        while cname in self.an.classes and cname not in seen:
            seen.add(cname)
            ci = self.an.classes[cname]
            if m in ci.methods:
                return ci, ci.methods[m]
            nxt = [b for b in ci.bases if b in self.an.classes]
            cname = nxt[0] if nxt else None
        return None

    def method_call(self, node: ast.Call, fr: Frame) -> Val:
        f = node.func
        m = f.attr
        recv = self.eval(f.value, fr)
        args, kwargs, starkw = self.eval_args(node, fr)
        where = "%s:%d" % (fr.mod.rel, node.lineno)
        applied = False
        out = BOTTOM
        if m in MUTATORS:
            if starkw is not None:
                raise EffectError(where + ": **kwargs in a mutating call")
            self.guard_global_write(fr, f)
            applied = True
            self.write(fr, recv.regions, "app", node)
            regs = set()
            for a in args:
                regs |= a.regions
                if m in MUTATORS_STORING_ELEMENTS:
                    regs |= self.field(a.regions, "*")
            for k, a in kwargs.items():
                if m == "sort" and k == "key":
                    self.apply_lambda(a, [self.elems(recv)], "sort key", fr)
                elif m == "sort" and k == "reverse":
                    pass
                elif m == "update":
                    regs |= a.regions
                else:
                    raise EffectError(where + ": unsupported keyword %s of %s" % (k, m))
            self.store(recv.regions, "*", regs)
            out = join(out, self.elems(recv) if m in MUTATORS_RETURNING_ELEMENT else NONE)
        if m in LIB_RECEIVER_WRITERS:
            self.guard_global_write(fr, f)
            applied = True
            self.write(fr, recv.regions, "app", node)
            if LIB_RECEIVER_WRITERS[m] == "fresh":
                site = self.new_site(fr, node, m)
                self.store([site], "?", [site])
                out = join(out, Val([site]))
            else:
                out = join(out, SCALAR)
        for ci, fd in self.an.method_table.get(m, ()):
            if m == "__init__":
                break
            applied = True
            bound = self.bind(fd, args, kwargs, starkw, fr, self_val=recv)
            out = join(out, self.inline(fd, ci.mod, None, bound, ci.name + "." + m, ci))
        if m in PURE_METHODS:
            applied = True
            kind = PURE_METHODS[m]
            allv = list(args) + list(kwargs.values()) + ([starkw] if starkw is not None else [])
            if kind == "scalar":
                out = join(out, SCALAR)
            elif kind == "memo":
                self.memo(fr, recv.regions, node)
                out = join(out, NUM)
            elif kind == "view":
                site = self.new_site(fr, node, m, ("copy", recv.regions))
                self.shallow_from(site, recv.regions)
                for a in allv:
                    self.store([site], "*", self.field(a.regions, "*"))
                out = join(out, Val([site]))
            elif kind == "get":
                v = self.elems(recv)
                for a in args[1:]:
                    v = join(v, a)
                out = join(out, Val(v.regions, True, False))
            elif kind == "order":
                if not args:
                    raise EffectError(where + ": order() without arguments")
                site = self.new_site(fr, node, "order", ("copy", args[-1].regions))
                self.store([site], "*", self.field(args[-1].regions, "*"))
                out = join(out, Val([site]))
            elif kind == "derived":
                site = self.new_site(fr, node, m)
                regs = {site} | recv.regions | self.below(recv.regions)
                for a in allv:
                    regs |= a.regions | self.below(a.regions)
                self.store([site], "?", regs)
                out = join(out, Val([site]))
            else:
                raise EffectError("internal: method kind " + kind)
        if not applied:
            raise EffectError(where + ": call of the method %s, which is neither analysed nor allow-listed" % m)
        return out


_BUILTIN_MODELS = {"min", "max", "enumerate", "sorted", "set", "list", "tuple", "dict", "copy", "deepcopy", "next"} \
    | LIB_CONSTRUCTORS


# ------------------------------------------------------------------------------------------------
# rendering

def _render_program(an: Analyzer, summ: Summary, full: bool):
    """-> (list of (stmt text, comment)), using every effect (full) or only the untagged ones"""
    effects = [e for e in summ.effects if full or not (e[0] == "w" and e[4])]
    used = []

    def use(r):
        if r is not None and r[0] == "L" and r not in used:
            used.append(r)

    scalar_needed = False
    for e in effects:
        if e[0] in ("w", "m"):
            use(e[1])
        else:
            for r in e[2]:
                if r is None:
                    scalar_needed = True
                use(r)
    order = [r for r in summ.sites if r in used]
    missing = [r for r in used if r not in summ.sites]
    if missing:
        raise EffectError("internal: effect on an unallocated site %r" % (missing[0],))
    loc = {}
    stmts = []

    def ref(r):
        if r is None:
            return "Loc %d" % loc["scalar"]
        if r[0] in "PD":
            return "Arg %d" % r[1]
        return "Loc %d" % loc[r]

    if scalar_needed:
        loc["scalar"] = len(loc)
        stmts.append(("SNew tx", "placeholder for arguments that are None / numbers / flags"))
    for r in order:
        kind = summ.sites[r]
        src = None
        if kind[0] == "copy" and len(kind[1]) == 1:
            s = next(iter(kind[1]))
            if s[0] in "PD" or s in loc:
                src = s
        stmts.append(("SCopy (%s)" % ref(src) if src is not None else "SNew tx", r[1]))
        loc[r] = len(loc)
    for e in effects:
        if e[0] == "w":
            _w, r, kind, where, tag = e
            line = int(where.split(":")[1])
            txt = "SSetKey (%s) %d tx" % (ref(r), line) if kind == "key" else "SAppend (%s) tx" % ref(r)
            stmts.append((txt, where + (" EXCEPTION " + tag if tag else "")))
        elif e[0] == "m":
            _m, r, where = e
            stmts.append(("SMemo (%s) %d 0" % (ref(r), int(where.split(":")[1])), where))
        else:
            _c, callee, refs, where = e
            stmts.append(("SCall G_%s [%s]" % (callee, "; ".join(ref(r) for r in refs)), where))
    return stmts


def _fmt_program(name, summ: Summary, stmts):
    work = "; ".join("true" if p in summ.work else "false" for p in summ.params)
    lines = ["Definition %s : program := mkProgram %d [%s] [" % (name, len(summ.params), work)]
    for i, (txt, com) in enumerate(stmts):
        sep = ";" if i + 1 < len(stmts) else ""
        lines.append("  %s%s (* %s *)" % (txt, sep, com.replace('"', "'").replace("*)", "* )")))
    lines.append("]%nat.")
    return lines


def extract(repo):
    an = Analyzer(repo)
    out = []
    for name in ENTRY_NAMES:
        out.append(an.summary(name))
    for k, (tag, required) in EXCEPTIONS.items():
        if required and k not in an.matched_exceptions:
            raise EffectError("the documented exception %s (%s: `%s`) no longer matches the source: update "
                              "EXCEPTIONS in anchors_effects.py" % (tag, k[0], k[1]))
    return an, out


def render(repo) -> str:
    an, summs = extract(repo)
    L = ["(* Generated/EffectSummaries.v -- REGENERATED from /repo's source on every run by",
         "   harness/vharness/anchors_effects.py (fail-closed points-to / effect analysis).  Do not edit.",
         "   One summary per entry point: parameters are Arg 0, Arg 1, ... in the order of the Python signature;",
         "   Loc k is the k-th object allocated by the call; keys of SSetKey / SMemo are source line numbers;",
         "   the comment after each statement names the source position it was derived from. *)",
         "From PB Require Import Model.Effects Model.EffectsGen.", ""]
    for i, s in enumerate(summs):
        L.append("Definition G_%s := %d%%nat." % (s.name, i))
    L.append("Definition n_gen_entries := %d%%nat." % len(summs))
    L.append("")
    fulls = []
    for s in summs:
        L.append("(* %s(%s) *)" % (s.name, ", ".join(s.params)))
        L += _fmt_program("summary_" + s.name, s, _render_program(an, s, False))
        if s.tagged:
            tags = sorted({e[4] for e in s.effects if e[0] == "w" and e[4]})
            L.append("(* the same with the explicitly excluded statements kept: %s *)" % ", ".join(tags))
            L += _fmt_program("summary_%s_full" % s.name, s, _render_program(an, s, True))
            fulls.append(s.name)
        L.append("")
    L.append("Definition gen_progs (f : nat) : list stmt :=")
    L.append("  match f with")
    for i, s in enumerate(summs):
        L.append("  | %d => p_body summary_%s" % (i, s.name))
    L.append("  | _ => []")
    L.append("  end%nat.")
    L.append("Definition gen_summaries : list program := [%s]." % "; ".join("summary_" + s.name for s in summs))
    L.append("Definition gen_summaries_full : list program := [%s]." % "; ".join("summary_%s_full" % n for n in fulls))
    return "\n".join(L) + "\n"


def write(repo, path):
    txt = render(repo)
    os.makedirs(os.path.dirname(path), exist_ok=True)
    old = open(path).read() if os.path.exists(path) else None
    if old != txt:
        with open(path, "w") as f:
            f.write(txt)


def regenerate(repo, coq):
    """entry point for core.regenerate_anchors: never raises; when the translator cannot classify something the
    generated file is a deliberately ill-typed one that carries the message, so that the Coq build (and with it
    stage P of every check) breaks in the ordinary way"""
    path = os.path.join(coq, "theories", "Generated", "EffectSummaries.v")
    try:
        write(repo, path)
    except (EffectError, RecursionError) as e:
        msg = re.sub(r"[^A-Za-z0-9_ .:,/()=<>\[\]-]", "?", "%s: %s" % (type(e).__name__, e))[:600]
        txt = ("(* Generated/EffectSummaries.v -- THE EFFECT TRANSLATOR FAILED (fail closed):\n   %s\n"
               "   harness/vharness/anchors_effects.py could not classify a statement or call of an entry point of\n"
               "   property C20; the summaries were NOT regenerated and the C20gen theorems are therefore broken. *)\n"
               "Definition effect_translator_failed : EFFECT_TRANSLATOR_FAILED_see_comment_above := tt.\n" % msg)
        old = open(path).read() if os.path.exists(path) else None
        if old != txt:
            os.makedirs(os.path.dirname(path), exist_ok=True)
            with open(path, "w") as f:
                f.write(txt)


if __name__ == "__main__":
    import sys
    if len(sys.argv) > 2:
        write(sys.argv[1], sys.argv[2])
    else:
        print(render(sys.argv[1] if len(sys.argv) > 1 else "/repo"))
