"""Shared by the Equal Shares properties (C02, C07): election generator, construction of the
pabutools objects, exact read-out of the per-voter utilities, and a small exact Python simulation of
the rule that is used ONLY to measure the input distribution (which branches a case exercises) --
never for a verdict."""
from __future__ import annotations

from fractions import Fraction

from . import pb

APPROVAL_SATS = ["Cardinality_Sat", "Cost_Sat", "Relative_Cardinality_Sat", "Relative_Cost_Sat",
                 "Relative_Cost_Approx_Normaliser_Sat", "Effort_Sat", "Additive_Cost_Sqrt_Sat",
                 "Additive_Cost_Log_Sat"]
CARDINAL_SATS = ["Additive_Cardinal_Sat", "Additive_Cardinal_Relative_Sat", "Cardinality_Sat", "Cost_Sat",
                 "Relative_Cardinality_Sat", "Relative_Cost_Sat", "Relative_Cost_Approx_Normaliser_Sat",
                 "Effort_Sat"]
ORDINAL_SATS = ["Additive_Borda_Sat", "Cardinality_Sat", "Cost_Sat", "Relative_Cardinality_Sat",
                "Relative_Cost_Sat", "Relative_Cost_Approx_Normaliser_Sat", "Effort_Sat"]
SATS = {"approval": APPROVAL_SATS, "cardinal": CARDINAL_SATS, "cumulative": CARDINAL_SATS,
        "ordinal": ORDINAL_SATS}
SOLVER_SATS = {"Relative_Cost_Sat", "Additive_Cardinal_Relative_Sat"}
VOTER_NORMALISED = {"Relative_Cardinality_Sat", "Relative_Cost_Sat", "Relative_Cost_Approx_Normaliser_Sat",
                    "Effort_Sat", "Additive_Cardinal_Relative_Sat"}

COST_POOLS = [
    [1, 1, 2, 2, 3],
    [1, 2, 3, 4, 5],
    [2, 2, 2],
    [1, 1, 1, 2],
    ["1/2", "1/3", "3/2", "2/3", 1, 2],
    [0, 1, 1, 2, 3],
    [0, 0, 1, 2],
    ["5/2", "7/3", 3, 4],
    [3, 3, 6, 6],
]
SCORES = [0, 1, 1, 2, 2, 3, "1/2", 5]
NEG_SCORES = [-1, -1, -2, "-1/2", -3]


def gen_election(rng, max_proj=7, max_vot=6):
    """costs, budget, ballot kind, ballots (JSON-able)"""
    m = rng.choice([1, 2, 3, 3, 4, 4, 4, 5, 5, 5, 6, 6, 7])
    m = min(m, max_proj)
    n = min(rng.choice([1, 2, 3, 3, 4, 4, 5, 5, 5, 6, 6, 6]), max_vot)
    pool = rng.choice(COST_POOLS)
    costs = [pb.F(rng.choice(pool)) for _ in range(m)]
    if rng.random() < 0.12:
        costs[rng.randrange(m)] = Fraction(0)
    tot = sum(costs, Fraction(0))
    mode = rng.randrange(12)
    if tot == 0 or mode == 0:
        B = Fraction(rng.choice([1, 2, 3, 4]))
    elif mode in (1, 2):
        B = tot
    elif mode in (3, 4, 5):
        B = tot * Fraction(rng.randrange(3, 8), 8)
    elif mode == 6:
        B = max(costs)
    elif mode == 7:
        k = rng.randrange((m + 1) // 2, m + 1)
        B = sum(rng.sample(costs, k), Fraction(0)) or Fraction(1)
    elif mode == 8:
        B = Fraction(n) * rng.choice([1, Fraction(3, 2), 2])
    elif mode == 9:
        B = tot / 2 + Fraction(1, 3)
    elif mode == 10:
        B = tot * Fraction(3, 4)
    else:
        B = tot + 1
    if B <= 0:
        B = Fraction(1)
    dense = rng.random() < 0.68
    if dense:       # many rounds, overlapping supporters: poor and rich supporters in one round
        m = min(max_proj, rng.choice([4, 5, 5, 6, 6, 7]))
        n = min(max_vot, rng.choice([4, 5, 5, 6, 6]))
        pool = rng.choice([[1, 2, 3, 4, 5], [2, 3, 5, 7], [1, 1, 2, 2, 3], ["1/2", "3/2", 1, 2, "5/2"], [2, 2, 3, 3]])
        costs = [pb.F(rng.choice(pool)) for _ in range(m)]
        tot = sum(costs, Fraction(0))
        B = tot * rng.choice([Fraction(3, 4), Fraction(7, 8), Fraction(1), Fraction(5, 8)])
        if rng.random() < 0.2:
            costs[rng.randrange(m)] = Fraction(0)
    if rng.random() < 0.10:   # one project dearer than the whole budget
        costs[rng.randrange(m)] = B + rng.choice([1, Fraction(1, 2)])
    kind = rng.choice(["approval", "approval", "approval", "cardinal", "cumulative", "ordinal"])
    negative = kind in ("cardinal", "cumulative") and rng.random() < 0.4
    style = rng.choice(["random", "party", "nested", "dup", "random", "window", "window", "nested"])
    if dense:
        style = "dense"
    dens = rng.choice([0.5, 0.6, 0.7])
    ballots = []
    parties = [sorted(rng.sample(range(m), rng.randrange(1, m + 1))) for _ in range(rng.choice([2, 2, 3]))]
    chain = list(range(m))
    rng.shuffle(chain)

    def support():
        if style == "party":
            return list(rng.choice(parties))
        if style == "nested":
            return sorted(chain[:rng.randrange(0, m + 1)])
        if style == "dense":
            return [j for j in range(m) if rng.random() < dens]
        if style == "window":
            w = rng.randrange(1, min(m, 4) + 1)
            st = rng.randrange(0, m)
            return sorted({chain[(st + k) % m] for k in range(w)})
        r = rng.random()
        if r < 0.08:
            return []
        if r < 0.16:
            return list(range(m))
        return sorted(rng.sample(range(m), rng.randrange(1, m + 1)))

    for v in range(n):
        if ballots and (style == "dup" and rng.random() < 0.6 or rng.random() < 0.15):
            b = rng.choice(ballots)
            ballots.append(b if not isinstance(b, dict) else dict(b))
            continue
        S = support()
        if kind == "approval":
            ballots.append(S)
        elif kind in ("cardinal", "cumulative"):
            eq = rng.random() < 0.35
            s0 = rng.choice(SCORES[1:])
            bl = {str(j): pb.qs(s0 if eq else rng.choice(SCORES)) for j in S}
            if negative:       # somebody scores negatively what others score positively
                for j in S:
                    if rng.random() < 0.3:
                        bl[str(j)] = pb.qs(rng.choice(NEG_SCORES))
            ballots.append(bl)
        else:
            S2 = list(S)
            rng.shuffle(S2)
            ballots.append(S2)
    r = rng.random()
    if r < 0.04:
        B = rng.choice(costs)                 # exactly the cost of one project
    elif r < 0.07:
        B = Fraction(0)                       # nothing to share: only supported zero-cost projects win
        if rng.random() < 0.7:
            costs[rng.randrange(m)] = Fraction(0)
    if rng.random() < 0.05:                   # integers far beyond 2**53 (exact arithmetic is scale free)
        K = rng.choice([2 ** 60 + 1, 10 ** 18, 3 * 2 ** 70])
        costs = [c * K for c in costs]
        B = B * K
    return {"costs": [pb.qs(c) for c in costs], "budget": pb.qs(B), "ballot": kind, "ballots": ballots}


def gen_config(rng, case, allow_irresolute=True):
    kind = case["ballot"]
    m = len(case["costs"])
    sats = SATS[kind]
    # half of the weight on the measures whose utility differs between supporters
    if rng.random() < 0.5:
        sat = rng.choice([s for s in sats if s in VOTER_NORMALISED or s.startswith("Additive_")])
    else:
        sat = rng.choice(sats)
    if sat in SOLVER_SATS and any(abs(pb.F(c)) > 2 ** 53 for c in case["costs"]):
        # CBC cannot handle such coefficients (it answers without a solution and the normaliser raises)
        sat = rng.choice([x for x in sats if x not in SOLVER_SATS])
    case["sat"] = sat
    case["solver"] = sat in SOLVER_SATS
    case["multi"] = rng.random() < 0.45
    tbs = ["lexico", "min_cost", "max_cost", "perm", "perm"] + (["app_score", "app_score"] if kind == "approval" else [])
    tb = rng.choice(tbs)
    if tb == "perm":
        perm = list(range(m))
        rng.shuffle(perm)
        tb = ["perm", perm]          # perm[rank] = key
    if rng.random() < 0.08:
        tb = "refuse"
    case["tb"] = tb
    case["binary"] = rng.choice([None, None, True, False])
    case["resolute"] = True
    if allow_irresolute and m <= 5 and rng.random() < 0.25:
        case["resolute"] = False
    case["inc"] = None
    if rng.random() < 0.4 and (case["resolute"] or m <= 4):
        costs = [pb.F(c) for c in case["costs"]]
        nv = len(case["ballots"])
        share = pb.F(case["budget"]) / nv
        inc = rng.choice([share, share / 2, share / 3, share / 4, Fraction(1), Fraction(1, 2), share * Fraction(2, 7),
                          share / 5, share / 6, share / 8, Fraction(1, 3)])
        lo = max(costs + [pb.F(case["budget"])]) / 40
        if inc < lo:
            inc = lo
        if inc <= 0:
            inc = Fraction(1)
        case["inc"] = pb.qs(inc)
    if case["tb"] == "refuse":
        case["inc"] = None
    enum = list(range(m))
    rng.shuffle(enum)
    case["enum"] = enum
    # a feasible initial budget allocation (mostly empty)
    init = []
    if rng.random() < 0.15:
        left = pb.F(case["budget"])
        for j in rng.sample(range(m), rng.randrange(1, min(m, 3) + 1)):
            if pb.F(case["costs"][j]) <= left:
                init.append(j)
                left -= pb.F(case["costs"][j])
    case["init"] = init
    if init or rng.random() < 0.05:
        case["init_form"] = rng.choice(["list", "tuple", "set", "gen", "iter", "ba"])
    case["sat_mode"] = rng.choice(["class", "profile"])
    return case


def gen_stale(rng):
    """Targeted stream for state that survives from one run of the iterated variant into the next
    (per-voter budget/satisfaction ratio cache, cached affordabilities, supporter order): a chain
    v1{q:high} v2{q:low, r:high} v3{r:low} of cardinal ballots with spread-out scores plus 1-3 voters
    with empty ballots, budget around the cost of the supported projects, small increments => several
    runs; in run k+1 some supporters of q have already paid for r while others have not, and the true
    order of q's supporters by budget/utility differs from the order of the previous run."""
    from fractions import Fraction as Fr
    costs = [Fr(rng.choice([5, 6, 7, 8, 9, 10])) for _ in range(2)]
    ballots = [{"0": rng.choice([3, 4, 5, 6])},
               {"0": rng.choice([1, 1, 2]), "1": rng.choice([3, 4, 5, 6])},
               {"1": rng.choice([1, 1, 2])}]
    if rng.random() < 0.25:
        costs.append(Fr(rng.choice([4, 6, 8, 12])))
        ballots[rng.randrange(3)]["2"] = rng.choice([1, 2, 3])
        if rng.random() < 0.5:
            ballots.append({"2": rng.choice([1, 2, 4])})
    for _ in range(rng.choice([1, 1, 2, 2, 3])):
        ballots.append({})
    rng.shuffle(ballots)
    m = len(costs)
    perm = list(range(m))
    rng.shuffle(perm)
    costs2 = [None] * m
    for j in range(m):
        costs2[perm[j]] = costs[j]
    ballots = [{str(perm[int(k)]): pb.qs(v) for k, v in b.items()} for b in ballots]
    sup = {int(k) for b in ballots for k in b}
    tot = sum((costs2[j] for j in sup), Fr(0))
    if rng.random() < 0.3:           # an unsupported project inflates the budget limit
        costs2.append(Fr(rng.choice([4, 6])))
    B = tot * rng.choice([Fr(1), Fr(11, 10), Fr(5, 4), Fr(3, 2)])
    inc = rng.choice([Fr(1, 3), Fr(1, 4), Fr(1, 5), Fr(1, 2), Fr(2, 3)])
    m = len(costs2)
    tb = rng.choice(["lexico", "min_cost", "max_cost", "perm"])
    if tb == "perm":
        pm = list(range(m))
        rng.shuffle(pm)
        tb = ["perm", pm]
    enum = list(range(m))
    rng.shuffle(enum)
    return {"costs": [pb.qs(c) for c in costs2], "budget": pb.qs(B),
            "ballot": rng.choice(["cardinal", "cardinal", "cumulative"]), "ballots": ballots,
            "sat": "Additive_Cardinal_Sat", "solver": False, "multi": rng.random() < 0.4, "tb": tb,
            "binary": rng.choice([None, True, False]), "resolute": True, "inc": pb.qs(inc), "enum": enum,
            "sat_mode": rng.choice(["class", "profile"]), "init": [], "stream": "stale"}


def _finish(rng, case):
    m = len(case["costs"])
    enum = list(range(m))
    rng.shuffle(enum)
    case.setdefault("enum", enum)
    case.setdefault("solver", False)
    case.setdefault("init", [])
    case.setdefault("inc", None)
    case.setdefault("resolute", True)
    case.setdefault("binary", rng.choice([None, True, False]))
    case.setdefault("sat_mode", rng.choice(["class", "profile"]))
    return case


def gen_boundary(rng, allow_irresolute=True):
    """Nothing to share: budget 0, or a budget used up exactly by the initial allocation -- and a zero-cost
    project with a supporter (supported zero-cost projects are always selected), through every entry point
    (resolute/irresolute, plain/iterated, sat_class/sat_profile, every form of initial_budget_allocation)."""
    from fractions import Fraction as Fr
    m = rng.choice([1, 2, 3, 3, 4])
    n = rng.choice([1, 2, 3, 4])
    costs = [Fr(rng.choice([0, 1, 2, 3, "3/2"])) for _ in range(m)]
    z = rng.randrange(m)
    costs[z] = Fr(0)
    kind = rng.choice(["approval", "approval", "cardinal", "ordinal"])
    ballots = []
    for v in range(n):
        S = sorted(rng.sample(range(m), rng.randrange(0, m + 1)))
        if v == 0 and z not in S:
            S = sorted(S + [z])
        if kind == "approval":
            ballots.append(S)
        elif kind == "cardinal":
            ballots.append({str(j): pb.qs(rng.choice([1, 2, 3])) for j in S})
        else:
            rng.shuffle(S)
            if v == 0:                       # Borda gives 0 to the last position
                S = [z] + [j for j in S if j != z] + ([j for j in range(m) if j not in S][:1])
            ballots.append(S)
    init = []
    if rng.random() < 0.5:
        pos = [j for j in range(m) if costs[j] > 0]
        if pos:
            init = rng.sample(pos, rng.randrange(1, min(2, len(pos)) + 1))
    B = sum((costs[j] for j in init), Fr(0))
    sat = {"approval": ["Cardinality_Sat", "Relative_Cardinality_Sat", "Cardinality_Sat"],
           "cardinal": ["Additive_Cardinal_Sat", "Cardinality_Sat"],
           "ordinal": ["Additive_Borda_Sat", "Cardinality_Sat"]}[kind]
    case = {"costs": [pb.qs(c) for c in costs], "budget": pb.qs(B), "ballot": kind, "ballots": ballots,
            "sat": rng.choice(sat), "multi": rng.random() < 0.4,
            "tb": rng.choice(["lexico", "min_cost", "max_cost"]), "init": init,
            "init_form": rng.choice(["list", "tuple", "set", "gen", "iter", "ba"]), "stream": "boundary"}
    case["resolute"] = not (allow_irresolute and rng.random() < 0.3)
    if rng.random() < 0.2:
        case["inc"] = pb.qs(rng.choice([Fr(1, 2), Fr(1), Fr(1, 3)]))
    return _finish(rng, case)


def gen_appscore_tie(rng):
    """app_score tie-breaking on an approval MultiProfile: two projects with an exact rho tie whose order by
    number of approving VOTERS is the reverse of their order by number of DISTINCT approving ballots, and
    buying either makes the other unaffordable (Cardinality_Sat; unit = the share of a voter)."""
    from fractions import Fraction as Fr
    unit = Fr(rng.choice([1, 2, "1/2", 3]))
    A, Bp, C, D = 0, 1, 2, 3
    rest = [[A, Bp], [Bp], [Bp, C]] + ([[Bp, D]] if rng.random() < 0.4 else [])
    kx = len(rest)                            # copies of {A}: one more approving voter than B has
    ballots = [[A]] * kx + rest
    nA = sum(1 for b in ballots if A in b)
    nB = sum(1 for b in ballots if Bp in b)
    for _ in range(rng.choice([0, 0, 1])):
        ballots = ballots + [[]]
    n = len(ballots)
    costs = [unit * nA, unit * nB, unit * rng.choice([5, 7]), unit * rng.choice([5, 7])]
    perm = list(range(4))
    rng.shuffle(perm)
    costs2 = [None] * 4
    for j in range(4):
        costs2[perm[j]] = costs[j]
    ballots = [sorted(perm[j] for j in b) for b in ballots]
    rng.shuffle(ballots)
    case = {"costs": [pb.qs(c) for c in costs2], "budget": pb.qs(unit * n), "ballot": "approval",
            "ballots": ballots, "sat": "Cardinality_Sat", "multi": rng.random() < 0.8, "tb": "app_score",
            "resolute": rng.random() < 0.85, "stream": "appscore"}
    return _finish(rng, case)


def gen_near(rng):
    """NEAR-BOUNDARY stream: amounts with large denominators such that in some round a supporter's remaining
    money differs from rho * utility by a relative 1e-7 ... 1e-15 in either direction (or by exactly 0), the
    supporters' money differs from the cost by such a margin, or two projects' rho do.  Families:
      overlap  -- a{v0, A..} is bought first and leaves v0 with s(1-x); b{v0, B.., BC..} costs
                  nB * s(1-x) * (1+delta): v0 is short of / above his equal share by the factor delta.  In the
                  cardinal variant a third project c{BC..} (score 1/10, so it comes last) costs what its
                  supporters keep -- half way between what they keep when v0's shortfall is paid by them and
                  what they would keep if it were ignored: affordable exactly when the shortfall is ignored;
      twins    -- two projects with the same supporters and costs c, c(1+eps); tie-breaking prefers the dearer.
    Plain lists, MultiProfiles, and MultiProfiles with multiplicities 10^4..10^5 plus single voters."""
    from fractions import Fraction as Fr
    k = rng.randrange(7, 16)
    delta = rng.choice([1, 1, 1, -1, -1, 0]) * Fr(1, 10 ** k) * rng.choice([1, 2, 3, 5])
    cardinal = rng.random() < 0.6
    big = rng.random() < 0.3
    fam = "twins" if rng.random() < 0.2 else "overlap"

    def mult():
        return rng.randrange(10 ** 4, 10 ** 5) if big and rng.random() < 0.6 else rng.choice([1, 1, 1, 2, 3])

    if fam == "twins":
        cls_ = [([0, 1], mult()), ([0, 1, 2], mult()), ([2], 1)]
        if rng.random() < 0.5:
            cls_.append(([], rng.choice([1, 2])))
        n = sum(mu for _, mu in cls_)
        s_ = Fr(rng.choice([1, 1, "3/2", "7/3", 10]))
        nS = cls_[0][1] + cls_[1][1]
        c0 = nS * s_ * Fr(rng.choice(["2/3", "3/4", "9/10", 1]))
        costs = [c0, c0 * (1 + abs(delta) if delta else 1), s_ * 3 * n]
        scores = {0: 1, 1: 1, 2: 1}
        tb = rng.choice(["max_cost", ["perm", [1, 0, 2]], "lexico"])
    else:
        m0 = 1 if big else rng.choice([1, 1, 2])
        cls_ = [([0, 1], m0)]                                  # v0: supports a and b
        if rng.random() < 0.7:
            cls_.append(([0], mult()))                         # A only
        mB = mult() if rng.random() < 0.6 else 0
        if mB:
            cls_.append(([1], mB))                             # B only
        mBC = mult()
        cls_.append(([1, 2], mBC))                             # B and c
        if rng.random() < 0.4:
            cls_.append(([], rng.choice([1, 2])))
        n = sum(mu for _, mu in cls_)
        nA = sum(mu for S, mu in cls_ if 0 in S)
        nB = sum(mu for S, mu in cls_ if 1 in S)
        s_ = Fr(rng.choice([1, 1, "3/2", "7/3", 10, "1/3"]))
        x = Fr(rng.randrange(20, 46), 100)
        cA = nA * s_ * x
        b0 = s_ * (1 - x)
        cB = nB * b0 * (1 + delta)
        pm = cB / nB                                           # what the others pay if v0's shortfall is ignored
        pe = (cB - m0 * b0) / (nB - m0) if delta > 0 else pm   # what they really pay
        if delta > 0:
            cC = mBC * ((s_ - pe) + (s_ - pm)) / 2
        else:
            cC = mBC * (s_ - pe) * rng.choice([1, 1, 1 + Fr(1, 10 ** k)])
        costs = [cA, cB, cC if cardinal else s_ * 3 * n]
        scores = {0: 1, 1: 1, 2: Fr(1, 10)}
        tb = rng.choice(["lexico", "min_cost", "max_cost"])
    B = s_ * n
    rng.shuffle(cls_)
    m = 3
    perm = list(range(m))
    rng.shuffle(perm)
    costs2 = [None] * m
    for j in range(m):
        costs2[perm[j]] = costs[j]
    if isinstance(tb, list):
        tb = ["perm", [tb[1][perm.index(j)] for j in range(m)]]

    def ballot(S):
        if cardinal:
            return {str(perm[j]): pb.qs(scores[j]) for j in S}
        return sorted(perm[j] for j in S)

    case = {"costs": [pb.qs(c) for c in costs2], "budget": pb.qs(B), "ballot": "cardinal" if cardinal else "approval",
            "sat": "Additive_Cardinal_Sat" if cardinal else "Cardinality_Sat", "tb": tb, "stream": "near",
            "near_family": fam, "near_delta": pb.qs(delta)}
    if big or rng.random() < 0.3:
        case["ballots"] = [ballot(S) for S, _ in cls_]
        case["ballot_mults"] = [mu for _, mu in cls_]
        case["multi"] = True
    else:
        bl = [ballot(S) for S, mu in cls_ for _ in range(mu)]
        rng.shuffle(bl)
        case["ballots"] = bl
        case["multi"] = rng.random() < 0.4
    if rng.random() < 0.2:
        case["inc"] = pb.qs(B / n * rng.choice([Fr(1, 4), Fr(1, 3), Fr(1, 10 ** 7)]) if rng.random() < 0.7 else Fr(1, 2))
        if pb.F(case["inc"]) < max(costs) / 40:
            case["inc"] = pb.qs(max(costs) / 40)
    return _finish(rng, case)


def gen_free(rng, allow_irresolute=True):
    """Several SUPPORTED zero-cost projects (they are selected unconditionally: no auction, no tie-breaking
    between them) next to priced projects with or without a genuine rho tie; every ballot type; mostly
    refuse_tie_breaking (raises exactly when some round has two or more tied candidates)."""
    from fractions import Fraction as Fr
    nfree = rng.choice([2, 2, 3])
    npriced = rng.choice([0, 1, 2, 2, 3])
    m = nfree + npriced
    n = rng.choice([1, 2, 3, 4, 5])
    tie = npriced >= 2 and rng.random() < 0.4
    if tie:
        base = Fr(rng.choice([1, 2, 3]))
        pc = [base] * npriced
    else:
        pc = rng.sample([Fr(1), Fr(2), Fr(3), Fr(5), Fr(7, 2), Fr(11, 3), Fr(13, 5)], npriced)
    costs = [Fr(0)] * nfree + pc
    kind = rng.choice(["approval", "approval", "cardinal", "cumulative", "ordinal"])
    ballots = []
    for v in range(n):
        if tie or rng.random() < 0.5:
            S = list(range(m)) if rng.random() < 0.7 else sorted(rng.sample(range(m), rng.randrange(1, m + 1)))
        else:
            S = sorted(rng.sample(range(m), rng.randrange(0, m + 1)))
        if v == 0:
            S = sorted(set(S) | set(range(nfree)))          # every free project has a supporter
        if kind == "approval":
            ballots.append(S)
        elif kind in ("cardinal", "cumulative"):
            ballots.append({str(j): pb.qs(1 if tie else rng.choice([1, 2, 3, 5])) for j in S})
        else:
            S2 = list(S)
            rng.shuffle(S2)
            if v == 0:                                       # Borda: the last position scores 0
                S2 = [j for j in S2 if j < nfree] + [j for j in S2 if j >= nfree]
                if len(S2) == nfree:
                    S2 = S2 + [j for j in range(m) if j not in S2][:1]
            ballots.append(S2)
    tot = sum(pc, Fr(0))
    B = rng.choice([tot, tot / 2 + Fr(1, 3), tot + 1, Fr(n)]) if tot else Fr(rng.choice([0, 1, 2]))
    perm = list(range(m))
    rng.shuffle(perm)
    costs2 = [None] * m
    for j in range(m):
        costs2[perm[j]] = costs[j]
    ren = lambda b: ({str(perm[int(k)]): v for k, v in b.items()} if isinstance(b, dict)
                     else ([perm[j] for j in b] if kind == "ordinal" else sorted(perm[j] for j in b)))
    sat = {"approval": ["Cardinality_Sat", "Relative_Cardinality_Sat"],
           "cardinal": ["Additive_Cardinal_Sat", "Cardinality_Sat"],
           "cumulative": ["Additive_Cardinal_Sat", "Cardinality_Sat"],
           "ordinal": ["Additive_Borda_Sat", "Cardinality_Sat"]}[kind]
    case = {"costs": [pb.qs(c) for c in costs2], "budget": pb.qs(B), "ballot": kind,
            "ballots": [ren(b) for b in ballots], "sat": rng.choice(sat), "multi": rng.random() < 0.4,
            "tb": "refuse" if rng.random() < 0.7 else rng.choice(["lexico", "min_cost", "max_cost"]),
            "stream": "free"}
    case["resolute"] = not (allow_irresolute and rng.random() < 0.25)
    if case["tb"] != "refuse" and rng.random() < 0.2:
        case["inc"] = pb.qs(rng.choice([Fr(1, 2), Fr(1), Fr(1, 3)]))
    return _finish(rng, case)


# ----------------------------------------------------------------------------------------------
# building the library objects
# ----------------------------------------------------------------------------------------------
def build(case):
    """-> inst, projs, profile, sat_class, sat_profile, utils (per MESVoter, by rank), mults, tb rule, tb keys"""
    import pabutools.election as E
    from pabutools import tiebreaking as T

    inst, projs = pb.make_instance(case["costs"], case["budget"])
    if case.get("ballot_mults"):
        # a multiprofile given as distinct ballots + multiplicities (up to 10^5 copies of a ballot)
        prof = pb.make_profile(case["ballot"], inst, projs, case["ballots"], True)
        ks = list(prof.keys())
        assert len(ks) == len(case["ballots"]), "ballots of a ballot_mults case must be pairwise distinct"
        for k, mu in zip(ks, case["ballot_mults"]):
            prof[k] = int(mu)
    else:
        prof = pb.make_profile(case["ballot"], inst, projs, case["ballots"], case.get("multi", False))
    cls = getattr(E, case["sat"])
    sp = prof.as_sat_profile(cls)
    sats = list(sp)
    utils = [[pb.qs(s.sat_project(p)) for p in projs] for s in sats]
    mults = [int(sp.multiplicity(s)) for s in sats]
    tb = case["tb"]
    if tb == "lexico":
        rule = T.lexico_tie_breaking
    elif tb == "app_score":
        rule = T.app_score_tie_breaking
    elif tb == "min_cost":
        rule = T.min_cost_tie_breaking
    elif tb == "max_cost":
        rule = T.max_cost_tie_breaking
    elif tb == "refuse":
        rule = T.refuse_tie_breaking
    else:
        perm = {pb.pname(i): k for i, k in enumerate(tb[1])}
        rule = T.TieBreakingRule(lambda inst_, prof_, p: perm[p.name])
    keys = tb_keys(case)
    return inst, projs, prof, cls, sp, sats, utils, mults, rule, keys


def tb_keys(case):
    """Key of every project under the case's tie-breaking rule, computed FROM THE CASE (the meaning of the
    shipped rules: name order / minus the number of voters approving the project, every voter counted /
    cost / minus cost) -- not from the library's TieBreakingRule objects, so that a defect in those is
    seen as a difference from model and spec."""
    tb = case["tb"]
    m = len(case["costs"])
    if tb in ("lexico", "refuse"):      # refuse: the key is never used (the rule raises when consulted)
        return [pb.qs(j) for j in range(m)]
    if tb == "app_score":
        bm = case.get("ballot_mults") or [1] * len(case["ballots"])
        return [pb.qs(-sum(mu for b, mu in zip(case["ballots"], bm) if j in b or str(j) in b)) for j in range(m)]
    if tb == "min_cost":
        return [pb.qs(pb.F(c)) for c in case["costs"]]
    if tb == "max_cost":
        return [pb.qs(-pb.F(c)) for c in case["costs"]]
    return [pb.qs(k) for k in tb[1]]


def resolved_binary(case):
    """method_of_equal_shares: binary_sat=None means 'approval profile'"""
    return case["binary"] if case["binary"] is not None else case["ballot"] == "approval"


def call_rule(case, inst, prof, cls, sp, rule, analytics=False):
    from pabutools.rules import method_of_equal_shares

    kw = dict(tie_breaking=rule, resoluteness=case.get("resolute", True), binary_sat=case["binary"],
              analytics=analytics)
    if case.get("inc") is not None:
        kw["voter_budget_increment"] = pb.num(case["inc"])
    if case.get("init") or case.get("init_form"):
        from pabutools.rules.budgetallocation import BudgetAllocation
        L = [p for p in inst if pb.rank(p) in case.get("init", [])]
        L.sort(key=lambda p: case["init"].index(pb.rank(p)))
        form = case.get("init_form", "list")
        kw["initial_budget_allocation"] = {"list": lambda: L, "tuple": lambda: tuple(L), "set": lambda: set(L),
                                           "gen": lambda: (p for p in L), "iter": lambda: iter(L),
                                           "ba": lambda: BudgetAllocation(L)}[form]()
    if case.get("sat_mode") == "profile":
        kw["sat_profile"] = sp
    else:
        kw["sat_class"] = cls
    return method_of_equal_shares(inst, prof, **kw)


# ----------------------------------------------------------------------------------------------
# exact simulation used for the input-distribution statistics only
# ----------------------------------------------------------------------------------------------
def _rho(cost, sup):
    """least rho with sum m*min(b, rho*u) >= cost; sup = [(b,u,m)], None if unaffordable"""
    if sum(m * b for b, u, m in sup) < cost:
        return None
    sup = sorted(sup, key=lambda s: s[0] / s[1])
    contrib, denom = Fraction(0), sum(m * u for b, u, m in sup)
    for b, u, m in sup:
        a = (cost - contrib) / denom
        if a * u <= b:
            return a
        contrib += m * b
        denom -= m * u
    return None


def measure(case, utils, mults, keys):
    """flags describing which branches the (resolute, plain) run of this election goes through"""
    costs = [pb.F(c) for c in case["costs"]]
    U = [[pb.F(x) for x in row] for row in utils]
    K = [pb.F(k) for k in keys]
    n = sum(mults)
    nv = len(U)
    B = pb.F(case["budget"])
    m = len(costs)
    init = case.get("init", [])
    b = [(B - sum((costs[j] for j in init), Fraction(0))) / n] * nv
    sups = {p: [i for i in range(nv) if U[i][p] > 0] for p in range(m)}
    pool = [p for p in range(m) if sups[p] and costs[p] > 0 and p not in init]
    flags = {"mixed": False, "tie": False, "lazy": False, "lazy_tie": False,
             "zero_cost": any(sups[p] and costs[p] == 0 and p not in init for p in range(m)), "init": bool(init),
             "unaffordable": False, "rounds": 0, "nonuniform_util": False, "mult2": any(x >= 2 for x in mults),
             "near_poor": False, "near_rich": False, "exact_boundary": False, "near_tie": False,
             "near_afford": False, "bigmult": any(x >= 1000 for x in mults)}
    EPS = Fraction(1, 10 ** 6)
    for p in pool:
        if len({U[i][p] for i in sups[p]}) > 1:
            flags["nonuniform_util"] = True
    cache = {p: costs[p] / sum(mults[i] * U[i][p] for i in sups[p]) for p in pool}
    rem = list(pool)
    while True:
        rh = {}
        for p in rem:
            r = _rho(costs[p], [(b[i], U[i][p], mults[i]) for i in sups[p]])
            if r is not None:
                rh[p] = r
        for p in rem:
            tot = sum(mults[i] * b[i] for i in sups[p])
            if tot != costs[p] and abs(tot - costs[p]) <= EPS * costs[p]:
                flags["near_afford"] = True
        if not rh:
            flags["unaffordable"] = flags["unaffordable"] or bool(rem)
            break
        best = min(rh.values())
        for p in rh:
            # a supporter whose money is within 1e-6 (relative) of rho * utility: just poor / just rich / exactly on it
            for i in sups[p]:
                need = rh[p] * U[i][p]
                d = b[i] - need
                if d == 0:
                    flags["exact_boundary"] = True
                elif abs(d) <= EPS * need:
                    flags["near_poor" if d < 0 else "near_rich"] = True
            if rh[p] != best and abs(rh[p] - best) <= EPS * best:
                flags["near_tie"] = True
        tied = sorted(p for p in rh if rh[p] == best)
        if len(tied) > 1:
            flags["tie"] = True
        # lazy scan: projects whose cached value exceeds the best are never evaluated
        skipped = [p for p in rh if cache[p] > best]
        if skipped:
            flags["lazy"] = True
        if any(cache[p] == best and p not in tied for p in rh) or any(cache[p] == best for p in tied if len(tied) > 1):
            flags["lazy_tie"] = True
        for p in rh:
            if cache[p] <= best:
                cache[p] = rh[p]
        sel = sorted(tied, key=lambda p: K[p])[0]
        poor = [i for i in sups[sel] if b[i] < best * U[i][sel]]
        if poor and len(poor) < len(sups[sel]):
            flags["mixed"] = True
        for i in sups[sel]:
            b[i] -= min(b[i], best * U[i][sel])
        if any(p not in rh for p in rem):
            flags["unaffordable"] = True
        rem = [p for p in rem if p != sel and p in rh]
        flags["rounds"] += 1
    return flags
