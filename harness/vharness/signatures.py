"""Decidable signature predicates for recorded findings (known_findings.json).
pred(case, observed, code) -> bool; a violation is suppressed only when its (shrunk) case matches
the predicate of a listed finding of the same property."""
import glob as _glob
import importlib as _importlib
import os as _os

# property owners add predicates in their own vharness/sig_<id>.py; they are collected here
for _f in sorted(_glob.glob(_os.path.join(_os.path.dirname(__file__), "sig_*.py"))):
    _m = _importlib.import_module("vharness." + _os.path.basename(_f)[:-3])
    for _k, _v in vars(_m).items():
        if callable(_v) and not _k.startswith("_"):
            globals().setdefault(_k, _v)
