"""Decidable signature predicates for recorded findings (known_findings.json).
pred(case, observed, code) -> bool; a violation is suppressed only when its (shrunk) case matches
the predicate of a listed finding of the same property."""
