"""Fail-closed `ast` extractor: facts read directly from /repo's source on every run and written
to coq/theories/Generated/Anchors.v (constants, wrap tables, tie-breaking keys).  Anything that
does not have the expected shape raises, which breaks the build (and therefore the check)."""
from __future__ import annotations

import ast
import os


class AnchorError(Exception):
    pass


def _parse(repo, rel):
    path = os.path.join(repo, rel)
    return ast.parse(open(path).read(), filename=path)


def _const(tree, name):
    for node in ast.walk(tree):
        if isinstance(node, ast.Assign) and len(node.targets) == 1:
            t = node.targets[0]
            if isinstance(t, ast.Name) and t.id == name and isinstance(node.value, ast.Constant):
                return node.value.value
    raise AnchorError("constant %s not found" % name)


def _wrap_tables(tree):
    """{ClassName: [method names]} for every `X._wrap_methods([...])` call at module level."""
    out = {}
    for node in tree.body:
        if isinstance(node, ast.Expr) and isinstance(node.value, ast.Call):
            f = node.value.func
            if isinstance(f, ast.Attribute) and f.attr == "_wrap_methods" and isinstance(f.value, ast.Name):
                arg = node.value.args[0]
                if not isinstance(arg, (ast.List, ast.Tuple)) or not all(
                        isinstance(e, ast.Constant) and isinstance(e.value, str) for e in arg.elts):
                    raise AnchorError("unexpected _wrap_methods argument in class " + f.value.id)
                out[f.value.id] = [e.value for e in arg.elts]
    return out


def extract(repo):
    facts = {}
    pr = _parse(repo, "pabutools/analysis/priceability.py")
    facts["CHECK_ROUND_PRECISION"] = int(_const(pr, "CHECK_ROUND_PRECISION"))
    facts["ROUND_PRECISION"] = int(_const(pr, "ROUND_PRECISION"))
    wraps = {}
    for rel in ["pabutools/election/instance.py", "pabutools/rules/budgetallocation.py",
                "pabutools/election/ballot/approvalballot.py", "pabutools/election/ballot/cardinalballot.py",
                "pabutools/election/ballot/cumulativeballot.py", "pabutools/election/ballot/ordinalballot.py",
                "pabutools/election/profile/profile.py", "pabutools/election/profile/approvalprofile.py",
                "pabutools/election/profile/cardinalprofile.py", "pabutools/election/profile/cumulativeprofile.py",
                "pabutools/election/profile/ordinalprofile.py",
                "pabutools/election/satisfaction/satisfactionprofile.py"]:
        wraps.update(_wrap_tables(_parse(repo, rel)))
    facts["wraps"] = wraps
    return facts


def render(facts) -> str:
    lines = ["(* Generated/Anchors.v -- REGENERATED from /repo's source on every run by",
             "   harness/vharness/anchors.py.  Do not edit. *)",
             "From Coq Require Import List String ZArith.", "Import ListNotations.", "Open Scope string_scope.", ""]
    lines.append("Definition CHECK_ROUND_PRECISION : Z := %d%%Z." % facts["CHECK_ROUND_PRECISION"])
    lines.append("Definition ROUND_PRECISION : Z := %d%%Z." % facts["ROUND_PRECISION"])
    for cls in sorted(facts["wraps"]):
        names = sorted(facts["wraps"][cls])
        lines.append("Definition wrapped_%s : list string := [%s]." % (
            cls, "; ".join('"%s"' % n for n in names)))
    return "\n".join(lines) + "\n"


def write(repo, path):
    txt = render(extract(repo))
    os.makedirs(os.path.dirname(path), exist_ok=True)
    old = open(path).read() if os.path.exists(path) else None
    if old != txt:
        with open(path, "w") as f:
            f.write(txt)


if __name__ == "__main__":
    import sys
    print(render(extract(sys.argv[1] if len(sys.argv) > 1 else "/repo")))
