"""Fail-closed `ast` extractor: facts read directly from /repo's source on every run and written
to coq/theories/Generated/Anchors.v (constants, wrap tables, tie-breaking keys).  Anything that
does not have the expected shape raises, which breaks the build (and therefore the check)."""
from __future__ import annotations

import ast
import os


class AnchorError(Exception):
    pass


def _parse(repo, rel):
    path = os.path.join(repo, rel)
    return ast.parse(open(path).read(), filename=path)


def _const(tree, name):
    for node in ast.walk(tree):
        if isinstance(node, ast.Assign) and len(node.targets) == 1:
            t = node.targets[0]
            if isinstance(t, ast.Name) and t.id == name and isinstance(node.value, ast.Constant):
                return node.value.value
    raise AnchorError("constant %s not found" % name)


def _str_list(node):
    """a literal list/tuple of strings, possibly built with starred literal groups or `+` of such literals"""
    if isinstance(node, (ast.List, ast.Tuple)):
        out = []
        for e in node.elts:
            if isinstance(e, ast.Starred):
                out += _str_list(e.value)
            elif isinstance(e, ast.Constant) and isinstance(e.value, str):
                out.append(e.value)
            else:
                raise AnchorError("non-literal element in a _wrap_methods table")
        return out
    if isinstance(node, ast.BinOp) and isinstance(node.op, ast.Add):
        return _str_list(node.left) + _str_list(node.right)
    raise AnchorError("unexpected _wrap_methods argument: " + ast.dump(node)[:120])


def _wrap_tables(tree):
    """{ClassName: [method names]} for every `X._wrap_methods(<literal list of names>)` call at module level
    (several calls for one class are accumulated)."""
    out = {}
    for node in tree.body:
        if isinstance(node, ast.Expr) and isinstance(node.value, ast.Call):
            f = node.value.func
            if isinstance(f, ast.Attribute) and f.attr == "_wrap_methods" and isinstance(f.value, ast.Name):
                if len(node.value.args) != 1 or node.value.keywords:
                    raise AnchorError("unexpected _wrap_methods call for class " + f.value.id)
                out.setdefault(f.value.id, [])
                out[f.value.id] += _str_list(node.value.args[0])
    return out


def _func(tree, name):
    for node in ast.walk(tree):
        if isinstance(node, ast.FunctionDef) and node.name == name:
            return node
    raise AnchorError("function %s not found" % name)


def _assign_value(func, target):
    """the value expression of the (unique) plain assignment `target = ...` inside func"""
    found = [n.value for n in ast.walk(func) if isinstance(n, ast.Assign) and len(n.targets) == 1
             and isinstance(n.targets[0], ast.Name) and n.targets[0].id == target]
    if len(found) != 1:
        raise AnchorError("expected exactly one assignment to %s in %s, found %d" % (target, func.name, len(found)))
    return found[0]


def _bigm_factor(pr):
    """priceable(): INF = max([instance.budget_limit] + [c.cost for c in C]) * <int>  (or <int> * max(...), possibly
    inside a helper function of the module): the unique product `<int constant> * <expression mentioning
    budget_limit and max(...)>` of the module."""
    found = []
    for v in ast.walk(pr):
        if isinstance(v, ast.BinOp) and isinstance(v.op, ast.Mult):
            for k, e in ((v.right, v.left), (v.left, v.right)):
                if isinstance(k, ast.Constant) and isinstance(k.value, int) and not isinstance(k.value, bool):
                    src = ast.unparse(e)
                    if "budget_limit" in src and "max(" in src:
                        found.append(k.value)
    if len(set(found)) != 1:
        raise AnchorError("big-M constant of priceable(): expected one product <int> * max(budget_limit, costs...), found %r" % (found,))
    return found[0]


def _increase_defaults(ex):
    """exhaustion_by_budget_increase(): budget_step = instance.budget_limit * frac(1, N);
    budget_bound = instance.budget_limit * (profile.num_ballots() + K)"""
    f = _func(ex, "exhaustion_by_budget_increase")
    vals = {}
    for n in ast.walk(f):
        if isinstance(n, ast.Assign) and len(n.targets) == 1 and isinstance(n.targets[0], ast.Name) \
                and n.targets[0].id in ("budget_step", "budget_bound"):
            vals.setdefault(n.targets[0].id, []).append(n.value)
    try:
        (st,) = vals["budget_step"]
        (bd,) = vals["budget_bound"]
        assert isinstance(st, ast.BinOp) and isinstance(st.op, ast.Mult) and ast.unparse(st.left) == "instance.budget_limit"
        assert isinstance(st.right, ast.Call) and ast.unparse(st.right.func) == "frac" and len(st.right.args) == 2
        num, den = (a.value for a in st.right.args)
        assert isinstance(bd, ast.BinOp) and isinstance(bd.op, ast.Mult) and ast.unparse(bd.left) == "instance.budget_limit"
        r = bd.right
        assert isinstance(r, ast.BinOp) and isinstance(r.op, ast.Add) and ast.unparse(r.left) == "profile.num_ballots()"
        k = r.right.value
        return int(num), int(den), int(k)
    except Exception as e:
        raise AnchorError("defaults of exhaustion_by_budget_increase no longer have the expected shape: %r" % (e,))


def _class(tree, name):
    for node in tree.body:
        if isinstance(node, ast.ClassDef) and node.name == name:
            return node
    raise AnchorError("class %s not found" % name)


def _relax_inf_factor(rx):
    """Relaxation.__init__: self.INF = instance.budget_limit * <int>  (or <int> * instance.budget_limit)"""
    init = _func(_class(rx, "Relaxation"), "__init__")
    found = []
    for n in ast.walk(init):
        if isinstance(n, ast.Assign) and len(n.targets) == 1 and ast.unparse(n.targets[0]) == "self.INF":
            v = n.value
            if isinstance(v, ast.BinOp) and isinstance(v.op, ast.Mult):
                for k, e in ((v.right, v.left), (v.left, v.right)):
                    if isinstance(k, ast.Constant) and isinstance(k.value, int) and not isinstance(k.value, bool) \
                            and ast.unparse(e) == "instance.budget_limit":
                        found.append(k.value)
    if len(found) != 1:
        raise AnchorError("Relaxation.INF: expected self.INF = instance.budget_limit * <int>, found %r" % (found,))
    return found[0]


def _relax_budget_fraction(rx):
    """MinAddOffset.BUDGET_FRACTION = <decimal literal>  -> exact (numerator, denominator) of the literal's text"""
    from fractions import Fraction

    cls = _class(rx, "MinAddOffset")
    found = [n.value for n in cls.body if isinstance(n, ast.Assign) and len(n.targets) == 1
             and isinstance(n.targets[0], ast.Name) and n.targets[0].id == "BUDGET_FRACTION"]
    if len(found) != 1 or not isinstance(found[0], ast.Constant) or isinstance(found[0].value, bool) \
            or not isinstance(found[0].value, (int, float)):
        raise AnchorError("MinAddOffset.BUDGET_FRACTION is not a numeric literal")
    fr = Fraction(repr(found[0].value))
    if fr <= 0:
        raise AnchorError("MinAddOffset.BUDGET_FRACTION is not positive")
    return fr.numerator, fr.denominator


def _relax_vec_cap(rx, inf_factor):
    """MinAddVector.add_beta: the two rows that force beta[c] = 0 on selected projects,
    beta[c] <= (1 - x_vars[c]) * E   and   (x_vars[c] - 1) * E <= beta[c];
    E = self.instance.budget_limit -> 1,  E = self.INF -> the INF factor  (the cap on |beta[c]| of unselected
    projects is that many budgets)"""
    f = _func(_class(rx, "MinAddVector"), "add_beta")
    caps = []
    for n in ast.walk(f):
        if isinstance(n, ast.Compare) and len(n.ops) == 1 and isinstance(n.ops[0], ast.LtE):
            l, r = ast.unparse(n.left), ast.unparse(n.comparators[0])
            for side, other in ((r, l), (l, r)):
                for pat in ("(1 - x_vars[c]) * ", "(x_vars[c] - 1) * "):
                    if side.startswith(pat) and other == "beta[c]":
                        caps.append(side[len(pat):])
    if len(caps) != 2 or len(set(caps)) != 1:
        raise AnchorError("MinAddVector.add_beta: forcing rows not of the anchored shape: %r" % (caps,))
    e = caps[0]
    if e in ("self.instance.budget_limit", "self.C.budget_limit"):
        return 1
    if e == "self.INF":
        if not inf_factor:
            raise AnchorError("MinAddVector cap uses self.INF whose factor could not be extracted")
        return inf_factor
    raise AnchorError("MinAddVector.add_beta: unknown cap expression %r" % e)


def _round_cmp_mode(ut):
    """utils.round_cmp: `return round(a, precision) - round(b, precision)` -> 0 (difference of the rounded values),
    `return round(a - b, precision)` -> 1 (the rounded difference); anything else fails closed"""
    f = _func(ut, "round_cmp")
    rets = [n for n in ast.walk(f) if isinstance(n, ast.Return)]
    if len(rets) != 1 or rets[0].value is None:
        raise AnchorError("round_cmp: expected exactly one return")
    src = ast.unparse(rets[0].value).replace(" ", "")
    if src == "round(a,precision)-round(b,precision)":
        return 0
    if src == "round(a-b,precision)":
        return 1
    raise AnchorError("round_cmp: unknown shape %r" % src)


def extract(repo):
    """Every fact is extracted on its own; a fact whose source no longer has the anchored shape is replaced by
    a sentinel (0 / -1 / empty table) and listed in facts["failed"], so that exactly the theorems that depend on
    it stop checking (fail closed, but only where it matters)."""
    facts = {"failed": []}

    def attempt(key, thunk, sentinel):
        try:
            facts[key] = thunk()
        except Exception as e:
            facts[key] = sentinel
            facts["failed"].append("%s: %r" % (key, e))

    pr = _parse(repo, "pabutools/analysis/priceability.py")
    attempt("CHECK_ROUND_PRECISION", lambda: int(_const(pr, "CHECK_ROUND_PRECISION")), -1)
    attempt("ROUND_PRECISION", lambda: int(_const(pr, "ROUND_PRECISION")), -1)
    attempt("BIGM_FACTOR", lambda: _bigm_factor(pr), 0)
    attempt("ROUND_CMP_MODE", lambda: _round_cmp_mode(_parse(repo, "pabutools/utils.py")), -1)
    try:
        rx = _parse(repo, "pabutools/analysis/priceability_relaxation.py")
    except Exception as e:   # every relaxation anchor then fails on its own below
        rx = ast.parse("")
        facts["failed"].append("priceability_relaxation.py: %r" % (e,))
    attempt("RELAX_INF_FACTOR", lambda: _relax_inf_factor(rx), 0)
    attempt("RELAX_BUDGET_FRACTION", lambda: _relax_budget_fraction(rx), (0, 1))
    attempt("RELAX_VEC_CAP_FACTOR", lambda: _relax_vec_cap(rx, facts.get("RELAX_INF_FACTOR", 0)), 0)
    attempt("INCREASE_DEFAULTS", lambda: _increase_defaults(_parse(repo, "pabutools/rules/exhaustion.py")), (0, 1, 0))
    wraps = {}
    for rel in ["pabutools/election/instance.py", "pabutools/rules/budgetallocation.py",
                "pabutools/election/ballot/approvalballot.py", "pabutools/election/ballot/cardinalballot.py",
                "pabutools/election/ballot/cumulativeballot.py", "pabutools/election/ballot/ordinalballot.py",
                "pabutools/election/profile/profile.py", "pabutools/election/profile/approvalprofile.py",
                "pabutools/election/profile/cardinalprofile.py", "pabutools/election/profile/cumulativeprofile.py",
                "pabutools/election/profile/ordinalprofile.py",
                "pabutools/election/satisfaction/satisfactionprofile.py"]:
        try:
            wraps.update(_wrap_tables(_parse(repo, rel)))
        except Exception as e:
            facts["failed"].append("wrap tables of %s: %r" % (rel, e))
    facts["wraps"] = wraps
    return facts


def render(facts) -> str:
    lines = ["(* Generated/Anchors.v -- REGENERATED from /repo's source on every run by",
             "   harness/vharness/anchors.py.  Do not edit. *)",
             "From Coq Require Import List String ZArith.", "Import ListNotations.", "Open Scope string_scope.", ""]
    for f in facts.get("failed", []):
        lines.append("(* EXTRACTION FAILED (sentinel value written): %s *)" % f.replace("*)", "* )"))
    lines.append("Definition CHECK_ROUND_PRECISION : Z := %d%%Z." % facts["CHECK_ROUND_PRECISION"])
    lines.append("Definition ROUND_PRECISION : Z := %d%%Z." % facts["ROUND_PRECISION"])
    lines.append("(* utils.round_cmp: 0 = round(a, p) - round(b, p); 1 = round(a - b, p) *)")
    lines.append("Definition ANCHOR_ROUND_CMP_MODE : Z := %d%%Z." % facts["ROUND_CMP_MODE"])
    lines.append("(* priceable(): INF = max(budget, costs) * BIGM_FACTOR *)")
    lines.append("Definition ANCHOR_BIGM_FACTOR : Z := %d%%Z." % facts["BIGM_FACTOR"])
    lines.append("(* priceability_relaxation.py: Relaxation.INF = budget * RELAX_INF_FACTOR; MinAddOffset.BUDGET_FRACTION;")
    lines.append("   MinAddVector forces beta[c] = 0 on selected projects with rows whose big-M is RELAX_VEC_CAP_FACTOR budgets *)")
    lines.append("Definition ANCHOR_RELAX_INF_FACTOR : Z := %d%%Z." % facts["RELAX_INF_FACTOR"])
    lines.append("Definition ANCHOR_RELAX_FRACTION_NUM : Z := %d%%Z." % facts["RELAX_BUDGET_FRACTION"][0])
    lines.append("Definition ANCHOR_RELAX_FRACTION_DEN : positive := %d%%positive." % facts["RELAX_BUDGET_FRACTION"][1])
    lines.append("Definition ANCHOR_RELAX_VEC_CAP_FACTOR : Z := %d%%Z." % facts["RELAX_VEC_CAP_FACTOR"])
    n, d, k = facts["INCREASE_DEFAULTS"]
    lines.append("(* exhaustion_by_budget_increase defaults: step = B * (num/den); bound = B * (num_ballots + k) *)")
    lines.append("Definition INCREASE_STEP_NUM : Z := %d%%Z." % n)
    lines.append("Definition INCREASE_STEP_DEN : positive := %d%%positive." % d)
    lines.append("Definition INCREASE_BOUND_PLUS : Z := %d%%Z." % k)
    for cls in sorted(facts["wraps"]):
        names = sorted(facts["wraps"][cls])
        lines.append("Definition wrapped_%s : list string := [%s]." % (
            cls, "; ".join('"%s"' % n for n in names)))
    return "\n".join(lines) + "\n"


def write(repo, path):
    txt = render(extract(repo))
    os.makedirs(os.path.dirname(path), exist_ok=True)
    old = open(path).read() if os.path.exists(path) else None
    if old != txt:
        with open(path, "w") as f:
            f.write(txt)


if __name__ == "__main__":
    import sys
    print(render(extract(sys.argv[1] if len(sys.argv) > 1 else "/repo")))
