"""Signature predicates of the recorded C11 findings (known_findings.json); pred(case, observed, code) -> bool.
A violation is suppressed only when its (shrunk) case satisfies the predicate.  All three are about elections
(case kind "rt") that the Pabulib text format cannot represent."""

# the characters str.splitlines() cuts at
LINEBREAKS = "\n\r\x0b\x0c\x1c\x1d\x1e\x85  "
KEYWORDS = ("meta", "projects", "votes")


def _strings(E):
    for k, v in E["meta"]:
        yield k
        yield v
    for p in E["projects"]:
        yield p["name"]
        for c in p["cats"] + p["targets"]:
            yield c
        for k, v in p["meta"]:
            yield k
            yield v
    for b in E["ballots"]:
        for k, v in b["meta"]:
            yield k
            yield v


def c11_comma_in_list_item(case, o, code):
    """a project id, category or target contains ','"""
    return case.get("kind") == "rt" and any(
        ("," in p["name"]) or any("," in c for c in p["cats"] + p["targets"]) for p in case["E"]["projects"])


def c11_linebreak_in_string(case, o, code):
    """some name, key or metadata value contains a line-break character"""
    return case.get("kind") == "rt" and any(any(ch in s for ch in LINEBREAKS) for s in _strings(case["E"]))


def c11_section_keyword_first_cell(case, o, code):
    """a project id, voter_id or META key is (case-insensitively, after stripping) meta / projects / votes"""
    if case.get("kind") != "rt":
        return False
    E = case["E"]
    firsts = [k for k, _ in E["meta"]] + [p["name"] for p in E["projects"]]
    firsts += [dict(map(tuple, b["meta"])).get("voter_id", "") for b in E["ballots"]]
    return any(s.strip().lower() in KEYWORDS for s in firsts)
