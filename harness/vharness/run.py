import sys
from vharness.core import main

if __name__ == "__main__":
    sys.exit(main())
