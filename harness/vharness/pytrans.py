"""Fail-closed translator of a RESTRICTED PURE PYTHON FRAGMENT into Gallina (`ast` only, pabutools is never imported).

Re-reads, on every run, the satisfaction functions of pabutools/election/satisfaction/{additive,functional,
positional}satisfaction.py and the tie-breaking keys of pabutools/tiebreaking.py and writes
coq/theories/Generated/PyFuncs.v: one `Definition gen_<name>` per translated function, over the vocabulary of the
hand-written prelude coq/theories/Model/PyPrims.v.  Proofs/PyGenSatP.v / Proofs/PyGenTieP.v prove every generated
definition equal to the hand-written model the C10 / rule theorems are about; Props/C10gen.v and Props/TieGen.v
re-export the statements.

Fail closed PER FUNCTION: a function whose source leaves the fragment is written as
`Definition gen_<name> : py_untranslated := Untranslated "<reason>"`, so that exactly the theorems mentioning it
(and the definitions that depend on it, which become sentinels too) stop type-checking.

The fragment, the semantic assumptions and what is not translated: DESIGN.md, section "C10gen / TieGen".
"""
from __future__ import annotations

import ast
import os

# ------------------------------------------------------------------------------------------------------
# types of the fragment
# ------------------------------------------------------------------------------------------------------
Q, B, PROJ, INST, PROFILE, BALLOT, PBALLOT, APROFILE, DICT, STR, NONE, CACHE = (
    "Q", "B", "Proj", "Inst", "Profile", "Ballot", "PBallot", "AProfile", "Dict", "Str", "None", "Cache")


def List(t):
    return ("List", t)


def Fun(args, ret):
    return ("Fun", tuple(args), ret)


def Opt(t):
    return ("Opt", t)


def Tup(a, b):
    return ("Tup", (a, b))


SATCLASS, SATOBJ, SATPROFILE, SATENTRY = "SatClass", "SatObj", "SatProfile", "SatEntry"
PAYMENTS, PAYROW, RELAX, ERRORS = "Payments", "PayRow", "Relax", "Errors"
# list profiles of the proportionality checkers (the source does not handle multiprofiles there): approval / cardinal
APPLP, CARDLP, SATCLASSL, PDICT = "AppLProfile", "CardLProfile", "SatClassL", "ProjDict"


GTY = {Q: "Q", B: "bool", PROJ: "py_proj", INST: "py_inst", PROFILE: "py_profile", BALLOT: "py_ballot",
       PBALLOT: "py_pballot", APROFILE: "py_aprofile", DICT: "py_dict", STR: "string",
       "AppLProfile": "(list py_ballot)", "CardLProfile": "(list py_ballot)", "SatClassL": "py_satclass_l",
       "ProjDict": "(py_proj -> Q)",
       "Payments": "py_payments", "PayRow": "(list Q)", "Relax": "py_relax", "Errors": "bool",
       "SatClass": "py_satclass", "SatObj": "py_satobj", "SatProfile": "py_satprofile", "SatEntry": "py_satentry"}


def gty(t):
    if isinstance(t, str):
        if t in GTY:
            return GTY[t]
        raise Unsupported("no Gallina type for %s" % t)
    if t[0] == "List":
        if t[1] is None:
            raise Unsupported("a list whose element type is never determined")
        return "(list %s)" % gty(t[1])
    if t[0] == "Tup":
        return "(%s * %s)%%type" % (gty(t[1][0]), gty(t[1][1]))
    if t[0] == "Opt":
        return "(option %s)" % gty(t[1])
    if t[0] == "Fun":
        return "(" + " -> ".join([gty(a) for a in t[1]] + [gty(t[2])]) + ")"
    raise Unsupported("no Gallina type for %r" % (t,))


class Unsupported(Exception):
    pass


class V:
    """a translated value: Gallina term + type (+ compile-time constant for None / True / False)"""

    def __init__(self, term, ty, const=None, macro=None):
        self.term, self.ty, self.const, self.macro = term, ty, const, macro


class Taken:
    def __init__(self, cond, binds):
        self.cond, self.binds = cond, binds

    def __bool__(self):
        return bool(self.cond or self.binds)


class Macro:
    """a lambda / nested def: inlined at its call sites (the fragment is pure, so this preserves meaning)"""

    def __init__(self, params, body, env):
        self.params, self.body, self.env = params, body, env


class Ctx:
    def __init__(self, ret, fall, brk=None, cont=None, rtype=None, fail=None):
        self.ret, self.fall, self.brk, self.cont = ret, fall, brk, cont
        self.rtype = rtype        # Gallina type of what `ret` produces (annotation of the loop state)
        self.fail = fail or (lambda: "false")   # safety mode: what a violated obligation evaluates to

    def with_fall(self, fall):
        return Ctx(self.ret, fall, self.brk, self.cont, self.rtype, self.fail)


def _is_doc(s):
    return isinstance(s, ast.Expr) and isinstance(s.value, ast.Constant)


def _walk_no_defs(nodes, stop_loops=False):
    """walk statements without entering nested function definitions / lambdas (and, optionally, inner loops)"""
    stack = list(nodes)
    while stack:
        n = stack.pop()
        yield n
        for c in ast.iter_child_nodes(n):
            if isinstance(c, (ast.FunctionDef, ast.Lambda, ast.ClassDef)):
                continue
            if stop_loops and isinstance(c, (ast.For, ast.While)):
                continue
            stack.append(c)


ONESHOT_CALLS = ("enumerate", "zip", "map", "filter", "iter", "reversed")


def is_oneshot(node):
    """an expression whose value is a one-shot iterator: it can be consumed only once"""
    return isinstance(node, ast.GeneratorExp) or (
        isinstance(node, ast.Call) and isinstance(node.func, ast.Name) and node.func.id in ONESHOT_CALLS)


def consumed_once(stmts, name):
    """is the variable read at most once, and not inside a loop / comprehension / local function (where the read
    could happen several times)?"""
    loads = 0
    stack = [(s, False) for s in stmts]
    while stack:
        n, inloop = stack.pop()
        if isinstance(n, ast.Name) and n.id == name and isinstance(n.ctx, ast.Load):
            loads += 1
            if inloop:
                return False
        for c in ast.iter_child_nodes(n):
            deeper = inloop
            if isinstance(n, (ast.For, ast.While)) and c in n.body:
                deeper = True
            if isinstance(n, (ast.ListComp, ast.SetComp, ast.DictComp, ast.GeneratorExp)) and c is not n.generators[0].iter:
                deeper = True
            if isinstance(n, ast.comprehension) and c is not n.iter:
                deeper = True
            if isinstance(n, (ast.Lambda, ast.FunctionDef)):
                deeper = True
            stack.append((c, deeper))
    return loads <= 1


def gname(name):
    return "yielded" if name == "$yield" else "v_" + name


def qlit(n):
    return "%d" % n if n >= 0 else "(- (%d))" % (-n)


def coq_string(s):
    if '"' in s or "\n" in s or not s.isascii():
        raise Unsupported("string constant outside the fragment")
    return '"%s"%%string' % s


# ------------------------------------------------------------------------------------------------------
# translation of one function body
# ------------------------------------------------------------------------------------------------------
class FuncTranslator:
    def __init__(self, world, self_cls=None):
        self.W = world
        self.self_cls = self_cls          # name of the class whose method is translated (fields of `self`)
        self.extras = {}                  # extra leading parameters needed (oracle, opaque values): name -> gallina type
        self.ret_types = []
        self.option_mode = False
        self.counter = 0
        # ZeroDivisionError: every frac(a, b) registers "b != 0 under the guards it is evaluated under"; the
        # statement that consumes the expression collects the obligations; in `safety` mode the translation emits
        # the boolean "no division by zero on this path" instead of the value
        self.safety = False
        self.pending = []
        self.guards = []
        self.no_div = 0
        self.unresolved = set()  # `x = []` whose element type is not known (yet)
        self.inline = 0          # depth of inlined multi-statement function bodies
        self.ob_count = 0        # number of obligations registered (0: the function cannot violate any)
        self.binds = []          # (name, call) of calls of translated functions that may raise, in evaluation order
        self.list_hints = {}     # element type of `x = []`, learnt from the first x.append(e)

    def take(self):
        """the obligations (and calls of functions that may raise) registered by the expression just translated"""
        if self.inline:         # inside an inlined function body: the enclosing statement collects
            return Taken("", [])
        c, self.pending = self.pending, []
        b, self.binds = self.binds, []
        self.ob_count += len(c)
        return Taken(" && ".join(c), b)

    def wrap(self, taken, term, ctx=None):
        """term, evaluated after the calls that may raise (their None propagates) and -- in safety mode -- only
        if the obligations hold"""
        if self.safety and taken.cond:
            term = "(if %s then %s else %s)" % (taken.cond, term, ctx.fail() if ctx else "false")
        for name, call in reversed(taken.binds):
            none = ctx.ret(V("None", "Raise")) if ctx else "None"
            term = "match %s with Some %s => %s | None => %s end" % (call, name, term, none)
        return term

    # ---------------- expressions ----------------
    def inst(self, env):
        v = env.get("$inst")
        if v is None:
            # a module-level function that reads project.cost without an instance in scope: the instance the
            # projects belong to becomes an extra leading parameter
            self.extras["cinst"] = "py_inst"
            return V("cinst", INST)
        return v

    def tobool(self, v):
        if v.ty == B:
            return v
        if v.ty == Q:
            return V("(py_truth %s)" % v.term, B)
        if v.ty == NONE:
            return V("false", B, const=False)
        if v.ty == ERRORS:          # a dict of error lists: truthy iff something was appended
            return V(v.term, B)
        if isinstance(v.ty, tuple) and v.ty[0] == "List":
            return V("(negb (py_is_empty %s))" % v.term, B)
        raise Unsupported("truth value of a %r" % (v.ty,))

    def to_list(self, v):
        t = v.ty
        if isinstance(t, tuple) and t[0] == "List":
            return v
        if t == BALLOT:
            return V("(py_ballot_iter %s)" % v.term, List(PROJ))
        if t == PBALLOT:
            return V("(py_pballot_iter %s)" % v.term, List(PROJ))
        if t == PROFILE:
            return V("(py_profile_iter %s)" % v.term, List(PBALLOT))
        if t == INST:
            return V("(py_instance_iter %s)" % v.term, List(PROJ))
        if t == SATPROFILE:
            return V("(py_satprofile_iter %s)" % v.term, List(SATENTRY))
        if t in (APPLP, CARDLP):
            return V(v.term, List(BALLOT))
        if isinstance(t, tuple) and t[0] == "Tup" and t[1][0] == t[1][1]:
            return V("[fst %s; snd %s]" % (v.term, v.term), List(t[1][0]))
        raise Unsupported("iteration over a %r" % (t,))

    def num(self, v):
        if v.ty == Q:
            return v
        if v.ty == B:      # bool is an int in Python
            return V("(py_int_of_bool %s)" % v.term, Q)
        raise Unsupported("a number was expected, got %r" % (v.ty,))

    def expr(self, n, env):
        m = getattr(self, "e_" + type(n).__name__, None)
        if m is None:
            raise Unsupported("expression %s outside the fragment" % type(n).__name__)
        self.ambient_env = env
        return m(n, env)

    def e_Name(self, n, env):
        if n.id in env:
            return env[n.id]
        if n.id in ("sum", "min", "max", "any", "all", "len"):
            fv = {"sum": ("py_sum", Fun([List(Q)], Q))}.get(n.id)
            if fv:
                return V(fv[0], fv[1])
        g = self.W.global_value(n.id, self)
        if g is not None:
            return g
        h = self.W.helper_macro(n.id)
        if h is not None:
            return h
        if n.id in self.W.constants:
            return V(qlit(self.W.constants[n.id]), Q)
        if n.id in self.W.sat_class_names():
            # a satisfaction class used as a value: an opaque parameter (instance, profile, ballot) -> sat; which
            # profile representation it takes is decided where it is used
            return V("cls_" + n.id, "ClassName")
        raise Unsupported("unknown name %s" % n.id)

    def e_Constant(self, n, env):
        c = n.value
        if c is None:
            return V("tt", NONE, const=None)
        if isinstance(c, bool):
            return V("true" if c else "false", B, const=c)
        if isinstance(c, int):
            return V(qlit(c), Q)
        if isinstance(c, str):
            return V(coq_string(c), STR)
        raise Unsupported("constant %r outside the fragment (floats are not exact)" % (c,))

    def self_field(self, name, env):
        f = env.get("$self", {}).get(name)
        if f is None:
            raise Unsupported("self.%s is not a known field" % name)
        return f

    def e_Attribute(self, n, env):
        if isinstance(n.value, ast.Name) and n.value.id == "self" and "$self" in env and (
                n.attr in env["$self"] or "self" not in env):
            return self.self_field(n.attr, env)
        o = self.expr(n.value, env)
        if o.ty == PROJ and n.attr == "cost":
            return V("(py_cost %s %s)" % (self.inst(env).term, o.term), Q)
        if o.ty == PROJ and n.attr == "name":
            return V("(py_name %s)" % o.term, Q)
        if o.ty == INST and n.attr == "budget_limit":
            return V("(py_budget_limit %s)" % o.term, Q)
        raise Unsupported("attribute .%s of a %r" % (n.attr, o.ty))

    def e_UnaryOp(self, n, env):
        o = self.expr(n.operand, env)
        if isinstance(n.op, ast.USub):
            return V("(- %s)" % self.num(o).term, Q)
        if isinstance(n.op, ast.UAdd):
            return self.num(o)
        if isinstance(n.op, ast.Not):
            b = self.tobool(o)
            if b.const is not None:
                return V("false" if b.const else "true", B, const=not b.const)
            return V("(negb %s)" % b.term, B)
        raise Unsupported("unary operator")

    def e_BinOp(self, n, env):
        a, b = self.expr(n.left, env), self.expr(n.right, env)
        if isinstance(n.op, ast.Mult) and ((isinstance(a.ty, tuple) and a.ty[0] == "List" and b.ty == Q)
                                           or (isinstance(b.ty, tuple) and b.ty[0] == "List" and a.ty == Q)):
            l, k = (a, b) if a.ty != Q else (b, a)       # [v] * n: the list repeated n times
            if l.ty[1] is None:
                raise Unsupported("repetition of an empty list literal")
            return V("(py_repeat %s %s)" % (l.term, k.term), l.ty)
        if isinstance(a.ty, tuple) and a.ty[0] == "List" and isinstance(n.op, ast.Add):
            if b.ty != a.ty:
                raise Unsupported("list + of different element types")
            return V("(%s ++ %s)" % (a.term, b.term), a.ty)
        ops = {ast.Add: "+", ast.Sub: "-", ast.Mult: "*"}
        for k, s in ops.items():
            if isinstance(n.op, k):
                return V("(%s %s %s)" % (self.num(a).term, s, self.num(b).term), Q)
        raise Unsupported("operator %s outside the fragment (true division may produce floats: use frac)"
                          % type(n.op).__name__)

    def e_BoolOp(self, n, env):
        vs = []
        isand = isinstance(n.op, ast.And)
        for x in n.values:       # short-circuit: a later operand is only evaluated when the earlier ones allow it
            if vs:
                prev = "(" + (" && " if isand else " || ").join(v.term for v in vs) + ")"
                self.guards.append(prev if isand else "(negb %s)" % prev)
            vs.append(self.tobool(self.expr(x, env)))
            if len(vs) > 1:
                self.guards.pop()
        op = "&&" if isand else "||"
        return V("(" + (" %s " % op).join(v.term for v in vs) + ")", B)

    def contains(self, c, x):
        if x.ty != PROJ:
            raise Unsupported("`in` with a left operand that is not a project")
        if c.ty == BALLOT:
            return V("(py_in_ballot %s %s)" % (c.term, x.term), B)
        if c.ty == PBALLOT:
            return V("(py_in_pballot %s %s)" % (c.term, x.term), B)
        if c.ty == INST:
            return V("(py_in_instance %s %s)" % (c.term, x.term), B)
        if c.ty == List(PROJ):
            return V("(py_in_list %s %s)" % (c.term, x.term), B)
        raise Unsupported("`in` on a %r" % (c.ty,))

    def e_Compare(self, n, env):
        parts = []
        left = self.expr(n.left, env)
        for op, rn in zip(n.ops, n.comparators):
            right = self.expr(rn, env)
            if left.ty == "ErrLen" or right.ty == "ErrLen":
                e, z = (left, rn) if left.ty == "ErrLen" else (right, n.left)
                if not (isinstance(z, ast.Constant) and z.value == 0 and not isinstance(z.value, bool)) \
                        or not isinstance(op, (ast.Eq, ast.NotEq, ast.Gt, ast.Lt)) or len(n.ops) != 1:
                    raise Unsupported("len(errors) compared with something else than 0")
                isempty = isinstance(op, ast.Eq)
                r = V("(negb %s)" % e.term if isempty else e.term, B)
                parts.append(r)
                left = right
                continue
            if isinstance(op, (ast.In, ast.NotIn)):
                if right.ty == CACHE:
                    hit = ast.unparse(n.left) in right.macro
                    r = V("true" if hit else "false", B, const=hit)
                else:
                    r = self.contains(right, left)
                if isinstance(op, ast.NotIn):
                    r = V("(negb %s)" % r.term, B, const=None if r.const is None else not r.const)
            elif isinstance(op, (ast.Is, ast.IsNot)):
                if right.ty != NONE:
                    raise Unsupported("`is` with something else than None")
                isnone = left.ty == NONE
                r = V("true" if isnone else "false", B, const=isnone)
                if isinstance(op, ast.IsNot):
                    r = V("false" if isnone else "true", B, const=not isnone)
            elif left.ty == PROJ and right.ty == PROJ and isinstance(op, (ast.Eq, ast.NotEq)):
                r = V("(py_proj_eq %s %s)" % (left.term, right.term), B)
                if isinstance(op, ast.NotEq):
                    r = V("(negb %s)" % r.term, B)
            else:
                f = {ast.Eq: "py_eq", ast.NotEq: "py_ne", ast.Lt: "py_lt", ast.LtE: "py_le", ast.Gt: "py_gt",
                     ast.GtE: "py_ge"}.get(type(op))
                if f is None:
                    raise Unsupported("comparison operator")
                r = V("(%s %s %s)" % (f, self.num(left).term, self.num(right).term), B)
            parts.append(r)
            left = right
        if len(parts) == 1:
            return parts[0]
        return V("(" + " && ".join(p.term for p in parts) + ")", B)

    def e_IfExp(self, n, env):
        c = self.tobool(self.expr(n.test, env))
        if c.const is not None:
            return self.expr(n.body if c.const else n.orelse, env)
        self.guards.append(c.term)
        a = self.expr(n.body, env)
        self.guards[-1] = "(negb %s)" % c.term
        b = self.expr(n.orelse, env)
        self.guards.pop()
        if a.ty != b.ty:
            a, b = self.num(a), self.num(b)
        return V("(if %s then %s else %s)" % (c.term, a.term, b.term), a.ty)

    def comprehension(self, n, env, idx=0):
        """the idx-th `for` clause (with its `if`s) of a comprehension: (bound name, environment, source term, type)"""
        g = n.generators[idx]
        if g.is_async:
            raise Unsupported("comprehension target outside the fragment")
        it = self.to_list(self.expr(g.iter, env))
        env2 = dict(env)
        if isinstance(g.target, ast.Tuple) and len(g.target.elts) == 2 and all(
                isinstance(e, ast.Name) for e in g.target.elts) and isinstance(it.ty[1], tuple) and it.ty[1][0] == "Tup":
            # for i, v in pairs: the bound variable is the pair, the names are its projections
            x = "pr%d" % self._fresh()
            env2[x] = V(gname(x), it.ty[1])
            env2[g.target.elts[0].id] = V("(fst %s)" % gname(x), it.ty[1][1][0])
            env2[g.target.elts[1].id] = V("(snd %s)" % gname(x), it.ty[1][1][1])
        elif isinstance(g.target, ast.Name):
            x = g.target.id
            env2[x] = V(gname(x), it.ty[1])
        else:
            raise Unsupported("comprehension target outside the fragment")
        src = it.term
        self.no_div += 1
        try:
            for c in g.ifs:
                cb = self.tobool(self.expr(c, env2))
                src = "(filter (fun %s => %s) %s)" % (gname(x), cb.term, src)
        finally:
            self.no_div -= 1
        return x, env2, src, it.ty[1]

    def e_ListComp(self, n, env, idx=0):
        """[e for x in xs if c for y in ys if d ...]: map over the last clause, flat_map over the outer ones"""
        x, env2, src, et = self.comprehension(n, env, idx)
        n0 = len(self.pending)
        if idx + 1 < len(n.generators):
            inner = self.e_ListComp(n, env2, idx + 1)
            term, ty = "(flat_map (fun %s => %s) %s)" % (gname(x), inner.term, src), inner.ty
        elif isinstance(n.elt, ast.Name) and n.elt.id == x:      # [p for p in xs if c]
            term, ty = src, List(et)
        else:
            e = self.expr(n.elt, env2)
            term, ty = "(map (fun %s => %s) %s)" % (gname(x), e.term, src), List(e.ty)
        new, self.pending = self.pending[n0:], self.pending[:n0]
        if new:      # an obligation of the element (division, min of a possibly empty sequence): for every element
            self.pending.append("(forallb (fun %s => %s) %s)" % (gname(x), " && ".join(new), src))
        return V(term, ty)

    def e_GeneratorExp(self, n, env):
        v = self.e_ListComp(n, env)
        v.oneshot = True
        return v

    e_SetComp = e_ListComp        # a set built from a duplicate-free collection, only summed / tested afterwards

    def e_List(self, n, env):
        vs = [self.expr(x, env) for x in n.elts]
        if not vs:
            return V("[]", List(None))     # element type: learnt from the first append (see bind)
        if any(v.ty != vs[0].ty for v in vs):
            vs = [self.num(v) for v in vs]
        return V("[" + "; ".join(v.term for v in vs) + "]", List(vs[0].ty))

    def e_Tuple(self, n, env):
        if len(n.elts) == 2:       # a pair (value, multiplicity), (index, value) ...
            a, b = self.expr(n.elts[0], env), self.expr(n.elts[1], env)
            if a.ty == B:
                a = self.num(a)
            if b.ty == B:
                b = self.num(b)
            return V("(%s, %s)" % (a.term, b.term), Tup(a.ty, b.ty))
        return self.e_List(n, env)

    def e_Dict(self, n, env):
        items = []
        for k, v in zip(n.keys, n.values):
            if not (isinstance(k, ast.Constant) and isinstance(k.value, str)):
                raise Unsupported("dict key that is not a string literal")
            items.append("(%s, %s)" % (coq_string(k.value), self.num(self.expr(v, env)).term))
        return V("(py_dict_of [" + "; ".join(items) + "])", DICT)

    def e_DictComp(self, n, env):
        """two idioms of an error collector: {key: [] for key in <literal keys>} (empty) and
        {k: v for k, v in errors.items() if v} (the non-empty lists of a collector: non-empty iff it is)"""
        if len(n.generators) == 1 and not n.generators[0].ifs and isinstance(n.value, ast.List) and not n.value.elts \
                and isinstance(n.generators[0].iter, (ast.Tuple, ast.List)) \
                and all(isinstance(e, ast.Constant) and isinstance(e.value, str) for e in n.generators[0].iter.elts):
            return V("false", ERRORS)
        g = n.generators[0] if len(n.generators) == 1 else None
        if g is not None and isinstance(g.iter, ast.Call) and isinstance(g.iter.func, ast.Attribute) \
                and g.iter.func.attr == "items" and not g.iter.args and isinstance(g.target, ast.Tuple) \
                and len(g.target.elts) == 2 and all(isinstance(e, ast.Name) for e in g.target.elts) \
                and isinstance(n.key, ast.Name) and isinstance(n.value, ast.Name) \
                and n.key.id == g.target.elts[0].id and n.value.id == g.target.elts[1].id \
                and len(g.ifs) == 1 and isinstance(g.ifs[0], ast.Name) and g.ifs[0].id == n.value.id:
            src = self.expr(g.iter.func.value, env)
            if src.ty == ERRORS:
                return V(src.term, ERRORS)
        if g is not None and isinstance(g.target, ast.Name) and isinstance(n.key, ast.Name) \
                and n.key.id == g.target.id and not g.ifs:
            it = self.to_list(self.expr(g.iter, env))
            if it.ty == List(PROJ):      # {p: e for p in projects}: the function p -> e (its domain is not kept)
                env2 = dict(env)
                env2[g.target.id] = V(gname(g.target.id), PROJ)
                n0 = len(self.pending)
                e = self.num(self.expr(n.value, env2))
                new, self.pending = self.pending[n0:], self.pending[:n0]
                if new:
                    self.pending.append("(forallb (fun %s => %s) %s)" % (gname(g.target.id), " && ".join(new), it.term))
                return V("(fun %s => %s)" % (gname(g.target.id), e.term), PDICT)
        raise Unsupported("dict comprehension outside the fragment")

    def e_Lambda(self, n, env):
        a = n.args
        if a.vararg or a.kwarg or a.kwonlyargs or a.defaults or a.posonlyargs:
            raise Unsupported("lambda signature outside the fragment")
        return V(None, "Macro", macro=Macro([x.arg for x in a.args], n.body, env))

    def e_Subscript(self, n, env):
        o = self.expr(n.value, env)
        if o.ty == CACHE:
            k = ast.unparse(n.slice)
            if k in o.macro:
                return o.macro[k]
            raise Unsupported("read of the memo cache before it is written")
        if o.ty == PDICT:
            k = self.expr(n.slice, env)
            if k.ty == PROJ:          # a dict keyed by projects, built by a comprehension (KeyError is not tracked)
                return V("(%s %s)" % (o.term, k.term), Q)
        if o.ty == PAYMENTS:          # payment_functions[idx]: the payments of the voter at that position
            k = self.num(self.expr(n.slice, env))
            return V("(py_pay_row %s %s)" % (o.term, k.term), PAYROW)
        if o.ty == PAYROW:
            k = self.expr(n.slice, env)
            if k.ty == PROJ:
                return V("(py_row_get %s %s)" % (o.term, k.term), Q)
        if o.ty == List(Q) and not isinstance(n.slice, (ast.Constant, ast.Slice)):
            k = self.expr(n.slice, env)
            if k.ty == Q:             # xs[i] for a computed position (IndexError is not tracked)
                return V("(py_list_get %s %s)" % (o.term, k.term), Q)
        if o.ty == DICT:
            if isinstance(n.slice, ast.Constant) and isinstance(n.slice.value, str):
                return V("(py_dict_get %s %s)" % (o.term, coq_string(n.slice.value)), Q)
            raise Unsupported("dict subscript that is not a string literal")
        if o.ty == BALLOT:
            k = self.expr(n.slice, env)
            if k.ty == PROJ:
                return V("(py_ballot_getitem %s %s)" % (o.term, k.term), Q)
        if isinstance(o.ty, tuple) and o.ty[0] == "Tup" and isinstance(n.slice, ast.Constant) \
                and n.slice.value in (0, 1) and not isinstance(n.slice.value, bool):
            return V("(%s %s)" % ("fst" if n.slice.value == 0 else "snd", o.term), o.ty[1][n.slice.value])
        if isinstance(o.ty, tuple) and o.ty[0] == "List" and isinstance(n.slice, ast.Constant) \
                and isinstance(n.slice.value, int) and not isinstance(n.slice.value, bool) and n.slice.value >= 0:
            return V("(py_index %s %d%%nat)" % (o.term, n.slice.value), Opt(o.ty[1]))
        raise Unsupported("subscript of a %r" % (o.ty,))

    def apply_macro(self, m, args):
        if len(args) != len(m.params):
            raise Unsupported("call of a local function with the wrong number of arguments")
        for p_, a_ in zip(m.params, args):
            if getattr(a_, "oneshot", False):
                body_ = m.body if isinstance(m.body, list) else [ast.Expr(value=m.body)]
                if not consumed_once(body_, p_):
                    raise Unsupported("a one-shot iterator handed to a local function that reads it more than once")
        env2 = dict(m.env)
        amb = getattr(self, "ambient_env", None) or {}
        if "$inst" not in env2 and "$inst" in amb:
            env2["$inst"] = amb["$inst"]     # a module-level helper reads project.cost in the caller's instance
        for p, a in zip(m.params, args):
            env2[p] = a
        body = m.body
        if isinstance(body, list):        # a def: docstring* then a single `return e`, or a small pure block
            body = [s for s in body if not _is_doc(s) and not isinstance(s, ast.Pass)]
            if len(body) == 1 and isinstance(body[0], ast.Return) and body[0].value is not None:
                return self.expr(body[0].value, env2)
            # several statements (if / return / local assignments): translated as a block whose `return`s give
            # the value; its obligations are handed to the statement that contains the call (unguarded)
            for x in _walk_no_defs(body):
                if isinstance(x, (ast.For, ast.While, ast.Raise, ast.Yield, ast.Break, ast.Continue)):
                    raise Unsupported("local function with a loop / raise used as a value")
            rets = []

            def r(v):
                rets.append(v)
                return v.term

            def nofall(e):
                raise Unsupported("local function that can end without return")

            self.inline += 1
            try:
                term = self.block(body, env2, Ctx(r, nofall, rtype="_"))
            finally:
                self.inline -= 1
            if not rets:
                raise Unsupported("local function without return")
            ty = rets[0].ty
            if any(v.ty != ty for v in rets):
                if all(v.ty in (Q, B) for v in rets):
                    raise Unsupported("local function returning numbers and truth values")
                raise Unsupported("local function returning values of different types")
            return V("(%s)" % term, ty)
        return self.expr(body, env2)

    def apply_fun(self, f, args):
        if f.ty == "Macro":
            return self.apply_macro(f.macro, args)
        if f.ty == SATCLASS:      # sat_class(instance, profile, ballot): the measure object = its sat function
            if len(args) != 3:
                raise Unsupported("a satisfaction class is called with (instance, profile, ballot)")
            ts = [self.coerce(a, t).term for a, t in zip(args, (INST, PROFILE, PBALLOT))]
            return V("(%s %s)" % (f.term, " ".join(ts)), SATOBJ)
        if f.ty == SATCLASSL:     # sat_class(instance, profile, ballot) on a list profile
            if len(args) != 3 or args[1].ty not in (APPLP, CARDLP):
                raise Unsupported("a satisfaction class is called with (instance, profile, ballot)")
            ts = [self.coerce(args[0], INST).term, args[1].term, self.coerce(args[2], BALLOT).term]
            return V("(%s %s)" % (f.term, " ".join(ts)), SATOBJ)
        if f.ty == "ClassName":
            if len(args) == 3 and args[1].ty in (APPLP, CARDLP):
                return self.apply_fun(self.coerce(f, SATCLASSL), args)
            return self.apply_fun(self.coerce(f, SATCLASS), args)
        if not (isinstance(f.ty, tuple) and f.ty[0] == "Fun"):
            raise Unsupported("call of something that is not a function")
        if len(args) != len(f.ty[1]):
            raise Unsupported("call with the wrong number of arguments")
        ts = []
        for a, t in zip(args, f.ty[1]):
            ts.append(self.coerce(a, t).term)
        call = "(%s %s)" % (f.term, " ".join(ts))
        d = getattr(f, "defn", None)
        if d is not None and d.safe_body is not None and not d.safe_trivial:
            if self.no_div:
                raise Unsupported("call of %s (which can raise) inside a comprehension or local function" % d.name)
            ob = "(%s_safe %s %s)" % (d.name, " ".join(sorted(d.extras)), " ".join(ts))
            if self.guards:
                ob = "(negb (%s) || %s)" % (" && ".join(self.guards), ob)
            self.pending.append(ob)
        rt = f.ty[2]
        if d is not None and isinstance(rt, tuple) and rt[0] == "Opt" and d.raises:
            # the callee can raise: its None propagates (bound by the statement that consumes this expression)
            if self.guards or self.no_div:
                raise Unsupported("call of %s (which can raise) under a condition" % d.name)
            self.option_mode_needed()
            nm = "r%d" % self._fresh()
            self.binds.append((nm, call))
            return V(nm, rt[1])
        return V(call, rt)

    def coerce(self, a, t):
        if a.ty == t:
            return a
        if a.ty == "ClassName" and t in (SATCLASS, SATCLASSL):
            if self.extras.get(a.term, gty(t)) != gty(t):
                raise Unsupported("a satisfaction class used with two profile representations")
            self.extras[a.term] = gty(t)
            return V(a.term, t)
        if t == Q:
            return self.num(a)
        if isinstance(t, tuple) and t[0] == "List" and a.ty == List(None):
            return V("(@nil %s)" % gty(t[1]), t)
        if isinstance(t, tuple) and t[0] == "List":
            l = self.to_list(a)
            if l.ty == t:
                return l
            if l.ty == List(B) and t == List(Q):
                return V("(map py_int_of_bool %s)" % l.term, t)
        if isinstance(t, tuple) and t[0] == "Fun" and a.ty == "Macro":
            # eta-expand the local function at the expected type
            names = ["x%d_%d" % (self._fresh(), i) for i in range(len(t[1]))]
            self.no_div += 1
            try:
                r = self.apply_macro(a.macro, [V(nm, ty) for nm, ty in zip(names, t[1])])
            finally:
                self.no_div -= 1
            r = self.coerce(r, t[2])
            return V("(fun %s => %s)" % (" ".join(names), r.term), t)
        raise Unsupported("argument of type %r where %r is expected" % (a.ty, t))

    def _fresh(self):
        self.counter += 1
        return self.counter

    def kw(self, n, allowed):
        d = {}
        for k in n.keywords:
            if k.arg is None or k.arg not in allowed:
                raise Unsupported("keyword argument %s outside the fragment" % k.arg)
            d[k.arg] = k.value
        return d

    def e_Call(self, n, env):
        f = n.func
        # ---- methods ----
        if isinstance(f, ast.Attribute):
            if isinstance(f.value, ast.Name) and f.value.id == "self" and "$self" in env:
                if f.attr in env["$self"]:
                    if n.keywords:
                        raise Unsupported("keyword arguments in a call of self.%s" % f.attr)
                    return self.apply_fun(self.self_field(f.attr, env), [self.expr(a, env) for a in n.args])
                return self.W.call_method(self, env, f.attr, n)
            if isinstance(f.value, ast.Name) and f.value.id not in env and not n.keywords:
                # module-qualified vocabulary
                q = f.value.id + "." + f.attr
                if q == "chain.from_iterable" and len(n.args) == 1:
                    x = self.expr(n.args[0], env)
                    if not (isinstance(x.ty, tuple) and x.ty[0] == "List" and isinstance(x.ty[1], tuple)
                            and x.ty[1][0] == "List"):
                        raise Unsupported("chain.from_iterable of something that is not a sequence of sequences")
                    return V("(py_chain %s)" % x.term, x.ty[1])
                if q == "collections.defaultdict" and len(n.args) == 1 and isinstance(n.args[0], ast.Name) \
                        and n.args[0].id == "list":
                    return V("false", ERRORS)      # the collector of error messages: empty
                if q == "np.array" and len(n.args) == 1:      # an array of exact numbers is the list of them
                    return self.to_list(self.expr(n.args[0], env))
                if q == "np.median" and len(n.args) == 1:
                    x = self.coerce(self.expr(n.args[0], env), List(Q))
                    return V("(py_np_median %s)" % x.term, Q)
                if f.value.id in ("np", "math", "chain"):
                    raise Unsupported("call of %s outside the fragment" % q)
            o = self.expr(f.value, env)
            args = [self.expr(a, env) for a in n.args]
            if n.keywords:
                raise Unsupported("keyword arguments in a method call")
            if o.ty == RELAX and f.attr == "get_relaxed_cost" and len(args) == 1 and args[0].ty == PROJ:
                return V("(py_relaxed_cost %s %s %s)" % (self.inst(env).term, o.term, args[0].term), Q)
            if o.ty == SATOBJ and f.attr == "sat_project" and len(args) == 1 and args[0].ty == PROJ:
                return V("(%s [%s])" % (o.term, args[0].term), Q)
            if o.ty in (APPLP, CARDLP) and f.attr == "multiplicity" and len(args) == 1 and args[0].ty == BALLOT:
                return V("1", Q)          # a list profile: every ballot once
            if o.ty in (APPLP, CARDLP) and f.attr == "num_ballots" and not args:
                return V("(py_len %s)" % o.term, Q)
            if o.ty == SATOBJ and f.attr == "sat" and len(args) == 1:
                return V("(%s %s)" % (o.term, self.coerce(args[0], List(PROJ)).term), Q)
            if o.ty == SATENTRY and f.attr == "sat" and len(args) == 1:
                return V("(fst %s %s)" % (o.term, self.coerce(args[0], List(PROJ)).term), Q)
            if o.ty == SATPROFILE and f.attr == "multiplicity" and len(args) == 1 and args[0].ty == SATENTRY:
                return V("(py_satprofile_multiplicity %s %s)" % (o.term, args[0].term), Q)
            if o.ty == PROFILE and f.attr == "as_sat_profile" and len(args) == 1 and args[0].ty == SATCLASS:
                return V("(py_as_sat_profile %s %s %s)" % (self.inst(env).term, o.term, args[0].term), SATPROFILE)
            if o.ty == PROFILE and f.attr == "num_ballots" and not args:
                return V("(py_num_ballots %s)" % o.term, Q)
            if o.ty == PROFILE and f.attr == "approval_score" and len(args) == 1 and args[0].ty == PROJ:
                return V("(py_profile_approval_score %s %s)" % (o.term, args[0].term), Q)
            if o.ty == PROFILE and f.attr == "total_score" and len(args) == 1 and args[0].ty == PROJ:
                return V("(py_profile_total_score %s %s)" % (o.term, args[0].term), Q)
            if o.ty == CACHE and f.attr == "get" and len(args) in (1, 2):
                k = ast.unparse(n.args[0])
                if k in o.macro:
                    return o.macro[k]
                return args[1] if len(args) == 2 else V("tt", NONE, const=None)
            if o.ty == BALLOT and f.attr == "get" and len(args) == 2 and args[0].ty == PROJ:
                return V("(py_ballot_get %s %s %s)" % (o.term, args[0].term, self.num(args[1]).term), Q)
            if o.ty == DICT and f.attr == "get" and len(args) == 2 and args[0].ty == STR:
                return V("(py_dict_get_default %s %s %s)" % (o.term, args[0].term, self.num(args[1]).term), Q)
            if o.ty == BALLOT and f.attr == "position" and len(args) == 1 and args[0].ty == PROJ:
                return V("(py_ballot_position %s %s)" % (o.term, args[0].term), Q)
            if o.ty == PROFILE and f.attr == "multiplicity" and len(args) == 1 and args[0].ty == PBALLOT:
                return V("(py_multiplicity %s %s)" % (o.term, args[0].term), Q)
            if o.ty == APROFILE and f.attr == "approval_score" and len(args) == 1 and args[0].ty == PROJ:
                return V("(py_approval_score %s %s)" % (o.term, args[0].term), Q)
            raise Unsupported("method .%s of a %r outside the fragment" % (f.attr, o.ty))
        if not isinstance(f, ast.Name):
            raise Unsupported("call of a computed function")
        name = f.id
        if name in env:                      # a local function / a function-valued parameter
            if n.keywords:
                raise Unsupported("keyword arguments in a call of a local function")
            return self.apply_fun(env[name], [self.expr(a, env) for a in n.args])
        # ---- builtins and the known vocabulary ----
        if name in ("sorted",):
            kws = self.kw(n, ("key",))
            if len(n.args) != 1:
                raise Unsupported("sorted with several positional arguments")
            xs = self.to_list(self.expr(n.args[0], env))
            if "key" not in kws:
                if xs.ty == List(Q):
                    return V("(py_sorted_nums %s)" % xs.term, xs.ty)
                if xs.ty != List(PROJ):
                    raise Unsupported("sorted without key on something else than projects or numbers")
                return V("(py_sorted_projects %s)" % xs.term, xs.ty)
            kf = self.expr(kws["key"], env)
            kf = self.coerce(kf, Fun([xs.ty[1]], Q))
            return V("(py_sorted_by_key %s %s)" % (kf.term, xs.term), xs.ty)
        if name in ("min", "max"):
            kws = self.kw(n, ("default",))
            if len(n.args) >= 2 and not kws:
                vs = [self.num(self.expr(a, env)) for a in n.args]
                t = vs[0].term
                for v in vs[1:]:
                    t = "(py_%s2 %s %s)" % (name, t, v.term)
                return V(t, Q)
            if len(n.args) == 1:
                xs = self.to_list(self.expr(n.args[0], env))
                if xs.ty == List(B):
                    xs = V("(map py_int_of_bool %s)" % xs.term, List(Q))
                if xs.ty != List(Q):
                    raise Unsupported("%s of a sequence that is not numeric" % name)
                if "default" in kws:
                    d = self.num(self.expr(kws["default"], env))
                    return V("(py_%s_list %s %s)" % (name, xs.term, d.term), Q)
                # without default only on a syntactically non-empty sequence: [c] + xs / xs + [c]
                a = n.args[0]
                if isinstance(a, ast.BinOp) and isinstance(a.op, ast.Add) and any(
                        isinstance(s, (ast.List, ast.Tuple)) and s.elts for s in (a.left, a.right)) \
                        or isinstance(a, (ast.List, ast.Tuple)) and a.elts:
                    return V("(py_%s_list %s 0)" % (name, xs.term), Q)
                if not kws:
                    # ValueError on an empty sequence: an obligation like division by zero
                    if self.no_div:
                        raise Unsupported("%s of a possibly empty sequence inside a comprehension" % name)
                    ob = "(negb (py_is_empty %s))" % xs.term
                    if self.guards:
                        ob = "(negb (%s) || %s)" % (" && ".join(self.guards), ob)
                    self.pending.append(ob)
                    return V("(py_%s_list %s 0)" % (name, xs.term), Q)
            raise Unsupported("%s(...) of this shape is outside the fragment" % name)
        if self.W.variants(name) and name not in env and name not in (
                "total_cost", "max_budget_allocation_cardinality"):      # these two stay vocabulary at call sites
            return self.call_translated(name, n, env)
        if n.keywords:
            raise Unsupported("keyword arguments in a call of %s" % name)
        if name == "isinstance" and len(n.args) == 2 and isinstance(n.args[1], ast.Name) \
                and n.args[1].id in ("AbstractApprovalProfile", "AbstractCardinalProfile"):
            x = self.expr(n.args[0], env)
            if x.ty in (APPLP, CARDLP):
                r = (x.ty == APPLP) == (n.args[1].id == "AbstractApprovalProfile")
                return V("true" if r else "false", B, const=r)
            raise Unsupported("isinstance on a profile whose kind is not known")
        if name == "ApprovalBallot" and len(n.args) == 1:
            x = self.expr(n.args[0], env)
            if x.ty == INST:          # the ballot approving every project of the instance
                return V("(py_full_ballot %s)" % x.term, BALLOT)
            raise Unsupported("ApprovalBallot(...) of something else than the instance")
        if name == "isinstance" and len(n.args) == 2 and isinstance(n.args[1], ast.Name) and n.args[1].id == "tuple":
            x = self.expr(n.args[0], env)          # decided by the type of the sequence the value comes from
            ist = isinstance(x.ty, tuple) and x.ty[0] == "Tup"
            return V("true" if ist else "false", B, const=ist)
        args = [self.expr(a, env) for a in n.args]
        if name == "enumerate" and len(args) == 1:
            xs = self.to_list(args[0])
            return V("(py_enumerate %s)" % xs.term, List(Tup(Q, xs.ty[1])))
        if name == "range" and len(args) == 1:
            return V("(py_range %s)" % self.num(args[0]).term, List(Q))
        if name == "combinations" and len(args) == 2:
            xs = self.to_list(args[0])
            return V("(py_combinations %s %s)" % (xs.term, self.num(args[1]).term), List(xs.ty))
        if name == "float" and len(args) == 1 and args[0].ty == Q:
            # only the result of np.median: the exact value that is then rounded to a double
            if not args[0].term.startswith("(py_np_median "):
                raise Unsupported("call of float outside the fragment")
            return V("(py_float %s)" % args[0].term, Q)
        if name == "round" and len(args) == 2:      # round half to even on exact rationals
            return V("(py_round %s %s)" % (self.num(args[0]).term, self.num(args[1]).term), Q)
        if name == "int" and len(args) == 1:
            if args[0].ty == B:
                return V("(py_int_of_bool %s)" % args[0].term, Q)
            raise Unsupported("int(...) of something that is not a truth value")
        if name == "bool" and len(args) == 1:
            return self.tobool(args[0])
        if name == "len" and len(args) == 1:
            a = args[0]
            if a.ty == BALLOT:
                return V("(py_len_ballot %s)" % a.term, Q)
            if a.ty == PBALLOT:
                return V("(py_len_pballot %s)" % a.term, Q)
            if a.ty == ERRORS:        # only to be compared with 0
                return V(a.term, "ErrLen")
            if a.ty == PROFILE:
                return V("(py_len_profile %s)" % a.term, Q)
            if a.ty == INST:
                return V("(py_len_instance %s)" % a.term, Q)
            return V("(py_len %s)" % self.to_list(a).term, Q)
        if name == "sum" and len(args) in (1, 2):
            xs = self.to_list(args[0])
            if xs.ty == List(B):
                xs = V("(map py_int_of_bool %s)" % xs.term, List(Q))
            if xs.ty != List(Q):
                raise Unsupported("sum of a sequence that is not numeric")
            t = "(py_sum %s)" % xs.term
            if len(args) == 2:
                t = "(%s + %s)" % (self.num(args[1]).term, t)
            return V(t, Q)
        if name in ("any", "all") and len(args) == 1:
            xs = self.to_list(args[0])
            if xs.ty == List(Q):
                xs = V("(map py_truth %s)" % xs.term, List(B))
            if xs.ty != List(B):
                raise Unsupported("%s of a sequence without truth values" % name)
            return V("(py_%s %s)" % (name, xs.term), B)
        if name in ("list", "tuple") and len(args) == 1:
            return self.to_list(args[0])
        if name == "dict" and not args:
            return V("(py_dict_of [])", DICT)
        if name == "frac":
            if len(args) == 2:
                if self.no_div:
                    raise Unsupported("division inside a comprehension or local function (ZeroDivisionError is only "
                                      "tracked in statements)")
                den = self.num(args[1]).term
                ob = "(py_truth %s)" % den
                if self.guards:
                    ob = "(negb (%s) || %s)" % (" && ".join(self.guards), ob)
                self.pending.append(ob)
                return V("(frac %s %s)" % (self.num(args[0]).term, den), Q)
            if len(args) == 1:
                return self.num(args[0])
        if name == "total_cost" and len(args) == 1:
            return V("(py_total_cost %s %s)" % (self.inst(env).term, self.coerce(args[0], List(PROJ)).term), Q)
        if name == "max_budget_allocation_cardinality" and len(args) == 2:
            return V("(py_max_budget_allocation_cardinality %s %s %s)" % (
                self.inst(env).term, self.coerce(args[0], List(PROJ)).term, self.num(args[1]).term), Q)
        if name == "max_budget_allocation_cost" and len(args) == 2:
            self.extras["orc"] = "py_oracle"
            return V("(py_max_budget_allocation_cost orc %s %s %s)" % (
                self.inst(env).term, self.coerce(args[0], List(PROJ)).term, self.num(args[1]).term), Q)
        h = self.W.helper_macro(name) if not self.W.variants(name) else None
        if h is not None:
            return self.apply_fun(h, args)
        vs = self.W.variants(name)
        err = None
        for i, fn in enumerate(vs):
            g = self.W.variant_value(fn, self)
            try:
                if len(vs) > 1:          # choose the variant by the types of the arguments
                    for a, t in zip(args, g.ty[1]):
                        if a.ty != t and not (a.ty == List(None)):
                            l = self.to_list(a) if (isinstance(t, tuple) and t[0] == "List") else a
                            if l.ty != t:
                                raise Unsupported("no variant of %s for these argument types" % name)
                return self.apply_fun(g, args)
            except Unsupported as e:
                err = e
        if err is not None:
            raise err
        raise Unsupported("call of %s outside the fragment" % name)

    def call_translated(self, name, n, env):
        """call of a translated function: positional and keyword arguments are matched with the parameters of the
        source function, omitted ones take their default; the variant is chosen by the types (and by which
        arguments are None)"""
        k, node = self.W.funcs.get(name, (None, None))
        if node is None:
            raise Unsupported("function %s not found" % name)
        a = node.args
        pnames = [x.arg for x in a.args]
        dflt = dict(zip(pnames[len(pnames) - len(a.defaults):], a.defaults)) if a.defaults else {}
        if len(n.args) > len(pnames) or any(isinstance(x, ast.Starred) for x in n.args):
            raise Unsupported("call of %s with too many arguments" % name)
        given = {}
        for pn, x in zip(pnames, n.args):
            if is_oneshot(x) and not consumed_once(node.body, pn):
                raise Unsupported("a one-shot iterator handed to %s, which reads that argument more than once" % name)
            given[pn] = self.expr(x, env)
        for kw in n.keywords:
            if kw.arg is None or kw.arg not in pnames or kw.arg in given:
                raise Unsupported("keyword argument of %s outside the fragment" % name)
            if is_oneshot(kw.value) and not consumed_once(node.body, kw.arg):
                raise Unsupported("a one-shot iterator handed to %s, which reads that argument more than once" % name)
            given[kw.arg] = self.expr(kw.value, env)
        err = Unsupported("no translated variant of %s for these arguments" % name)
        for fn in self.W.variants(name):
            ptypes = FUNCS[fn][1]
            if len(ptypes) != len(pnames):
                continue
            try:
                vals = []
                for pn, t in zip(pnames, ptypes):
                    if pn in given:
                        v = given[pn]
                    elif pn in dflt:
                        v = self.expr(dflt[pn], {})
                    else:
                        raise Unsupported("argument %s of %s is missing" % (pn, name))
                    if t == NONE_ARG:
                        if v.ty != NONE:
                            raise Unsupported("variant mismatch")
                        continue
                    if v.ty == NONE:
                        raise Unsupported("variant mismatch")
                    vals.append(self.coerce(v, t))
                g = self.W.variant_value(fn, self)
                return self.apply_fun(g, vals)
            except Unsupported as e:
                err = e
        raise err

    # ---------------- statements ----------------
    def bind(self, env, name, v, body_of):
        env2 = dict(env)
        if v.ty in ("Macro", CACHE, NONE):
            env2[name] = v
            return body_of(env2)
        if v.ty == List(None) and name in self.list_hints:
            v = V("(@nil %s)" % gty(self.list_hints[name]), List(self.list_hints[name]))
        elif v.ty == List(None):
            self.unresolved.add(name)
        env2[name] = V(gname(name), v.ty)
        return "let %s := %s in\n  %s" % (gname(name), v.term, body_of(env2))

    def block(self, stmts, env, ctx):
        if not stmts:
            return ctx.fall(env)
        s, rest = stmts[0], stmts[1:]

        def nxt(env2):
            return self.block(rest, env2, ctx)

        if _is_doc(s) or isinstance(s, (ast.Pass, ast.Assert)):
            return nxt(env)
        if isinstance(s, ast.Expr) and isinstance(s.value, ast.Call) and isinstance(s.value.func, ast.Name) \
                and s.value.func.id == "print":
            return nxt(env)             # output is not part of the value
        if isinstance(s, ast.Expr) and isinstance(s.value, ast.Call) and isinstance(s.value.func, ast.Attribute) \
                and s.value.func.attr == "append" and isinstance(s.value.func.value, ast.Subscript) \
                and isinstance(s.value.func.value.value, ast.Name) and s.value.func.value.value.id in env \
                and env[s.value.func.value.value.id].ty == ERRORS:
            # errors[key].append(message): the message is not evaluated, the collector becomes non-empty
            return self.bind(env, s.value.func.value.value.id, V("true", ERRORS), nxt)
        if isinstance(s, ast.Expr) and isinstance(s.value, ast.Call) and isinstance(s.value.func, ast.Attribute) \
                and s.value.func.attr == "extend" and isinstance(s.value.func.value, ast.Name) \
                and len(s.value.args) == 1 and not s.value.keywords:
            x = s.value.func.value.id            # xs.extend(ys)  ==  xs = xs + list(ys)
            if x not in env or not (isinstance(env[x].ty, tuple) and env[x].ty[0] == "List"):
                raise Unsupported("extend on something that is not a local list")
            e = self.to_list(self.expr(s.value.args[0], env))
            c = self.take()
            if env[x].ty[1] is None:
                self.list_hints[x] = e.ty[1]
            elif env[x].ty != e.ty:
                raise Unsupported("extend with elements of another type")
            return self.wrap(c, self.bind(env, x, V("(%s ++ %s)" % (env[x].term, e.term), e.ty), nxt), ctx)
        if isinstance(s, ast.Expr) and isinstance(s.value, ast.Yield):
            # a generator function: the values yielded so far are the hidden list `$yield`
            if s.value.value is None or "$yield" not in env:
                raise Unsupported("yield outside the fragment")
            e = self.expr(s.value.value, env)
            c = self.take()
            acc = env["$yield"]
            if acc.ty[1] is not None and acc.ty[1] != e.ty:
                e = self.coerce(e, acc.ty[1])
            return self.wrap(c, self.bind(env, "$yield", V("(%s ++ [%s])" % (acc.term, e.term), List(e.ty)), nxt), ctx)
        if isinstance(s, ast.Expr) and isinstance(s.value, ast.Call) and isinstance(s.value.func, ast.Attribute) \
                and s.value.func.attr == "append" and isinstance(s.value.func.value, ast.Name) \
                and len(s.value.args) == 1 and not s.value.keywords:
            x = s.value.func.value.id            # xs.append(e)  ==  xs = xs + [e]  (xs is a local list)
            if x not in env or not (isinstance(env[x].ty, tuple) and env[x].ty[0] == "List"):
                raise Unsupported("append on something that is not a local list")
            e = self.expr(s.value.args[0], env)
            c = self.take()
            if env[x].ty[1] is None:
                self.list_hints[x] = e.ty
            elif env[x].ty[1] != e.ty:
                e = self.coerce(e, env[x].ty[1])
            return self.wrap(c, self.bind(env, x, V("(%s ++ [%s])" % (env[x].term, e.term), List(e.ty)), nxt), ctx)
        if isinstance(s, ast.FunctionDef):
            a = s.args
            if a.vararg or a.kwarg or a.kwonlyargs or a.defaults or a.posonlyargs or s.decorator_list:
                raise Unsupported("local function signature outside the fragment")
            # Python closures see LATER assignments of the variables they mention; the inlining uses the values at the
            # point of definition, so a later assignment of such a variable is outside the fragment
            bound = {x.arg for x in a.args} | self.assigned_names(s.body)
            for b in s.body:          # comprehension variables are local to their comprehension
                for x in ast.walk(b):
                    if isinstance(x, ast.comprehension):
                        bound |= {y.id for y in ast.walk(x.target) if isinstance(y, ast.Name)}
            free = {x.id for b in s.body for x in ast.walk(b) if isinstance(x, ast.Name)} - bound
            for later in rest:
                for x in ast.walk(later):
                    if isinstance(x, (ast.Assign, ast.AugAssign, ast.AnnAssign, ast.For)):
                        for t in (x.targets if isinstance(x, ast.Assign) else [x.target]):
                            for y in ast.walk(t):
                                if isinstance(y, ast.Name) and y.id in free:
                                    raise Unsupported("local function that mentions a variable assigned after its definition")
            env2 = dict(env)
            env2[s.name] = V(None, "Macro", macro=Macro([x.arg for x in a.args], s.body, env))
            return nxt(env2)
        if isinstance(s, ast.AnnAssign):
            if s.value is None:
                return nxt(env)
            s = ast.Assign(targets=[s.target], value=s.value)
        if isinstance(s, ast.Assign):
            if len(s.targets) != 1:
                raise Unsupported("chained assignment")
            t = s.targets[0]
            if isinstance(t, ast.Name):
                if is_oneshot(s.value) and not consumed_once(rest, t.id):
                    # the translation reads a generator as the list of its values, which is only right when it is
                    # consumed once: a generator bound to a name and read again is empty the second time
                    raise Unsupported("a one-shot iterator bound to a name and consumed more than once")
                v = self.expr(s.value, env)
                c = self.take()
                return self.wrap(c, self.bind(env, t.id, v, nxt), ctx)
            if isinstance(t, ast.Subscript):
                o = self.expr(t.value, env)
                if o.ty == CACHE:        # write into the memo cache: remembered, no effect on the result
                    v = self.expr(s.value, env)
                    cache = dict(o.macro)
                    cache[ast.unparse(t.slice)] = v
                    env2 = dict(env)
                    fields = dict(env2["$self"])
                    for k, f in fields.items():
                        if f is o:
                            fields[k] = V(None, CACHE, macro=cache)
                    env2["$self"] = fields
                    return nxt(env2)
            if isinstance(t, ast.Tuple) and isinstance(s.value, ast.Tuple) and len(t.elts) == len(s.value.elts) \
                    and all(isinstance(x, ast.Name) for x in t.elts):
                vs = [self.expr(x, env) for x in s.value.elts]
                c0 = self.take()
                tmp = ["t%d" % self._fresh() for _ in vs]
                out = "".join("let %s := %s in\n  " % (a, v.term) for a, v in zip(tmp, vs))
                env2 = dict(env)
                for x, a, v in zip(t.elts, tmp, vs):
                    out += "let %s := %s in\n  " % (gname(x.id), a)
                    env2[x.id] = V(gname(x.id), v.ty)
                return self.wrap(c0, "(" + out + nxt(env2) + ")", ctx)
            raise Unsupported("assignment target outside the fragment")
        if isinstance(s, ast.AugAssign):
            if not isinstance(s.target, ast.Name):
                raise Unsupported("augmented assignment target outside the fragment")
            e = ast.BinOp(left=ast.Name(id=s.target.id, ctx=ast.Load()), op=s.op, right=s.value)
            v = self.expr(e, env)
            c = self.take()
            return self.wrap(c, self.bind(env, s.target.id, v, nxt), ctx)
        if isinstance(s, ast.If):
            c = self.tobool(self.expr(s.test, env))
            cc = self.take()
            c2 = ctx.with_fall(nxt)
            if c.const is not None:
                return self.wrap(cc, self.block(s.body if c.const else s.orelse, env, c2), ctx)
            joined = self.if_join(s, env, c, nxt)
            if joined is not None:
                return self.wrap(cc, joined, ctx)
            return self.wrap(cc, "(if %s\n  then %s\n  else %s)" % (c.term, self.block(s.body, env, c2),
                                                                     self.block(s.orelse, env, c2)), ctx)
        if isinstance(s, ast.Return):
            if s.value is None:
                raise Unsupported("return without a value")
            v = self.expr(s.value, env)
            c = self.take()
            v.safe = c.cond or "true"
            return self.wrap(Taken("", c.binds), ctx.ret(v), ctx)
        if isinstance(s, ast.Raise):
            self.option_mode_needed()
            return ctx.ret(V("None", "Raise"))
        if isinstance(s, ast.Break):
            if ctx.brk is None:
                raise Unsupported("break outside a loop")
            return ctx.brk(env)
        if isinstance(s, ast.Continue):
            if ctx.cont is None:
                raise Unsupported("continue outside a loop")
            return ctx.cont(env)
        if isinstance(s, ast.For):
            return self.for_loop(s, env, ctx, nxt)
        raise Unsupported("statement %s outside the fragment" % type(s).__name__)

    def assigned_names(self, stmts):
        out = set()
        for n in _walk_no_defs(stmts):
            if isinstance(n, (ast.Assign, ast.AugAssign, ast.AnnAssign)):
                for t in (n.targets if isinstance(n, ast.Assign) else [n.target]):
                    for x in ast.walk(t):
                        if isinstance(x, ast.Name):
                            out.add(x.id)
            if isinstance(n, ast.For):
                for x in ast.walk(n.target):
                    if isinstance(x, ast.Name):
                        out.add(x.id)
            if isinstance(n, ast.Yield):
                out.add("$yield")
            if isinstance(n, ast.Call) and isinstance(n.func, ast.Attribute) and n.func.attr in ("append", "extend"):
                v = n.func.value
                if isinstance(v, ast.Subscript):
                    v = v.value
                if isinstance(v, ast.Name):
                    out.add(v.id)
        return out

    def if_join(self, s, env, c, nxt):
        """`if c: A else: B` whose branches only update variables that exist already (no return / break / raise,
        no new names, no obligations): the variables are joined -- let (x, y) := if c then .. else .. -- instead of
        duplicating everything that follows in both branches"""
        both = list(s.body) + list(s.orelse)
        for n in _walk_no_defs(both):
            if isinstance(n, (ast.Return, ast.Raise, ast.Break, ast.Continue, ast.FunctionDef)):
                return None
        names = self.assigned_names(both)
        if not names or any(x not in env or env[x].term is None or env[x].ty in ("Macro", CACHE, NONE, List(None))
                            for x in names):
            return None
        jvars = [x for x in env if x in names]

        class _NoJoin(Exception):
            pass

        def pack(e):
            for x in jvars:
                if e[x].ty != env[x].ty or e[x].term is None:
                    raise _NoJoin()
            vals = [gname(x) for x in jvars]
            return vals[0] if len(vals) == 1 else "(" + ", ".join(vals) + ")"

        def no_ret(v):
            raise _NoJoin()

        jctx = Ctx(no_ret, pack, fail=lambda: (_ for _ in ()).throw(_NoJoin()))
        save = (self.ob_count, list(self.pending), list(self.binds), dict(self.list_hints), dict(self.extras))
        try:
            a = self.block(s.body, env, jctx)
            b = self.block(s.orelse, env, jctx)
            if self.ob_count != save[0] and self.safety:
                raise _NoJoin()
        except (_NoJoin, _NeedOption):
            self.ob_count, self.pending, self.binds, self.list_hints = save[0], save[1], save[2], save[3]
            return None
        pat = pack(env)
        env2 = dict(env)
        for x in jvars:
            env2[x] = V(gname(x), env[x].ty)
        lhs = pat if len(jvars) == 1 else "'" + pat
        return "let %s := (if %s\n  then %s\n  else %s) in\n  %s" % (lhs, c.term, a, b, nxt(env2))

    def option_mode_needed(self):
        if not self.option_mode:
            raise _NeedOption()

    def for_loop(self, s, env, ctx, nxt):
        if s.orelse:
            raise Unsupported("for loop with else")
        if isinstance(s.target, ast.Name):
            tnames = [s.target.id]
        elif isinstance(s.target, ast.Tuple) and len(s.target.elts) == 2 and all(
                isinstance(x, ast.Name) for x in s.target.elts):
            tnames = [x.id for x in s.target.elts]
        else:
            raise Unsupported("for loop target outside the fragment")
        it = self.to_list(self.expr(s.iter, env))
        c_it = self.take()
        et = it.ty[1]
        if len(tnames) == 2 and not (isinstance(et, tuple) and et[0] == "Tup"):
            raise Unsupported("tuple target over a sequence that does not hold pairs")
        assigned = set()
        for n in _walk_no_defs(s.body):
            if isinstance(n, (ast.Assign, ast.AugAssign, ast.AnnAssign)):
                for t in (n.targets if isinstance(n, ast.Assign) else [n.target]):
                    for x in ast.walk(t):
                        if isinstance(x, ast.Name):
                            assigned.add(x.id)
            if isinstance(n, ast.Yield):
                assigned.add("$yield")
            if isinstance(n, ast.Call) and isinstance(n.func, ast.Attribute) and n.func.attr in ("append", "extend") \
                    and isinstance(n.func.value, ast.Name):
                assigned.add(n.func.value.id)
            if isinstance(n, ast.Call) and isinstance(n.func, ast.Attribute) and n.func.attr == "append" \
                    and isinstance(n.func.value, ast.Subscript) and isinstance(n.func.value.value, ast.Name):
                assigned.add(n.func.value.value.id)
        # state variables in the order in which the function first assigned them (renaming keeps the order)
        svars = [x for x in env if not (x.startswith("$") and x != "$yield") and x in assigned
                 and env[x].term is not None and x not in tnames]
        has_ret = any(isinstance(n, (ast.Return, ast.Raise)) for n in _walk_no_defs(s.body))
        has_brk = any(isinstance(n, ast.Break) for n in _walk_no_defs(s.body, stop_loops=True))
        if not (svars or has_ret or has_brk):
            # a loop that changes nothing can be dropped -- but only if its body IS inside the fragment (a body with
            # an effect the translator does not know, x.extend(..), d[k] = .., must not vanish silently)
            env_b0 = dict(env)
            for tn in tnames:
                env_b0[tn] = V(gname(tn), et if len(tnames) == 1 else et[1][tnames.index(tn)])
            save0 = (self.counter, list(self.pending), list(self.binds), self.ob_count)
            self.block(s.body, env_b0, Ctx(lambda v: "_", lambda e: "_", brk=lambda e: "_", cont=lambda e: "_",
                                           rtype="_", fail=lambda: "_"))
            self.counter, self.pending, self.binds, self.ob_count = save0
            return self.wrap(c_it, nxt(env), ctx)
        k = self._fresh()
        # `return` / `break` that are never reached (statically folded branches) do not get a state component:
        # translate once to see which are used, and again if fewer are
        use = {"ret": False, "brk": False}
        probe_ctx = Ctx(lambda v: (use.__setitem__("ret", True), ctx.ret(v))[1], ctx.fall, ctx.brk, ctx.cont, ctx.rtype,
                        ctx.fail)
        if has_ret or has_brk:
            save = (self.counter, list(self.pending), list(self.binds), self.ob_count, dict(self.extras))
            # (an Unsupported raised by the body must propagate: swallowing it here once turned a checker whose loop
            # body left the fragment into `return True`)
            self._for_loop(s, env, probe_ctx, lambda e: "_", it, c_it, et, tnames, svars, has_ret, has_brk, False, k, [],
                           use)
            self.counter, self.pending, self.binds, self.ob_count = save[0], save[1], save[2], save[3]
            has_ret, has_brk = has_ret and use["ret"], has_brk and use["brk"]
            if not (svars or has_ret or has_brk):
                return self.wrap(c_it, nxt(env), ctx)
        if self.safety:
            # the `ok` component is only needed when the body can violate an obligation: try with it, and
            # translate again without it when it was never used
            used = []
            probe = Ctx(ctx.ret, ctx.fall, ctx.brk, ctx.cont, ctx.rtype, fail=lambda: "$FAIL%d$" % k)
            out = self._for_loop(s, env, probe, nxt, it, c_it, et, tnames, svars, has_ret, has_brk, True, k, used)
            if used:
                return out.replace("$FAIL%d$" % k, ctx.fail())
        return self._for_loop(s, env, ctx, nxt, it, c_it, et, tnames, svars, has_ret, has_brk, False, k, [])

    def _for_loop(self, s, env, ctx, nxt, it, c_it, et, tnames, svars, has_ret, has_brk, safe, k, used, use=None):
        okv, stop, retv = "ok%d" % k, "stop%d" % k, "ret%d" % k
        # state of the fold: [safety mode: no obligation violated so far], [stop flag (only when the body can
        # `break`)], [pending return value (when it can `return`): Some r = the function has returned r], the
        # accumulator variables

        def pack(st=None, rt=None, ok=None):
            vals = ([ok or okv] if safe else []) + ([st or stop] if has_brk else []) + \
                   ([rt or retv] if has_ret else []) + [gname(x) for x in svars]
            return vals[0] if len(vals) == 1 else "(" + ", ".join(vals) + ")"

        comps = ([okv] if safe else []) + ([stop] if has_brk else []) + ([retv] if has_ret else []) + \
                [gname(x) for x in svars]

        def l_ret(v):
            if use is not None:
                use["ret"] = True
            inner = ctx.ret(v)     # what the enclosing context makes of `return v`
            return pack(None, "(Some (%s))" % inner)

        def l_brk(e):
            if use is not None:
                use["brk"] = True
            return pack("true")

        env_b = dict(env)
        if len(tnames) == 1:
            env_b[tnames[0]] = V(gname(tnames[0]), et)
            tpat = gname(tnames[0])
            tbind = ""
        else:
            # for i, v in pairs: the loop variable is the pair, the two names are its projections (no
            # destructuring `let`, so that the body keeps the shape  fold_left (step it) (list it) state)
            tpat = "it%d" % k
            tbind = ""
            env_b[tnames[0]] = V("(fst %s)" % tpat, et[1][0])
            env_b[tnames[1]] = V("(snd %s)" % tpat, et[1][1])
        for x in svars:
            if env[x].ty == List(None):
                # learn the element type from the body (its first append), then give up on this pass: translate()
                # starts again with the hint
                try:
                    self.block(s.body, env_b, Ctx(lambda v: "_", lambda e: "_", brk=lambda e: "_",
                                                  cont=lambda e: "_", rtype="_", fail=lambda: "_"))
                except Unsupported:
                    pass
                raise Unsupported("a list that is filled in a loop but whose element type is not known yet")
        ctypes = (["bool"] if safe else []) + (["bool"] if has_brk else []) + \
                 (["(option %s)" % ctx.rtype] if has_ret else []) + [gty(env[x].ty) for x in svars]
        stype = ctypes[0] if len(ctypes) == 1 else "(" + " * ".join(ctypes) + ")%type"
        lctx = Ctx(l_ret, lambda e: pack(), brk=l_brk, cont=lambda e: pack(), rtype=stype,
                   fail=lambda: (used.append(1), pack(None, None, "false"))[1])
        body = self.block(s.body, env_b, lctx)
        pat = pack()
        stv = comps[0] if len(comps) == 1 else "st%d" % k
        if has_ret:
            body = "match %s with Some _ => %s | None => %s end" % (retv, stv, body)
        if has_brk:
            body = "if %s then %s else %s" % (stop, stv, body)
        if safe:
            body = "if %s then %s else %s" % (okv, body, stv)
        if len(comps) == 1:
            head = "fun (%s : %s) %s => %s" % (stv, stype, tpat, tbind)
        else:
            head = "fun (%s : %s) %s => %slet '%s := %s in " % (stv, stype, tpat, tbind, pat, stv)
        init = pack("false", "(@None %s)" % ctx.rtype, "true")
        after = nxt(env)
        if has_ret:
            after = "match %s with Some r%d => r%d | None => %s end" % (retv, k, k, after)
        if safe:
            after = "(if %s then %s else %s)" % (okv, after, ctx.fail())
        lhs = pat if len(comps) == 1 else "'" + pat
        return self.wrap(c_it, "(let %s := fold_left (%s\n    %s) %s %s in\n  %s)" % (
            lhs, head, body, it.term, init, after), ctx)


class _NeedOption(Exception):
    pass


# ------------------------------------------------------------------------------------------------------
# the world: source files, targets, class wiring, rendering
# ------------------------------------------------------------------------------------------------------
FILES = {
    "ADD": "pabutools/election/satisfaction/additivesatisfaction.py",
    "FUN": "pabutools/election/satisfaction/functionalsatisfaction.py",
    "POS": "pabutools/election/satisfaction/positionalsatisfaction.py",
    "SATM": "pabutools/election/satisfaction/satisfactionmeasure.py",
    "TIE": "pabutools/tiebreaking.py",
    "INS": "pabutools/election/instance.py",
    "UTL": "pabutools/utils.py",
    "VSAT": "pabutools/analysis/votersatisfaction.py",
    "PPR": "pabutools/analysis/profileproperties.py",
    "IPR": "pabutools/analysis/instanceproperties.py",
    "PRC": "pabutools/analysis/priceability.py",
    "COH": "pabutools/analysis/cohesiveness.py",
    "JRP": "pabutools/analysis/justifiedrepresentation.py",
}
# which property a source file belongs to (gen_untranslated_<group>)
GROUP = {"ADD": "sat", "FUN": "sat", "POS": "sat", "SATM": "sat", "TIE": "tie", "INS": "inst", "UTL": "stats",
         "VSAT": "stats", "PPR": "stats", "IPR": "stats", "PRC": "price", "COH": "jr", "JRP": "jr"}

F_ADD = Fun([INST, PROFILE, BALLOT, PROJ, DICT], Q)
F_FUN = Fun([INST, PROFILE, BALLOT, List(PROJ)], Q)
F_POS = Fun([BALLOT, PROJ], Q)
F_AGG = Fun([List(Q)], Q)
F_KEY = Fun([INST, APROFILE, PROJ], Q)
NONE_ARG = ("Const", None)          # a parameter fixed to None (its default): `x is None` folds statically

# fields of `self` per base class (what the __init__ chain stores); CACHE = memo dictionary (transparent)
FIELDS = {
    "AdditiveSatisfaction": {"instance": INST, "profile": PROFILE, "ballot": BALLOT, "func": F_ADD,
                             "precomputed_values": DICT, "scores": CACHE},
    "FunctionalSatisfaction": {"instance": INST, "profile": PROFILE, "ballot": BALLOT, "func": F_FUN},
    "PositionalSatisfaction": {"instance": INST, "profile": PROFILE, "ballot": BALLOT, "positional_func": F_POS,
                               "aggregation_func": F_AGG},
    "TieBreakingRule": {"func": F_KEY},
}
SAT_BASES = ("AdditiveSatisfaction", "FunctionalSatisfaction", "PositionalSatisfaction")

# module-level functions: name -> (file, parameter types, return type)
FUNCS = {}
for _n in ("cardinality_sat_func", "relative_cardinality_sat_func", "cost_sat_func", "relative_cost_sat_func",
           "relative_cost_approx_normaliser_sat_func", "effort_sat_func", "additive_card_sat_func",
           "additive_card_relative_sat_func"):
    FUNCS[_n] = ("ADD", F_ADD[1], Q)
for _n in ("cc_sat_func_app", "cc_sat_func_card"):
    FUNCS[_n] = ("FUN", F_FUN[1], Q)
FUNCS["borda_sat_func"] = ("POS", F_POS[1], Q)
FUNCS["refuse_to_break_ties"] = ("TIE", F_KEY[1], Q)
# --- instance.py / utils.py (C15gen) ---
FUNCS["total_cost"] = ("INS", [List(PROJ)], Q)
FUNCS["max_budget_allocation_cardinality"] = ("INS", [List(PROJ), Q], Q)
FUNCS["powerset"] = ("UTL", [List(PROJ)], List(List(PROJ)))
# --- utils.py / analysis (C18gen); a 4th component names the source function when it differs (variants by type) ---
FUNCS["mean_generator"] = ("UTL", [List(Tup(Q, Q))], Q)                  # a stream of (value, multiplicity)
FUNCS["mean_generator_plain"] = ("UTL", [List(Q)], Q, "mean_generator")   # a stream of plain numbers
FUNCS["gini_coefficient"] = ("UTL", [List(Q)], Q)
FUNCS["avg_satisfaction"] = ("VSAT", [INST, PROFILE, List(PROJ), SATCLASS], Q)
FUNCS["percent_non_empty_handed"] = ("VSAT", [INST, PROFILE, List(PROJ)], Q)
FUNCS["percent_positive_satisfaction"] = ("VSAT", [PROFILE, List(PROJ), SATCLASS], Q)
FUNCS["gini_coefficient_of_satisfaction"] = ("VSAT", [INST, PROFILE, List(PROJ), SATCLASS, B], Q)
FUNCS["satisfaction_histogram"] = ("VSAT", [INST, PROFILE, List(PROJ), SATCLASS, Q, Q], List(Q))
for _n in ("avg_ballot_length", "median_ballot_length", "avg_ballot_cost", "median_ballot_cost", "avg_approval_score",
           "median_approval_score", "avg_total_score", "median_total_score"):
    FUNCS[_n] = ("PPR", [INST, PROFILE], Q)
for _n in ("sum_project_cost", "funding_scarcity", "avg_project_cost", "median_project_cost", "std_dev_project_cost"):
    FUNCS[_n] = ("IPR", [INST], Q)
# --- utils.round_cmp, analysis/priceability.validate_price_system (C12gen) ---
FUNCS["round_cmp"] = ("UTL", [Q, Q, Q], Q)
_VPS = [INST, List(List(PROJ)), List(PROJ), Q, PAYMENTS, B, B]
FUNCS["validate_price_system"] = ("PRC", _VPS + [NONE_ARG], B)                       # relaxation=None
FUNCS["validate_price_system_relax"] = ("PRC", _VPS + [RELAX], B, "validate_price_system")
# --- analysis/cohesiveness.py, analysis/justifiedrepresentation.py (C14gen): list profiles ---
_GROUPS = List(Tup(List(BALLOT), List(PROJ)))
_UPTO = Fun([List(Q)], Q)
FUNCS["powerset_ballots"] = ("UTL", [List(BALLOT)], List(List(BALLOT)), "powerset")
FUNCS["is_large_enough"] = ("COH", [Q, Q, Q, Q], B)
FUNCS["is_cohesive_approval"] = ("COH", [INST, APPLP, List(PROJ), List(BALLOT)], B)
FUNCS["is_cohesive_cardinal"] = ("COH", [INST, CARDLP, List(PROJ), List(BALLOT), PDICT], B)
FUNCS["cohesive_groups"] = ("COH", [INST, APPLP, NONE_ARG], _GROUPS)
FUNCS["cohesive_groups_cardinal"] = ("COH", [INST, CARDLP, NONE_ARG], _GROUPS, "cohesive_groups")
FUNCS["is_in_core"] = ("JRP", [INST, APPLP, SATCLASSL, List(PROJ), NONE_ARG], B)
FUNCS["is_in_core_upto"] = ("JRP", [INST, APPLP, SATCLASSL, List(PROJ), _UPTO], B, "is_in_core")
FUNCS["is_strong_EJR_approval"] = ("JRP", [INST, APPLP, SATCLASSL, List(PROJ)], B)
FUNCS["is_EJR_approval"] = ("JRP", [INST, APPLP, SATCLASSL, List(PROJ), NONE_ARG], B)
FUNCS["is_EJR_approval_upto"] = ("JRP", [INST, APPLP, SATCLASSL, List(PROJ), _UPTO], B, "is_EJR_approval")
FUNCS["is_EJR_any_approval"] = ("JRP", [INST, APPLP, SATCLASSL, List(PROJ)], B)
FUNCS["is_EJR_one_approval"] = ("JRP", [INST, APPLP, SATCLASSL, List(PROJ)], B)
FUNCS["is_PJR_approval"] = ("JRP", [INST, APPLP, SATCLASSL, List(PROJ), NONE_ARG], B)
FUNCS["is_PJR_approval_upto"] = ("JRP", [INST, APPLP, SATCLASSL, List(PROJ), _UPTO], B, "is_PJR_approval")
FUNCS["is_PJR_any_approval"] = ("JRP", [INST, APPLP, SATCLASSL, List(PROJ)], B)
FUNCS["is_PJR_one_approval"] = ("JRP", [INST, APPLP, SATCLASSL, List(PROJ)], B)
FUNCS["is_strong_EJR_cardinal"] = ("JRP", [INST, CARDLP, List(PROJ), SATCLASSL], B)
FUNCS["is_EJR_cardinal"] = ("JRP", [INST, CARDLP, List(PROJ), SATCLASSL, NONE_ARG], B)
FUNCS["is_EJR_cardinal_upto"] = ("JRP", [INST, CARDLP, List(PROJ), SATCLASSL, _UPTO], B, "is_EJR_cardinal")
FUNCS["is_EJR_any_cardinal"] = ("JRP", [INST, CARDLP, List(PROJ)], B)
FUNCS["is_EJR_one_cardinal"] = ("JRP", [INST, CARDLP, List(PROJ)], B)
FUNCS["is_PJR_cardinal"] = ("JRP", [INST, CARDLP, List(PROJ), NONE_ARG], B)
FUNCS["is_PJR_cardinal_upto"] = ("JRP", [INST, CARDLP, List(PROJ), _UPTO], B, "is_PJR_cardinal")
FUNCS["is_PJR_any_cardinal"] = ("JRP", [INST, CARDLP, List(PROJ)], B)
FUNCS["is_PJR_one_cardinal"] = ("JRP", [INST, CARDLP, List(PROJ)], B)
# float-only statistics (numpy arrays filled by index, np.std, math.ceil): correspondence only; they are attempted
# all the same and listed in gen_correspondence_only when they fall outside the fragment
EXPECTED_OUT = ("satisfaction_histogram", "median_ballot_length", "median_ballot_cost", "std_dev_project_cost")


def _fsrc(name):
    spec = FUNCS[name]
    return spec[3] if len(spec) > 3 else name


# numpy-float measures: outside the statement of C10 (correspondence only); their wiring is still recorded
OUT_OF_SCOPE = ("add_cost_sqrt_sat_func", "additive_cost_log_sat_func", "cost_sqrt_sat_func", "cost_log_sat_func")

# methods: (class, method) -> (parameter types after self, return type, uses the fields of self?, opaque-dict fallback?)
METHODS = {
    ("AdditiveSatisfaction", "preprocessing"): ([INST, PROFILE, BALLOT], DICT, False, False),
    ("Relative_Cardinality_Sat", "preprocessing"): ([INST, PROFILE, BALLOT], DICT, False, False),
    ("Relative_Cost_Sat", "preprocessing"): ([INST, PROFILE, BALLOT], DICT, False, False),
    ("Relative_Cost_Approx_Normaliser_Sat", "preprocessing"): ([INST, PROFILE, BALLOT], DICT, False, False),
    ("Additive_Cardinal_Relative_Sat", "preprocessing"): ([INST, PROFILE, BALLOT], DICT, False, True),
    ("AdditiveSatisfaction", "get_project_sat"): ([PROJ], Q, True, False),
    ("AdditiveSatisfaction", "sat"): ([List(PROJ)], Q, True, False),
    ("AdditiveSatisfaction", "sat_project"): ([PROJ], Q, True, False),
    ("FunctionalSatisfaction", "sat"): ([List(PROJ)], Q, True, False),
    ("FunctionalSatisfaction", "sat_project"): ([PROJ], Q, True, False),
    ("PositionalSatisfaction", "sat"): ([List(PROJ)], Q, True, False),
    ("PositionalSatisfaction", "sat_project"): ([PROJ], Q, True, False),
    ("TieBreakingRule", "order"): ([INST, APROFILE, List(PROJ), NONE_ARG], List(PROJ), True, False),
    ("TieBreakingRule", "untie"): ([INST, APROFILE, List(PROJ), NONE_ARG], Opt(PROJ), True, False),
    # the same two methods when a key function (element -> project) is handed over; translated for elements = projects
    ("TieBreakingRule", "order_key"): ([INST, APROFILE, List(PROJ), Fun([PROJ], PROJ)], List(PROJ), True, False, "order"),
    ("TieBreakingRule", "untie_key"): ([INST, APROFILE, List(PROJ), Fun([PROJ], PROJ)], Opt(PROJ), True, False, "untie"),
    # Instance: `self` is the instance itself (a set of projects with a budget limit)
    ("Instance", "is_feasible"): ([List(PROJ)], B, False, False),
    ("Instance", "is_exhaustive"): ([List(PROJ), NONE_ARG], B, False, False),
    ("Instance", "is_exhaustive_avail"): ([List(PROJ), List(PROJ)], B, False, False, "is_exhaustive"),
    ("Instance", "is_trivial"): ([], B, False, False),
    ("Instance", "budget_allocations"): ([], List(List(PROJ)), False, False),
}
SELF_TYPES = {"Instance": INST}      # classes whose `self` is a first-class value of the fragment


def _msrc(key):
    spec = METHODS[key]
    return spec[4] if len(spec) > 4 else key[1]
GUARD_SHORT = {"AbstractApprovalBallot": "approval", "AbstractCardinalBallot": "cardinal",
               "AbstractOrdinalBallot": "ordinal"}


class Def:
    def __init__(self, name, comment):
        self.name, self.comment = name, comment
        self.params, self.extras, self.ret, self.body, self.error = [], {}, None, None, None
        self.safe_body = None
        self.safe_trivial = False
        self.raises = False       # translated in option mode (the function can `raise`)
        self.group = "sat"
        self.ptypes = []

    def fun_type(self):
        return Fun(self.ptypes, self.ret)


def _comment_safe(s):
    return s.replace('"', "'").replace("(*", "( *").replace("*)", "* )")


def _strip_docstrings(node):
    import copy
    node = copy.deepcopy(node)
    for n in ast.walk(node):
        if isinstance(n, (ast.FunctionDef, ast.ClassDef)) and n.body and _is_doc(n.body[0]) and len(n.body) > 1:
            n.body = n.body[1:]
    return node


class World:
    def __init__(self, repo):
        self.repo = repo
        self.trees, self.classes, self.funcs, self.errors = {}, {}, {}, []
        self.lambdas = {}
        self.constants = {}
        for k, rel in FILES.items():
            try:
                path = os.path.join(repo, rel)
                self.trees[k] = ast.parse(open(path).read(), filename=path)
            except Exception as e:       # the whole file is unreadable: every target in it fails closed
                self.trees[k] = ast.Module(body=[], type_ignores=[])
                self.errors.append("%s: %r" % (rel, e))
            for n in self.trees[k].body:
                if isinstance(n, ast.ClassDef):
                    self.classes[n.name] = (k, n)
                elif isinstance(n, ast.FunctionDef):
                    self.funcs[n.name] = (k, n)
                elif isinstance(n, ast.Assign) and len(n.targets) == 1 and isinstance(n.targets[0], ast.Name) \
                        and isinstance(n.value, ast.Lambda):
                    self.lambdas[n.targets[0].id] = n.value
                elif isinstance(n, ast.Assign) and len(n.targets) == 1 and isinstance(n.targets[0], ast.Name) \
                        and isinstance(n.value, ast.Constant) and isinstance(n.value.value, int) \
                        and not isinstance(n.value.value, bool):
                    self.constants[n.targets[0].id] = n.value.value      # module-level integer constant
        self.defs = {}          # name -> Def (memo), insertion order = emission order (dependencies first)
        self.busy = set()

    # ---------------- locating ----------------
    def method_node(self, cls, name):
        k, c = self.classes.get(cls, (None, None))
        if c is None:
            return None, None
        for n in c.body:
            if isinstance(n, ast.FunctionDef) and n.name == name:
                return k, n
        return k, None

    def bases(self, cls):
        k, c = self.classes.get(cls, (None, None))
        return [b.id for b in c.bases if isinstance(b, ast.Name)] if c is not None else []

    def resolve_method(self, cls, name):
        """owner of the method by (single-inheritance) lookup from cls upwards"""
        seen = set()
        while cls and cls not in seen:
            seen.add(cls)
            k, n = self.method_node(cls, name)
            if n is not None:
                return cls
            bs = [b for b in self.bases(cls) if b in self.classes]
            cls = bs[0] if bs else None
        return None

    def where(self, k, node, qual):
        return "%s:%d %s" % (FILES[k], node.lineno, qual)

    # ---------------- definitions on demand ----------------
    def get(self, name, builder):
        if name in self.defs:
            return self.defs[name]
        if name in self.busy:
            raise Unsupported("recursive definition " + name)
        self.busy.add(name)
        d = Def(name, "")
        try:
            builder(d)
        except Unsupported as e:
            d.error = str(e)
        except RecursionError:
            d.error = "expression too deep"
        except Exception as e:            # any defect of the translator itself also fails closed
            d.error = "translator error: %r" % (e,)
        self.busy.discard(name)
        self.defs[name] = d
        return d

    def need(self, d, tr):
        if d.error is not None:
            raise Unsupported("depends on untranslated %s" % d.name)
        tr.extras.update(d.extras)
        return d

    def applied(self, d):
        ex = " ".join(sorted(d.extras))
        return "(%s %s)" % (d.name, ex) if ex else d.name

    def func_def(self, fname):
        k, ptypes, ret = FUNCS[fname][:3]
        src = _fsrc(fname)

        def build(d):
            d.group = GROUP[k]
            kk, node = self.funcs.get(src, (None, None))
            if node is None or kk != k:
                raise Unsupported("function %s not found in %s" % (src, FILES[k]))
            d.comment = self.where(k, node, src) + "\n" + ast.unparse(_strip_docstrings(node))
            self.translate(d, node, list(ptypes), ret, None, {}, safe=True)
        return self.get("gen_" + fname, build)

    def method_def(self, cls, mname):
        ptypes, ret, use_fields, opaque = METHODS[(cls, mname)][:4]
        src = _msrc((cls, mname))

        def build(d):
            k, node = self.method_node(cls, src)
            d.group = GROUP.get(self.classes.get(cls, ("ADD", None))[0], "sat")
            if node is None:
                raise Unsupported("method %s.%s not found" % (cls, src))
            d.comment = self.where(k, node, cls + "." + src) + "\n" + ast.unparse(_strip_docstrings(node))
            fields = FIELDS.get(cls, {}) if use_fields else {}
            try:
                self.translate(d, node, list(ptypes), ret, cls, fields, safe=cls in SELF_TYPES)
            except Unsupported as e:
                if not opaque:
                    raise
                self.opaque_dict(d, node, list(ptypes), str(e))
        return self.get("gen_%s_%s" % (cls, mname), build)

    def opaque_dict(self, d, node, ptypes, why):
        """a preprocessing that builds a MIP model: only the SHAPE of its result is translated -- the literal keys
        of the dictionary it returns; the values are opaque extra parameters (oracle hypotheses of the theorems)"""
        keys = None
        for n in _walk_no_defs(node.body):
            if isinstance(n, ast.Return):
                v = n.value
                if not isinstance(v, ast.Dict) or not all(
                        isinstance(kk, ast.Constant) and isinstance(kk.value, str) for kk in v.keys):
                    raise Unsupported("not translatable (%s) and its result is not a literal-key dictionary" % why)
                ks = [kk.value for kk in v.keys]
                if keys is not None and ks != keys:
                    raise Unsupported("returns dictionaries with different keys")
                keys = ks
        if not keys:
            raise Unsupported("not translatable (%s) and no literal-key dictionary is returned" % why)
        params = [a.arg for a in node.args.args][1:]
        if len(params) != len(ptypes):
            raise Unsupported("unexpected number of parameters")
        d.params = [(gname(p), gty(t)) for p, t in zip(params, ptypes)]
        d.ptypes = ptypes
        d.ret = DICT
        d.extras = {}
        items = []
        for i, kx in enumerate(keys):
            d.extras["opaque%d" % i] = "Q"
            items.append("(%s, opaque%d)" % (coq_string(kx), i))
        d.body = "(py_dict_of [" + "; ".join(items) + "])"
        d.comment += "\n-- body outside the fragment (%s): only the keys of the returned dictionary are translated, " \
                     "the values are the opaque parameters" % why

    def translate(self, d, node, ptypes, ret, self_cls, fields, safe=False):
        a = node.args
        if a.vararg or a.kwarg or a.posonlyargs or getattr(node, "decorator_list", []):
            raise Unsupported("signature outside the fragment")
        kwonly = {}
        for x, dv in zip(a.kwonlyargs, a.kw_defaults):     # keyword-only parameters keep their (constant) default
            if not isinstance(dv, ast.Constant):
                raise Unsupported("keyword-only parameter without a constant default")
            kwonly[x.arg] = dv
        params = [x.arg for x in a.args]
        if self_cls is not None:
            if not params or params[0] != "self":
                raise Unsupported("method without self")
            params = params[1:]
        if len(params) != len(ptypes):
            raise Unsupported("expected %d parameters, found %d" % (len(ptypes), len(params)))
        for dflt in a.defaults:       # defaults are not used: every translated call passes the argument, or the
            if not isinstance(dflt, (ast.Constant, ast.Name, ast.Lambda)):   # parameter is fixed to its default
                raise Unsupported("parameter default outside the fragment")
        body = node.body if isinstance(node, ast.FunctionDef) else [ast.Return(value=node.body)]
        is_gen = any(isinstance(x, (ast.Yield, ast.YieldFrom)) for x in _walk_no_defs(body))
        hints = {}
        mode = False          # option mode: entered when the body turns out to contain a `raise`
        for attempt in range(8):
            tr = FuncTranslator(self, self_cls)
            tr.option_mode = mode
            tr.list_hints = dict(hints)
            env, gparams, pts = {}, [], []
            if self_cls in SELF_TYPES:
                env["self"] = V("v_self", SELF_TYPES[self_cls])
                env["$inst"] = env["self"]
                gparams.append(("v_self", gty(SELF_TYPES[self_cls])))
                pts.append(SELF_TYPES[self_cls])
            if self_cls is not None:
                sf = {}
                for f in sorted(fields):
                    if fields[f] == CACHE:
                        sf[f] = V(None, CACHE, macro={})
                    else:
                        sf[f] = V("self_" + f, fields[f])
                        gparams.append(("self_" + f, gty(fields[f])))
                        pts.append(fields[f])
                env["$self"] = sf
                if "instance" in sf:
                    env["$inst"] = sf["instance"]
            for kname, dv in kwonly.items():
                env[kname] = tr.expr(dv, {})
            dflt_of = dict(zip(params[len(params) - len(a.defaults):], a.defaults)) if a.defaults else {}
            for p, t in zip(params, ptypes):
                if t == NONE_ARG:      # the argument is omitted: the parameter has its default
                    dv = dflt_of.get(p)
                    if dv is None or (isinstance(dv, ast.Constant) and dv.value is None):
                        env[p] = V("tt", NONE, const=None)
                    else:
                        env[p] = tr.expr(dv, {})
                    continue
                env[p] = V(gname(p), t)
                gparams.append((gname(p), gty(t)))
                pts.append(t)
                if t == INST and "$inst" not in env:
                    env["$inst"] = env[p]

            def top_ret(v, tr=tr, mode=mode):
                if tr.safety:
                    if v.ty != "Raise" and not (isinstance(ret, tuple) and ret[0] == "Opt"):
                        tr.coerce(v, ret)
                    return getattr(v, "safe", "true")
                if v.ty == "Raise":
                    return "None"
                if isinstance(ret, tuple) and ret[0] == "Opt":
                    if v.ty != ret:
                        raise Unsupported("returns a %r where %r is expected" % (v.ty, ret))
                    return v.term
                c = tr.coerce(v, ret)
                return "(Some %s)" % c.term if mode else c.term

            def top_fall(env2):
                if is_gen:         # a generator function: its value is the list of what it yielded
                    v = env2["$yield"]
                    if v.ty == List(None):
                        v = tr.coerce(v, ret)
                    v.safe = "true"
                    return top_ret(v)
                raise Unsupported("the function can end without `return` (returns None)")

            body2 = body
            if is_gen:
                if any(isinstance(x, (ast.Return, ast.YieldFrom)) for x in _walk_no_defs(body)):
                    raise Unsupported("generator function with return / yield from")
                env["$yield"] = V("yielded", List(hints.get("$yield")))
            try:
                rt = gty(Opt(ret) if (mode and not (isinstance(ret, tuple) and ret[0] == "Opt")) else ret)
                pre = ""
                if is_gen:
                    if "$yield" not in hints:      # first pass: learn the element type
                        tr.list_hints["$yield"] = ret[1] if isinstance(ret, tuple) and ret[0] == "List" else None
                        hints = dict(tr.list_hints)
                        env["$yield"] = V("yielded", List(hints["$yield"]))
                    pre = "let yielded := (@nil %s) in\n  " % gty(hints["$yield"])
                body_s = pre + tr.block(body2, env, Ctx(top_ret, top_fall, rtype=rt))
                if safe:
                    tr.safety, tr.pending, tr.guards, tr.counter, tr.binds, tr.ob_count = True, [], [], 0, [], 0
                    d.safe_body = pre + tr.block(body2, env, Ctx(top_ret, top_fall, rtype="bool"))
                    d.safe_trivial = tr.ob_count == 0
                    if d.safe_trivial:       # no division, no min/max of a possibly empty sequence, no such callee
                        d.safe_body = "true"
            except _NeedOption:
                if mode:
                    raise Unsupported("raise outside the fragment")
                mode = True
                continue
            except Unsupported:
                if tr.list_hints != hints:       # an `xs = []` whose element type was learnt later: once more
                    hints = dict(tr.list_hints)
                    continue
                raise
            if tr.list_hints != hints:
                hints = dict(tr.list_hints)
                continue
            if tr.unresolved - set(hints):
                raise Unsupported("an empty list whose element type is never determined")
            d.raises = mode
            d.params, d.ptypes = gparams, pts
            d.ret = Opt(ret) if mode else ret
            d.extras = dict(tr.extras)
            d.body = body_s
            return
        raise Unsupported("raise outside the fragment")

    # ---------------- what FuncTranslator asks the world ----------------
    def global_value(self, name, tr):
        if name in FUNCS and _fsrc(name) == name:
            d = self.need(self.func_def(name), tr)
            v = V(self.applied(d), d.fun_type())
            v.defn = d
            return v
        return None

    def variants(self, name):
        """the translated variants (by argument type) of the source function `name`, first the one of that name"""
        return [f for f in FUNCS if _fsrc(f) == name]

    def variant_value(self, fname, tr):
        d = self.need(self.func_def(fname), tr)
        v = V(self.applied(d), d.fun_type())
        v.defn = d
        return v

    def helper_macro(self, name):
        """a module-level function (or `name = lambda ...`) of the translated files that is not itself a target:
        inlined at its uses like a local function (single `return`, no effects)"""
        if name in FUNCS:
            return None
        if name in self.funcs:
            k, node = self.funcs[name]
            a = node.args
            if a.vararg or a.kwarg or a.kwonlyargs or a.defaults or a.posonlyargs or node.decorator_list:
                return None
            return V(None, "Macro", macro=Macro([x.arg for x in a.args], node.body, {}))
        if name in self.lambdas:
            n = self.lambdas[name]
            a = n.args
            if a.vararg or a.kwarg or a.kwonlyargs or a.defaults or a.posonlyargs:
                return None
            return V(None, "Macro", macro=Macro([x.arg for x in a.args], n.body, {}))
        return None

    def sat_class_names(self):
        return [c for c, (k, n) in self.classes.items() if k in ("ADD", "FUN", "POS") and c not in SAT_BASES]

    def call_method(self, tr, env, mname, call):
        cls = getattr(tr, "dyn_cls", None) or tr.self_cls
        owner = self.resolve_method(cls, mname)
        cands = [k for k in METHODS if k[0] == owner and _msrc(k) == mname]
        if owner is None or not cands:
            raise Unsupported("call of self.%s, which is not a translated method" % mname)
        if call.keywords:
            raise Unsupported("keyword arguments in a call of self.%s" % mname)
        cargs = [tr.expr(x, env) for x in call.args]
        last = None
        for key in cands:
            ptypes, _, use_fields = METHODS[key][:3]
            if len(cargs) != len(ptypes) or any((t == NONE_ARG) != (x.ty == NONE) for x, t in zip(cargs, ptypes)):
                last = "call of self.%s with arguments outside the translated variants" % mname
                continue
            d = self.need(self.method_def(*key), tr)
            args = []
            if owner in SELF_TYPES:
                args.append(env["self"])
            if use_fields:
                for f in sorted(FIELDS.get(owner, {})):
                    if FIELDS[owner][f] != CACHE:
                        args.append(tr.self_field(f, env))
            for x, t in zip(cargs, ptypes):
                if t != NONE_ARG:
                    args.append(tr.coerce(x, t))
            if d.safe_body is not None and not d.safe_trivial:
                if tr.no_div:
                    raise Unsupported("call of self.%s (which can raise) inside a comprehension" % mname)
                ob = "(%s_safe %s %s)" % (d.name, " ".join(sorted(d.extras)), " ".join(x.term for x in args))
                if tr.guards:
                    ob = "(negb (%s) || %s)" % (" && ".join(tr.guards), ob)
                tr.pending.append(ob)
            return V("(%s %s)" % (self.applied(d), " ".join(x.term for x in args)), d.ret)
        raise Unsupported(last)

    # ---------------- symbolic execution of the __init__ chain ----------------
    def sym_init(self, cls, argvals, tr, dyn_cls, fields=None, depth=0):
        if depth > 4:
            raise Unsupported("__init__ chain too deep")
        k, node = self.method_node(cls, "__init__")
        if node is None:
            raise Unsupported("%s.__init__ not found" % cls)
        a = node.args
        params = [x.arg for x in a.args]
        if a.vararg or a.kwarg or a.kwonlyargs or a.defaults or params[:1] != ["self"] or len(params) - 1 != len(argvals):
            raise Unsupported("%s.__init__ has an unexpected signature" % cls)
        env = {"$self": {}}
        for p, v in zip(params[1:], argvals):
            env[p] = v
            if v.ty == INST:
                env["$inst"] = v
        fields = {} if fields is None else fields
        known = FIELDS.get(dyn_cls if dyn_cls in FIELDS else cls, {})
        for s in node.body:
            if _is_doc(s) or isinstance(s, ast.Pass):
                continue
            if isinstance(s, ast.Expr) and isinstance(s.value, ast.Call):
                f = s.value.func
                if isinstance(f, ast.Attribute) and f.attr == "__init__" and isinstance(f.value, ast.Name) \
                        and not s.value.keywords and s.value.args and isinstance(s.value.args[0], ast.Name) \
                        and s.value.args[0].id == "self":
                    self.sym_init(f.value.id, [tr.expr(x, env) for x in s.value.args[1:]], tr, dyn_cls, fields, depth + 1)
                    continue
            if isinstance(s, ast.Assign) and len(s.targets) == 1 and isinstance(s.targets[0], ast.Attribute) \
                    and isinstance(s.targets[0].value, ast.Name) and s.targets[0].value.id == "self":
                fld = s.targets[0].attr
                if self.field_type(dyn_cls, fld) == CACHE:
                    v = s.value
                    if (isinstance(v, ast.Dict) and not v.keys) or (isinstance(v, ast.Call) and isinstance(
                            v.func, ast.Name) and v.func.id == "dict" and not v.args and not v.keywords):
                        fields[fld] = V(None, CACHE, macro={})
                        continue
                    raise Unsupported("the memo cache self.%s does not start empty" % fld)
                tr.dyn_cls = dyn_cls
                v = tr.expr(s.value, env)
                t = self.field_type(dyn_cls, fld)
                fields[fld] = tr.coerce(v, t) if t is not None else v
                continue
            raise Unsupported("statement in %s.__init__ outside the fragment" % cls)
        return fields

    def field_type(self, dyn_cls, fld):
        c = dyn_cls
        seen = set()
        while c and c not in seen:
            seen.add(c)
            if c in FIELDS:
                return FIELDS[c].get(fld)
            bs = [b for b in self.bases(c) if b in self.classes]
            c = bs[0] if bs else None
        return None

    def base_of(self, cls):
        c, seen = cls, set()
        while c and c not in seen:
            seen.add(c)
            if c in FIELDS:
                return c
            bs = [b for b in self.bases(c) if b in self.classes]
            c = bs[0] if bs else None
        return None

    def class_branches(self, cls):
        """[(guard class or None, call node)] of cls.__init__: a direct Base.__init__(self, ...) call, or an
        if/elif chain of isinstance(ballot, T) tests each holding one such call, ending in `else: raise`"""
        k, node = self.method_node(cls, "__init__")
        if node is None:
            raise Unsupported("%s.__init__ not found" % cls)
        params = [x.arg for x in node.args.args]
        if len(params) != 4 or params[0] != "self" or node.args.defaults or node.args.vararg or node.args.kwarg:
            raise Unsupported("%s.__init__ has an unexpected signature" % cls)
        body = [s for s in node.body if not _is_doc(s) and not isinstance(s, (ast.Pass, ast.Assert))]

        def the_call(stmts):
            stmts = [s for s in stmts if not _is_doc(s) and not isinstance(s, (ast.Pass, ast.Assert))]
            if len(stmts) == 1 and isinstance(stmts[0], ast.Expr) and isinstance(stmts[0].value, ast.Call):
                c = stmts[0].value
                f = c.func
                if isinstance(f, ast.Attribute) and f.attr == "__init__" and isinstance(f.value, ast.Name) \
                        and not c.keywords and len(c.args) >= 4 \
                        and [ast.unparse(x) for x in c.args[:4]] == params:
                    return c
                if isinstance(f, ast.Attribute) and f.attr == "__init__" and isinstance(f.value, ast.Call) \
                        and ast.unparse(f.value) == "super()" and not c.keywords and len(c.args) >= 3 \
                        and [ast.unparse(x) for x in c.args[:3]] == params[1:]:
                    bs = self.bases(cls)
                    if len(bs) == 1:      # super().__init__(instance, ...) == Base.__init__(self, instance, ...)
                        c2 = ast.Call(func=ast.Attribute(value=ast.Name(id=bs[0], ctx=ast.Load()), attr="__init__",
                                                         ctx=ast.Load()),
                                      args=[ast.Name(id="self", ctx=ast.Load())] + list(c.args), keywords=[])
                        return c2
            raise Unsupported("%s.__init__: a branch is not a single Base.__init__(self, instance, profile, ballot, ...) call" % cls)

        def is_raise(stmts):
            stmts = [s for s in stmts if not _is_doc(s)]
            return len(stmts) == 1 and isinstance(stmts[0], ast.Raise)

        def guard(test, negated=False):
            if isinstance(test, ast.UnaryOp) and isinstance(test.op, ast.Not):
                return guard(test.operand, not negated)
            if isinstance(test, ast.Call) and isinstance(test.func, ast.Name) and test.func.id == "isinstance" \
                    and len(test.args) == 2 and not test.keywords and ast.unparse(test.args[0]) == params[3] \
                    and isinstance(test.args[1], ast.Name):
                return test.args[1].id, negated
            raise Unsupported("%s.__init__: guard that is not isinstance(ballot, T)" % cls)

        out = []
        while True:
            if len(body) >= 1 and isinstance(body[0], ast.If):
                g, neg = guard(body[0].test)
                if neg:        # if not isinstance(...): raise ;  <call>
                    if not is_raise(body[0].body) or body[0].orelse and len(body) > 1:
                        raise Unsupported("%s.__init__: negated guard that does not raise" % cls)
                    rest = body[0].orelse if body[0].orelse else body[1:]
                    out.append((g, the_call(rest)))
                    return out
                if len(body) != 1:
                    if len(body) == 2 and isinstance(body[1], ast.Raise) and not body[0].orelse:
                        out.append((g, the_call(body[0].body)))     # if T: call (falls through?) -- only with return
                    raise Unsupported("%s.__init__: statements after the guard chain" % cls)
                out.append((g, the_call(body[0].body)))
                body = [s for s in body[0].orelse if not _is_doc(s)]
                if is_raise(body):
                    return out
                if not body:
                    raise Unsupported("%s.__init__: guard chain without a final raise" % cls)
                continue
            if out:
                raise Unsupported("%s.__init__: the guard chain does not end in raise" % cls)
            return [(None, the_call(body))]

    # ---------------- everything ----------------
    def sat_classes(self):
        out = []
        for k in ("ADD", "FUN", "POS"):
            for n in self.trees[k].body:
                if isinstance(n, ast.ClassDef) and n.name not in SAT_BASES and self.base_of(n.name) in SAT_BASES:
                    out.append(n.name)
        return out

    def build_all(self):
        for f in FUNCS:
            self.func_def(f)
        for (c, m) in METHODS:
            self.method_def(c, m)
        self.wires = {}
        self.composites = []
        for cls in self.sat_classes():
            self.build_class(cls)
        self.build_ties()

    def build_class(self, cls):
        base = self.base_of(cls)
        k, cnode = self.classes[cls]
        try:
            branches = self.class_branches(cls)
        except Unsupported as e:
            self.wires[cls] = str(e)
            return
        wires = []
        for g, call in branches:
            callee = call.func.value.id
            wires.append((g, callee, [ast.unparse(x) for x in call.args[4:]]))
        self.wires[cls] = sorted(wires, key=lambda w: (w[0] or "", w[1], w[2]))    # the order of disjoint guards is immaterial
        for g, call in branches:
            names = [ast.unparse(x) for x in call.args[4:]]
            if any(nm in OUT_OF_SCOPE for nm in names):
                continue
            suffix = ("_" + GUARD_SHORT.get(g, g)) if (g and len(branches) > 1) else ""
            for m in ("sat", "sat_project"):
                self.composite(cls, base, g, call, suffix, m)

    def composite(self, cls, base, g, call, suffix, m):
        kk, init = self.method_node(cls, "__init__")
        ip = [x.arg for x in init.args.args][1:]
        mp, mret = METHODS[(base, m)][:2]
        argn = "v_projects" if mp[0] == List(PROJ) else "v_project"

        def build(d):
            d.comment = "%s: %s(%s).%s -- %s.__init__ chain executed symbolically%s" % (
                self.where(kk, init, cls + ".__init__"), cls, ", ".join(ip), m, call.func.value.id,
                (" under the guard isinstance(%s, %s)" % (ip[2], g)) if g else "")
            tr = FuncTranslator(self, base)
            tr.dyn_cls = cls
            env0 = {ip[0]: V("v_instance", INST), ip[1]: V("v_profile", PROFILE), ip[2]: V("v_ballot", BALLOT)}
            env0["$inst"] = env0[ip[0]]
            env0["$self"] = {}
            callee = call.func.value.id
            if self.base_of(callee) != base:
                raise Unsupported("%s.__init__ calls %s.__init__, not its base" % (cls, callee))
            fields = self.sym_init(callee, [tr.expr(x, env0) for x in call.args[1:]], tr, cls)
            md = self.need(self.method_def(base, m), tr)
            if md.ret != mret:
                raise Unsupported("%s.%s returns a %r where %r is expected" % (base, m, md.ret, mret))
            args = []
            for f in sorted(FIELDS[base]):
                if FIELDS[base][f] == CACHE:
                    if f not in fields:
                        raise Unsupported("the memo cache self.%s is not initialised" % f)
                    continue
                if f not in fields:
                    raise Unsupported("field self.%s is not set by the __init__ chain" % f)
                args.append(fields[f].term)
            d.params = [("v_instance", "py_inst"), ("v_profile", "py_profile"), ("v_ballot", "py_ballot"),
                        (argn, gty(mp[0]))]
            d.ptypes = [INST, PROFILE, BALLOT, mp[0]]
            d.ret = mret
            d.extras = dict(tr.extras)
            d.body = "%s %s %s" % (self.applied(md), " ".join(args), argn)
        self.get("gen_%s%s_%s" % (cls, suffix, m), build)

    def build_ties(self):
        self.tie_rules = []
        for n in self.trees["TIE"].body:
            if isinstance(n, ast.Assign) and len(n.targets) == 1 and isinstance(n.targets[0], ast.Name) \
                    and isinstance(n.value, ast.Call) and isinstance(n.value.func, ast.Name) \
                    and n.value.func.id == "TieBreakingRule":
                self.tie_rule(n.targets[0].id, n)

    def tie_rule(self, name, n):
        self.tie_rules.append(name)
        call = n.value

        def build_key(d):
            d.group = "tie"
            if len(call.args) != 1 or call.keywords:
                raise Unsupported("TieBreakingRule(...) with an unexpected argument list")
            a = call.args[0]
            d.comment = self.where("TIE", n, name) + "\n" + ast.unparse(n)
            if isinstance(a, ast.Lambda):
                self.translate(d, a, list(F_KEY[1]), Q, None, {}, safe=True)
            elif isinstance(a, ast.Name) and a.id not in FUNCS and a.id in self.funcs and self.funcs[a.id][0] == "TIE":
                kk, fnode = self.funcs[a.id]      # a key written as a named module-level function
                d.comment += "\n" + self.where(kk, fnode, a.id) + "\n" + ast.unparse(_strip_docstrings(fnode))
                self.translate(d, fnode, list(F_KEY[1]), Q, None, {}, safe=True)
            elif isinstance(a, ast.Name) and a.id in self.lambdas:
                d.comment += "\n%s = %s" % (a.id, ast.unparse(self.lambdas[a.id]))
                self.translate(d, self.lambdas[a.id], list(F_KEY[1]), Q, None, {}, safe=True)
            elif isinstance(a, ast.Name) and a.id in FUNCS:
                fd = self.func_def(a.id)
                if fd.error:
                    raise Unsupported("depends on untranslated " + fd.name)
                d.params, d.ptypes, d.ret, d.extras = list(fd.params), list(fd.ptypes), fd.ret, dict(fd.extras)
                d.body = "%s %s" % (self.applied(fd), " ".join(p for p, _ in fd.params))
            else:
                raise Unsupported("key of %s is neither a lambda nor a translated function" % name)
        kd = self.get("gen_%s_key" % name, build_key)
        if kd.error is None and kd.ret != Q:
            return        # a key that always raises (refuse_tie_breaking): no order to speak of
        for m in ("order", "untie"):
            mp, mret = METHODS[("TieBreakingRule", m)][:2]

            def build(d, m=m, mret=mret):
                d.group = "tie"
                d.comment = "%s: %s.%s(instance, profile, projects)" % (self.where("TIE", n, name), name, m)
                tr = FuncTranslator(self, "TieBreakingRule")
                k2 = self.need(kd, tr)
                fields = self.sym_init("TieBreakingRule", [V(self.applied(k2), k2.fun_type())], tr, "TieBreakingRule")
                md = self.need(self.method_def("TieBreakingRule", m), tr)
                if md.ret != mret:
                    raise Unsupported("TieBreakingRule.%s returns a %r where %r is expected" % (m, md.ret, mret))
                if "func" not in fields:
                    raise Unsupported("TieBreakingRule.__init__ does not set self.func")
                d.params = [("v_instance", "py_inst"), ("v_profile", "py_aprofile"), ("v_projects", "(list py_proj)")]
                d.ptypes = [INST, APROFILE, List(PROJ)]
                d.ret = mret
                d.extras = dict(tr.extras)
                d.body = "%s %s v_instance v_profile v_projects" % (self.applied(md), fields["func"].term)
            self.get("gen_%s_%s" % (name, m), build)

    # ---------------- rendering ----------------
    def render(self):
        L = ["(* Generated/PyFuncs.v -- REGENERATED from the Python source on every run by harness/vharness/pytrans.py.",
             "   Do not edit.  One definition per translated function, over the vocabulary of Model/PyPrims.v;",
             "   [Untranslated] marks a function whose source left the translated fragment. *)",
             "From Coq Require Import String.", "From PB Require Import Model.PyPrims.", "Open Scope Q_scope.", ""]
        for e in self.errors:
            L.append("(* SOURCE FILE NOT READABLE: %s *)" % _comment_safe(e))
        failed = []
        by_group = {"sat": [], "tie": [], "inst": [], "stats": [], "price": [], "jr": []}
        corr_only = []
        for d in self.defs.values():
            L.append("(* " + _comment_safe(d.comment) + " *)")
            if d.error is not None:
                if d.name[4:] in EXPECTED_OUT:
                    corr_only.append(d.name)       # float-only statistic: correspondence only, as expected
                else:
                    failed.append(d.name)
                    by_group.setdefault(d.group, []).append(d.name)
                reason = d.error.replace('"', "'").replace("\n", " ")
                reason = "".join(ch if ch.isascii() else "?" for ch in reason)
                L.append('Definition %s : py_untranslated := Untranslated "%s".' % (d.name, reason[:300]))
            else:
                ps = "".join(" (%s : %s)" % (x, d.extras[x]) for x in sorted(d.extras))
                ps += "".join(" (%s : %s)" % p for p in d.params)
                L.append("Definition %s%s : %s :=\n  %s." % (d.name, ps, gty(d.ret), d.body))
                L.append("Global Hint Unfold %s : pygen." % d.name)
                cl = [x[4:] for x in sorted(d.extras) if x.startswith("cls_")]
                if cl:
                    L.append("(* the satisfaction classes the function names (its cls_ parameters, in that order) *)")
                    L.append("Definition %s_classes : list string := [%s]." % (
                        d.name, "; ".join(coq_string(x) for x in cl)))
                if d.safe_body is not None:
                    L.append("(* no ZeroDivisionError: every frac(a, b) on the executed path has b != 0 *)")
                    L.append("Definition %s_safe%s : bool :=\n  %s." % (d.name, ps, d.safe_body))
                    L.append("Global Hint Unfold %s_safe : pygen." % d.name)
            L.append("")
        L.append("(* class wiring: which function every shipped measure hands to which base class, under which guard *)")
        ws = []
        for cls in sorted(self.wires):
            w = self.wires[cls]
            if isinstance(w, str):
                failed.append("gen_wiring_" + cls)
                by_group["sat"].append("gen_wiring_" + cls)
                L.append('Definition gen_wiring_%s : py_untranslated := Untranslated "%s".' % (
                    cls, w.replace('"', "'")[:300]))
                continue
            items = []
            for g, callee, names in w:
                gs = "GuardAny" if g is None else "(GuardIsinstance %s)" % coq_string(g)
                items.append("mkWire %s %s [%s]" % (gs, coq_string(callee), "; ".join(coq_string(x) for x in names)))
            L.append("Definition gen_wiring_%s : list py_wire := [%s]." % (cls, "; ".join(items)))
            ws.append("(%s, gen_wiring_%s)" % (coq_string(cls), cls))
        L.append("Definition gen_wiring : list (string * list py_wire) :=\n  [%s]." % ";\n   ".join(ws))
        L.append("Definition gen_tie_rules : list string := [%s]." % "; ".join(coq_string(x) for x in self.tie_rules))
        L.append("Definition gen_untranslated : list string := [%s]." % "; ".join(coq_string(x) for x in failed))
        for g in ("sat", "tie", "inst", "stats", "price", "jr"):
            L.append("Definition gen_untranslated_%s : list string := [%s]." % (
                g, "; ".join(coq_string(x) for x in by_group[g])))
        L.append("(* float-only statistics that are outside the fragment (correspondence only) *)")
        L.append("Definition gen_correspondence_only : list string := [%s]." % "; ".join(
            coq_string(x) for x in corr_only))
        return "\n".join(L) + "\n"


def generate(repo):
    w = World(repo)
    w.build_all()
    return w.render(), w


def regenerate(repo, coq):
    """write coq/theories/Generated/PyFuncs.v (only when its content changes, so that make stays a no-op)"""
    txt, _ = generate(repo)
    path = os.path.join(coq, "theories", "Generated", "PyFuncs.v")
    os.makedirs(os.path.dirname(path), exist_ok=True)
    old = open(path).read() if os.path.exists(path) else None
    if old != txt:
        with open(path, "w") as f:
            f.write(txt)
    return path


if __name__ == "__main__":
    import sys
    repo = sys.argv[1] if len(sys.argv) > 1 else os.environ.get("VERIF_REPO", "/repo")
    if len(sys.argv) > 2:
        print(regenerate(repo, sys.argv[2]))
    else:
        print(generate(repo)[0])
