"""C08 -- irresolute outcomes are exactly the outcomes of all tie-breaking orders
(greedy welfare, Equal Shares, sequential Phragmen)."""
from __future__ import annotations

import itertools
from fractions import Fraction

from .. import core
from ..core import q, lst, natl, boolc, pair
from .. import pb, elections

NAMING = True
ID = "C08"
ORACLE = "Oracle.C08"
PROPS = "Props/C08.v"
LEVEL = "proof"
SHARD = 24
CODES = {
    1: ("oracle", "the irresolute list contains the same allocation twice"),
    2: ("oracle", "an irresolute allocation is not the resolute outcome under any strict tie-breaking order "
                  "(all m! permutation rules were run on the implementation)"),
    3: ("oracle", "the resolute outcome under some strict tie-breaking order is missing from the irresolute list"),
    4: ("oracle", "the resolute outcome under a shipped tie-breaking rule is not one of the irresolute outcomes"),
    5: ("model", "the irresolute list differs (as a set of sets) from the Gallina model's"),
    6: ("oracle", "the set of irresolute outcomes depends on the tie-breaking rule passed to the irresolute call"),
    7: ("model", "a resolute outcome (permutation key / shipped key) differs from the Gallina model's"),
    core.RAISED: ("oracle", "the call raised / the interpreter died"),
}
RULE = ("elections with 1..5 projects and 1..5 voters from the shared tie-rich generator (equal-cost blocks, zero and "
        "fractional costs, budgets on boundaries, duplicated ballots, party lists, nested chains, empty/full ballots), "
        "a third with all costs equal and few distinct ballots; every fourth case from a boundary stream (zero-cost projects, supported and unsupported, with the budget hit exactly "
        "by a subset of the other projects or equal to zero; single voter; single project; all ballots equal; every "
        "project unaffordable; all three rules, all ballot types; greedy also with non-dyadic fractional costs whose "
        "satisfaction per cost ties exactly), every fourth case from a targeted stream (Equal Shares with "
        "Cost_Sat / Phragmen, 4-5 projects, tied projects with overlapping but different supporter sets, single-supporter "
        "cheap projects, budgets one purchase short: the two orders of a tied pair reach the same selection with "
        "different budgets/loads and then diverge); rules: greedy welfare (all four ballot types, additive "
        "and non-additive measures incl. CC_Sat, Cost_Sqrt_Sat, Cost_Log_Sat), Equal Shares (all four ballot types, "
        "additive measures, binary_sat default), sequential Phragmen (approval); Profile and MultiProfile; feasible "
        "initial allocations; for every election the irresolute call, a second irresolute call under another "
        "tie-breaking rule, ALL m! resolute calls under permutation rules and the resolute calls under every shipped "
        "rule are made on the implementation. non-trivial = distinct election+rule with >= 2 irresolute outcomes")
ASSUMPTIONS = [
    "hand-written Gallina models (Model/Phragmen.v, Model/GreedyRule.v, Model/MesRule.v) tied to the code by "
    "differential execution only; satisfaction values / per-voter utilities are inputs read exactly from the "
    "library's own satisfaction objects (floats as their exact binary value)",
    "a strict order pi is the rule TieBreakingRule(lambda inst, prof, p: position of p in pi) = key rank_in pi",
    "greedy with a float-valued measure: the model is exact, the code rounds (sat differences in double precision) -- "
    "the model comparison is skipped for float-valued measures, the oracle comparison (code vs code) is not",
    "measures that reach the CBC solver (Relative_Cost_Sat, Additive_Cardinal_Relative_Sat) are not generated",
]
TRUSTED = ["Model/Phragmen.v, Model/GreedyRule.v, Model/MesRule.v mirror the three rule files (modelled, not verified)",
           "the harness enumerates all m! permutations (itertools.permutations)"]
EXPLANATION = ("Theorems (unbounded, Props/C08.v): generic choice-process theorem (leaves of the full branching tree = "
               "resolute runs under rank_in pi over all permutations pi, for any process whose chosen project never "
               "re-enters a later tied set), instantiated for the models of the three rules, plus duplicate-freeness "
               "and 'the resolute outcome under ANY key is an irresolute outcome'.  Tie: on every generated election the "
               "implementation's irresolute list is compared inside Coq with the union of its own m! resolute returns "
               "(oracle, verified boolean) and with the model's list (correspondence).")

FLOAT_SATS = {"Cost_Sqrt_Sat", "Cost_Log_Sat", "Additive_Cost_Sqrt_Sat", "Additive_Cost_Log_Sat"}
SHIPPED = ["lexico", "min_cost", "max_cost", "app_score"]
NSAMPLE = 6


def budget(tier):
    return 2000 if tier == "quick" else 30000


def gen_overlap(rng, i):
    """Targeted stream: the state of Equal Shares / Phragmen is the selection PLUS the voters' budgets / loads.
    Tied projects with overlapping but different supporter sets, bought in the two possible orders, reach the same
    selection with different budgets (loads); cheap projects with a single supporter (Equal Shares) or a budget that
    stops one purchase short (Phragmen) then make the continuations diverge.  An irresolute search that identifies
    states by the set of bought projects (memoisation / pruning) loses outcomes exactly here."""
    rule = "phragmen" if i % 3 == 0 else "mes"
    n = rng.choice([4, 5, 5])
    nv = rng.choice([3, 3, 3, 4])
    if rule == "phragmen" and rng.random() < 0.5:
        # equal (or doubled) costs, every voter approves 2-3 projects, budget = a whole number of purchases
        c = rng.choice([1, 1, 2])
        costs = [Fraction(c)] * n if rng.random() < 0.6 else [Fraction(rng.choice([c, c, c, 2 * c])) for _ in range(n)]
        k = rng.choice([3, 3, 4]) if n == 5 else 3
        b = sum(sorted(costs)[:k], Fraction(0)) + rng.choice([0, 0, Fraction(1, 2)])
        ballots = [sorted(rng.sample(range(n), rng.choice([2, 2, 3, 3, n]))) for _ in range(nv)]
    else:
        nsingle = rng.choice([1, 1, 2]) if n == 5 else 1
        ncore = n - nsingle
        sup = [sorted(rng.sample(range(nv), rng.choice([2, 2, 3]))) for _ in range(ncore)]
        sup += [[rng.randrange(nv)] for _ in range(nsingle)]
        pool = rng.choice([[2, 3], [2, 3, 3], [2], [3], [3], [3, 3, 4]])
        costs = [Fraction(rng.choice(pool)) for _ in range(ncore)]
        spool = rng.choice([[1], [1, 2], [1, Fraction(1, 2)]])
        costs += [Fraction(rng.choice(spool)) for _ in range(nsingle)]
        idx = list(range(n))
        rng.shuffle(idx)
        costs = [costs[j] for j in idx]
        sup = [sup[j] for j in idx]
        tot = sum(costs, Fraction(0))
        if rule == "phragmen":
            b = tot - rng.choice([1, Fraction(1, 2), 2])
        else:
            b = tot - rng.choice([0, 0, Fraction(1, 2), 2, 2, -1, 1])
        ballots = [[p for p in range(n) if v in sup[p]] for v in range(nv)]
    if b <= 0:
        b = Fraction(1)
    multi = rng.random() < 0.4
    if multi:      # multiplicities >= 2 on ballots whose voters carry positive loads / partly spent budgets
        for _ in range(rng.choice([1, 1, 2])):
            ballots.append(rng.choice(ballots))
    order = list(range(n))
    rng.shuffle(order)
    perm = list(range(n))
    rng.shuffle(perm)
    return {"costs": [pb.qs(c) for c in costs], "budget": pb.qs(b), "order": order, "btype": "approval",
            "ballots": ballots, "multi": multi, "rule": rule,
            "sat": None if rule == "phragmen" else rng.choice(["Cost_Sat", "Cost_Sat", "Cost_Sat", "Cardinality_Sat"]),
            "init": [], "tb": rng.choice(["lexico", "min_cost", "max_cost", "perm", "app_score"]), "perm": perm,
            "solver": False, "loads": None, "binary": None, "stream": "overlap"}


def gen_ratio(rng):
    """greedy, additive measure with a non-integer density: costs c*k with c a non-dyadic fraction and k supporters for
    multiplier k, so that satisfaction per cost ties EXACTLY (1/c for every project) although neither the costs nor the
    densities are representable as binary floats; the budget lets only some of the tied projects in."""
    n = rng.choice([2, 3, 3, 4, 5])
    nv = rng.choice([3, 3, 4])
    c = pb.F(rng.choice(["11/10", "13/10", "3/10", "9/10", "3/5", "11/5", "23/10", "11/10", "7/10", "1/3"]))
    ks = [rng.choice([1, 1, 2, 3, 3]) for _ in range(n)]
    if 3 not in ks:
        ks[rng.randrange(n)] = 3      # float(3)/float(3c) != float(1)/float(c) for most of these c
    if all(k == 3 for k in ks):
        ks[rng.randrange(n)] = rng.choice([1, 2])
    costs = [c * k for k in ks]
    sup = [rng.sample(range(nv), k) for k in ks]
    if rng.random() < 0.3:            # one project off the tie
        j = rng.randrange(n)
        sup[j] = rng.sample(range(nv), rng.randrange(0, nv + 1))
    ballots = [sorted(p for p in range(n) if v in sup[p]) for v in range(nv)]
    b = sum(rng.sample(costs, rng.randrange(1, n + 1)), Fraction(0)) + rng.choice([0, 0, c / 2])
    order = list(range(n))
    rng.shuffle(order)
    perm = list(range(n))
    rng.shuffle(perm)
    return {"costs": [pb.qs(x) for x in costs], "budget": pb.qs(b), "order": order, "btype": "approval",
            "ballots": ballots, "multi": rng.random() < 0.3, "rule": "greedy",
            "sat": rng.choice(["Cardinality_Sat", "Cardinality_Sat", "Relative_Cardinality_Sat", "Effort_Sat"]),
            "init": [], "tb": rng.choice(["lexico", "min_cost", "max_cost", "perm", "app_score"]), "perm": perm,
            "solver": False, "loads": None, "binary": None, "stream": "boundary", "scenario": "ratio_costs"}


def gen_cc(rng):
    """greedy with a NON-additive measure: equal costs, duplicated / overlapping approval ballots, room for 2-3 projects:
    selecting one tied project lowers the marginal score of another, so the orders of a tie lead to different sets"""
    n = rng.choice([3, 4, 4, 5])
    nv = rng.choice([3, 4, 5])
    c = pb.F(rng.choice([1, 1, 2, "1/2"]))
    ballots = []
    for _ in range(nv):
        if ballots and rng.random() < 0.4:
            ballots.append(rng.choice(ballots))
        else:
            ballots.append(sorted(rng.sample(range(n), rng.choice([1, 2, 2, 3]))))
    order = list(range(n))
    rng.shuffle(order)
    perm = list(range(n))
    rng.shuffle(perm)
    return {"costs": [pb.qs(c)] * n, "budget": pb.qs(c * rng.choice([2, 2, 3]) + rng.choice([0, 0, c / 2])),
            "order": order, "btype": "approval", "ballots": ballots, "multi": rng.random() < 0.35, "rule": "greedy",
            "sat": rng.choice(["CC_Sat", "CC_Sat", "Cost_Sqrt_Sat", "Cost_Log_Sat"]), "init": [],
            "tb": rng.choice(["lexico", "min_cost", "max_cost", "perm", "app_score"]), "perm": perm,
            "solver": False, "loads": None, "binary": None, "stream": "boundary", "scenario": "non_additive_ties"}


def gen_boundary(rng, i):
    """Boundary stream (all three rules): zero-cost projects, supported and unsupported, left over when the budget is
    hit exactly or is zero; single voter; single project; all ballots equal; every project unaffordable."""
    rule = ["greedy", "mes", "phragmen"][i % 3]
    if rule == "greedy":
        r = rng.random()
        if r < 0.4:
            return gen_ratio(rng)
        if r < 0.6:
            return gen_cc(rng)
    scen = rng.choice(["zero_exact", "zero_exact", "zero_exact", "zero_budget", "single_voter", "single_project",
                       "equal_ballots", "unaffordable"])
    n = 1 if scen == "single_project" else rng.choice([2, 3, 3, 4, 4, 5])
    nv = 1 if scen == "single_voter" else rng.choice([1, 2, 3, 3, 4])
    btype = "approval" if rule == "phragmen" else rng.choice(["approval", "approval", "approval", "cardinal", "ordinal",
                                                              "cumulative"])
    nzero = 0
    if scen in ("zero_exact", "zero_budget") or rng.random() < 0.3:
        nzero = rng.choice([1, 1, 2]) if n >= 2 else rng.choice([0, 1])
        nzero = min(nzero, n)
    pool = rng.choice([[1], [1, 1, 2], [2], [1, 2, 3], ["1/2", 1], [2, 3]])
    costs = [Fraction(0)] * nzero + [pb.F(rng.choice(pool)) for _ in range(n - nzero)]
    rng.shuffle(costs)
    pos = [c for c in costs if c > 0]
    if scen == "zero_budget":
        b = Fraction(0)
    elif scen == "unaffordable":
        b = (min(pos) - Fraction(1, 2)) if pos else Fraction(0)
        if rng.random() < 0.3:
            b = Fraction(0)
    elif scen == "single_project":
        b = rng.choice([costs[0], costs[0] + 1, max(Fraction(0), costs[0] - Fraction(1, 2)), Fraction(0)])
    else:
        # the budget is hit exactly by a subset of the positive-cost projects (possibly all, possibly none)
        k = rng.randrange(0, len(pos) + 1) if pos else 0
        b = sum(rng.sample(pos, k), Fraction(0)) if rng.random() < 0.8 else sum(sorted(pos)[:k], Fraction(0))
    zero_supported = {j: rng.random() < 0.5 for j in range(n) if costs[j] == 0}
    if btype == "approval":
        ballots = []
        for v in range(nv):
            bl = [j for j in range(n) if costs[j] > 0 and rng.random() < 0.6]
            bl += [j for j in range(n) if costs[j] == 0 and zero_supported[j] and (rng.random() < 0.6 or v == 0)]
            ballots.append(sorted(bl))
    else:
        ballots = elections.gen_ballots(rng, btype, n, nv)
    if scen == "equal_ballots" and ballots:
        ballots = [ballots[0]] * len(ballots)
    order = list(range(n))
    rng.shuffle(order)
    perm = list(range(n))
    rng.shuffle(perm)
    if rule == "phragmen":
        sat = None
    elif rule == "mes":
        sat = rng.choice([x for x, (add, solver) in elections.SATS[btype].items() if add and not solver])
    else:
        sat = rng.choice([x for x, (add, solver) in elections.SATS[btype].items() if not solver])
    tbs = ["lexico", "min_cost", "max_cost", "perm"] + (["app_score"] if btype == "approval" else [])
    return {"costs": [pb.qs(c) for c in costs], "budget": pb.qs(b), "order": order, "btype": btype, "ballots": ballots,
            "multi": rng.random() < 0.35, "rule": rule, "sat": sat, "init": [], "tb": rng.choice(tbs), "perm": perm,
            "solver": False, "loads": None, "binary": None, "stream": "boundary", "scenario": scen}


def gen(rng, i, tier):
    if i % 4 == 1:
        return gen_boundary(rng, i // 4)
    if i % 4 == 3:
        return gen_overlap(rng, i // 4)
    rule = ["greedy", "mes", "phragmen"][i % 3]
    btypes = ("approval",) if rule == "phragmen" else ("approval", "approval", "cardinal", "cumulative", "ordinal")
    n = rng.choice([1, 2, 3, 3, 4, 4, 4, 5, 5, 5])
    case = elections.gen_election(rng, max_proj=n, max_voters=5, btypes=btypes, min_proj=n)
    style = rng.choice([0, 0, 0, 1, 1, 2, 2])
    if style == 0:
        # all costs equal, few distinct ballots: many simultaneous ties
        c = rng.choice(["1/1", "2/1", "1/2", "3/2"])
        case["costs"] = [c] * n
        case["budget"] = pb.qs(pb.F(c) * rng.randrange(1, n + 1) + rng.choice([0, 0, Fraction(1, 2) * pb.F(c)]))
        if case["btype"] == "approval" and rng.random() < 0.5:
            half = max(1, n // 2)
            a, b = list(range(half)), list(range(half, n))
            case["ballots"] = [rng.choice([a, b, list(range(n))]) for _ in case["ballots"]]
    elif style == 1 and n >= 2:
        # two equal-cost blocks
        k = rng.randrange(1, n)
        c1, c2 = rng.choice([("1/1", "2/1"), ("2/1", "3/1"), ("1/2", "1/1"), ("0/1", "1/1")])
        case["costs"] = [c1] * k + [c2] * (n - k)
        tot = sum((pb.F(x) for x in case["costs"]), Fraction(0))
        case["budget"] = pb.qs(max(Fraction(1, 2), tot * Fraction(rng.randrange(2, 8), 8)))
    case["rule"] = rule
    if rule == "phragmen":
        case["sat"] = None
    elif rule == "mes":
        sats = [s for s, (add, solver) in elections.SATS[case["btype"]].items() if add and not solver]
        case["sat"] = rng.choice(sats)
    else:
        sats = [s for s, (add, solver) in elections.SATS[case["btype"]].items() if not solver]
        nonadd = [s for s in sats if not elections.SATS[case["btype"]][s][0]]
        case["sat"] = rng.choice(nonadd) if (nonadd and rng.random() < 0.45) else rng.choice(sats)
    case["init"] = elections.feasible_subset(rng, case["costs"], case["budget"]) if rng.random() < 0.25 else []
    tbs = ["lexico", "min_cost", "max_cost", "perm"] + (["app_score"] if case["btype"] == "approval" else [])
    case["tb"] = rng.choice(tbs)
    perm = list(range(n))
    rng.shuffle(perm)
    case["perm"] = perm
    case["solver"] = False
    # sequential Phragmen: unequal initial loads (one per ballot as enumerated; a prefix is used on multiprofiles)
    case["loads"] = None
    if rule == "phragmen" and rng.random() < 0.3:
        case["loads"] = [pb.qs(rng.choice([0, 0, 1, "1/2", "1/3", 2])) for _ in case["ballots"]]
    # Equal Shares: binary_sat None (= approval profile) / forced on / forced off
    case["binary"] = rng.choice([None, None, True, False]) if rule == "mes" else None
    return case


def _key_list(rule, inst, prof, projs):
    ks = []
    for p in projs:
        k = rule.func(inst, prof, p)
        ks.append(pb.qs(pb.rank(p)) if isinstance(k, str) else core.qj(k))
    return ks


def impl(case):
    import pabutools.election as E
    from pabutools.rules import greedy_utilitarian_welfare, method_of_equal_shares, sequential_phragmen

    inst, projs, prof = elections.build(case)
    n = len(projs)
    rule = case["rule"]
    init = [projs[j] for j in case["init"]]
    out = {}
    satp = None
    if rule != "phragmen":
        cls = getattr(E, case["sat"])
        satp = prof.as_sat_profile(cls)

    nclasses = len(list(prof))
    loads = None
    if case.get("loads") is not None:
        loads = [pb.num(v) for v in case["loads"][:nclasses]]

    def call(tb, resolute):
        if rule == "phragmen":
            return sequential_phragmen(inst, prof, initial_loads=None if loads is None else list(loads),
                                       initial_budget_allocation=list(init), tie_breaking=tb,
                                       resoluteness=resolute)
        if rule == "greedy":
            return greedy_utilitarian_welfare(inst, prof, sat_class=cls, tie_breaking=tb, resoluteness=resolute,
                                              initial_budget_allocation=list(init))
        return method_of_equal_shares(inst, prof, sat_class=cls, tie_breaking=tb, resoluteness=resolute,
                                      initial_budget_allocation=list(init), binary_sat=case.get("binary"))

    tb0 = elections.tie_breaking(case["tb"], case["perm"])
    out["irrkey"] = _key_list(tb0, inst, prof, projs)
    out["irr"] = [sorted(pb.ranks(r)) for r in call(tb0, False)]
    tb1 = elections.tie_breaking("lexico" if case["tb"] != "lexico" else "perm", case["perm"])
    out["irr2"] = [sorted(pb.ranks(r)) for r in call(tb1, False)]
    seen = {}
    allp = list(itertools.permutations(range(n)))
    stride = max(1, len(allp) // NSAMPLE)
    sample = []
    for k, pi in enumerate(allp):
        r = tuple(sorted(pb.ranks(call(elections.tie_breaking("perm", pi), True))))
        if r not in seen:
            seen[r] = list(pi)
        if k % stride == 0 and len(sample) < NSAMPLE:
            sample.append([list(pi), list(r)])
    out["perm"] = [list(r) for r in seen]
    out["wit"] = [seen[r] for r in seen]
    for r, pi in seen.items():          # the witness order of every distinct outcome is also compared with the model
        if [pi, list(r)] not in sample and len(sample) < NSAMPLE + 6:
            sample.append([pi, list(r)])
    out["sample"] = sample
    out["nperm"] = len(allp)
    shipped = []
    for name in SHIPPED:
        if name == "app_score" and case["btype"] != "approval":
            continue
        tb = elections.tie_breaking(name)
        shipped.append([name, _key_list(tb, inst, prof, projs), sorted(pb.ranks(call(tb, True)))])
    out["shipped"] = shipped
    # ---- model inputs -------------------------------------------------------------------------
    if rule == "phragmen":
        out["classes"] = [[sorted(pb.ranks(b)), int(prof.multiplicity(b))] for b in prof]
        out["loads"] = ["0/1"] * nclasses if loads is None else list(case["loads"][:nclasses])
    elif rule == "greedy":
        out["tab"] = [core.qj(satp.total_satisfaction([projs[j] for j in range(n) if (m >> j) & 1]))
                      for m in range(2 ** n)]
        out["sp"] = [core.qj(satp.total_satisfaction_project(p)) for p in projs]
        out["additive"] = bool(issubclass(cls, E.AdditiveSatisfaction))
    else:
        sats = list(satp)
        out["utils"] = [[core.qj(s.sat_project(p)) for p in projs] for s in sats]
        out["mults"] = [int(satp.multiplicity(s)) for s in sats]
    return out


def _model(case, o):
    rule = case["rule"]
    if rule == "phragmen":
        return "(MPhr %s %s)" % (lst([pair(natl(s), core.nat(k)) for s, k in o["classes"]]), core.qlist(o["loads"]))
    if rule == "greedy":
        if case["sat"] in FLOAT_SATS:
            return "MNone"
        return "(MGreedy %s %s %s)" % (core.qlist(o["tab"]), core.qlist(o["sp"]), boolc(o["additive"]))
    enum = case.get("order") or list(range(len(case["costs"])))
    return "(MMes %s %s %s)" % (
        lst([pair(core.qlist(u), core.nat(m)) for u, m in zip(o["utils"], o["mults"])]),
        natl(enum), boolc(case["btype"] == "approval" if case.get("binary") is None else case["binary"]))


def coq_case(case, o):
    return "(mkCase %s %s %s %s %s %s %s %s %s %s)" % (
        core.qlist(case["costs"]), q(case["budget"]), natl(case["init"]),
        lst([natl(w) for w in o["irr"]]), lst([natl(w) for w in o["irr2"]]), lst([natl(w) for w in o["perm"]]),
        lst([pair(core.qlist(ks), natl(w)) for _, ks, w in o["shipped"]]),
        lst([pair(natl(pi), natl(w)) for pi, w in o["sample"]]),
        core.qlist(o["irrkey"]), _model(case, o))


def py_oracle(case, o):
    """fallback when the Coq side is broken: the same set comparison in python"""
    if not isinstance(o, dict) or "irr" not in o:
        return None
    irr = [tuple(w) for w in o["irr"]]
    perm = {tuple(w) for w in o["perm"]}
    if len(set(irr)) != len(irr):
        return 1
    if not set(irr) <= perm:
        return 2
    if not perm <= set(irr):
        return 3
    if any(tuple(w) not in set(irr) for _, _, w in o["shipped"]):
        return 4
    if set(irr) != {tuple(w) for w in o["irr2"]}:
        return 6
    return None


def nontrivial(case, o):
    if not isinstance(o, dict) or "irr" not in o or len(o["irr"]) < 2:
        return None
    return [case["rule"], case["costs"], case["budget"], case["btype"], case["ballots"], case["multi"], case["sat"],
            case["init"]]


def stats(cases, obs):
    d = {"by_rule": {}, "by_btype": {}, "by_sat": {}, "nproj_hist": {}, "n_irresolute_outcomes_hist": {},
         "multiprofile": 0, "multiplicity_ge_2": 0, "nonempty_init": 0, "equal_costs": 0, "zero_cost": 0,
         "fractional_cost": 0, "non_additive_sat": 0, "float_valued_sat": 0, "resolute_runs": 0,
         "several_outcomes_by_rule": {}, "shipped_rule_outcomes_differ": 0, "model_compared": 0,
         "outcomes_of_different_size": 0, "phragmen_initial_loads": 0, "mes_binary_sat": {},
         "boundary_stream": {}, "zero_budget": 0, "budget_hit_exactly_by_some_outcome": 0,
         "zero_cost_unsupported_project": 0, "single_voter": 0, "single_project": 0, "nothing_affordable": 0,
         "overlap_stream": {"mes": 0, "phragmen": 0, "mes_several_outcomes": 0, "phragmen_several_outcomes": 0}}

    def inc(h, k):
        h[str(k)] = h.get(str(k), 0) + 1
    for c, o in zip(cases, obs):
        if not isinstance(o, dict) or "irr" not in o:
            continue
        inc(d["by_rule"], c["rule"])
        inc(d["by_btype"], c["btype"])
        inc(d["by_sat"], c["sat"])
        inc(d["nproj_hist"], len(c["costs"]))
        inc(d["n_irresolute_outcomes_hist"], len(o["irr"]))
        d["multiprofile"] += bool(c["multi"])
        d["multiplicity_ge_2"] += bool(c["multi"] and any(m >= 2 for m in (o.get("mults") or [k for _, k in o.get("classes", [])])))
        d["nonempty_init"] += bool(c["init"])
        cs = [pb.F(x) for x in c["costs"]]
        d["equal_costs"] += len(set(cs)) < len(cs)
        d["zero_cost"] += any(x == 0 for x in cs)
        d["fractional_cost"] += any(x.denominator != 1 for x in cs)
        if c["sat"]:
            d["non_additive_sat"] += not elections.SATS[c["btype"]][c["sat"]][0]
            d["float_valued_sat"] += c["sat"] in FLOAT_SATS
        d["resolute_runs"] += o.get("nperm", 0) + len(o["shipped"])
        if len(o["irr"]) > 1:
            inc(d["several_outcomes_by_rule"], c["rule"])
        d["shipped_rule_outcomes_differ"] += len({tuple(w) for _, _, w in o["shipped"]}) > 1
        d["model_compared"] += not (c["rule"] == "greedy" and c["sat"] in FLOAT_SATS)
        d["outcomes_of_different_size"] += len({len(w) for w in o["irr"]}) > 1
        d["phragmen_initial_loads"] += c.get("loads") is not None
        if c.get("stream") == "boundary":
            inc(d["boundary_stream"], c["rule"] + ":" + c.get("scenario", "?"))
        B = pb.F(c["budget"])
        d["zero_budget"] += B == 0
        d["budget_hit_exactly_by_some_outcome"] += any(sum((cs[j] for j in w), Fraction(0)) == B for w in o["irr"])
        if c["btype"] == "approval":
            d["zero_cost_unsupported_project"] += any(cs[j] == 0 and not any(j in b for b in c["ballots"])
                                                      for j in range(len(cs)))
        d["single_voter"] += len(c["ballots"]) == 1
        d["single_project"] += len(cs) == 1
        d["nothing_affordable"] += all(x > B for x in cs)
        if c.get("stream") == "overlap":
            d["overlap_stream"][c["rule"]] += 1
            d["overlap_stream"][c["rule"] + "_several_outcomes"] += len(o["irr"]) > 1
        if c["rule"] == "mes":
            inc(d["mes_binary_sat"], c.get("binary"))
    return d


def shrink(case):
    n = len(case["costs"])
    if n > 1:
        for j in range(n):
            c = dict(case)
            c["costs"] = case["costs"][:j] + case["costs"][j + 1:]
            ren = lambda W: [x - (x > j) for x in W if x != j]
            c["order"] = ren(case["order"])
            c["init"] = ren(case["init"])
            c["perm"] = ren(case["perm"])
            if case["btype"] in ("approval", "ordinal"):
                c["ballots"] = [ren(b) for b in case["ballots"]]
            else:
                c["ballots"] = [{str(int(k) - (int(k) > j)): v for k, v in b.items() if int(k) != j}
                                for b in case["ballots"]]
            yield c
    if len(case["ballots"]) > 1:
        for v in range(len(case["ballots"])):
            c = dict(case)
            c["ballots"] = case["ballots"][:v] + case["ballots"][v + 1:]
            if case.get("loads"):
                c["loads"] = case["loads"][:v] + case["loads"][v + 1:]
            yield c
    for key, val in (("init", []), ("multi", False), ("tb", "lexico"), ("loads", None), ("binary", None)):
        if case.get(key) != val:
            c = dict(case)
            c[key] = val
            yield c


def describe(case, o, code):
    if not isinstance(o, dict) or "irr" not in o:
        return {}
    irr = {tuple(w) for w in o["irr"]}
    perm = {tuple(w): pi for w, pi in zip(o["perm"], o["wit"])}
    return {"rule": case["rule"], "irresolute_list": o["irr"],
            "outcomes_of_the_m_factorial_orders": o["perm"],
            "missing_from_irresolute (outcome, an order producing it)":
                [[list(w), pi] for w, pi in perm.items() if w not in irr],
            "extra_in_irresolute (produced by no order)": [list(w) for w in irr if w not in perm],
            "shipped": o["shipped"]}
