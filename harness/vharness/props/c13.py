"""C13 -- outcomes are a function of the election alone (voter order, project insertion order, PYTHONHASHSEED,
scaling of costs and budget; the same call twice)."""
from __future__ import annotations

import atexit
import json
import os
import subprocess
from fractions import Fraction

from .. import core, pb, elections as E
from ..core import q, lst, natl, boolc

ID = "C13"
ORACLE = "Oracle.C13"
PROPS = ["Props/C13.v", "Props/C13mes.v"]
LEVEL = "proof"
SHARD = 30
SEEDS = {"quick": (0, 1, 4242), "thorough": (0, 1, 4242, 31337, 7, 987654321, 2024, 55555)}
SCALES = ["1/3", "7/1", "10/7", "1000/1"]
CODES = {
    1: ("oracle", "the same call repeated in one process returns a different result"),
    2: ("oracle", "the result depends on PYTHONHASHSEED (same election, same presentation, other interpreter)"),
    3: ("oracle", "the result changes when the voters are listed in another order"),
    4: ("oracle", "the result changes when the projects are inserted into the instance in another order"),
    5: ("oracle", "the result changes when all costs and the budget are multiplied by the same positive factor"),
    6: ("oracle", "the result changes under a combined re-presentation (voter order + insertion order + scaling)"),
    7: ("model", "malformed case file (harness)"),
    8: ("model", "sequential Phragmen: the implementation's outcome differs from Model/Phragmen.v"),
    9: ("oracle", "the result depends on what was computed before in the same process (the same Instance / profile / "
                  "Project objects had been used for another election)"),
    core.RAISED: ("oracle", "a rule raised on one of the presentations of a well-formed election"),
}
RULE = ("tie-rich elections (2..8 projects named p00..p07, 60 % with >= 6; all-equal / two-valued / pooled / fractional "
        "costs; budgets that are multiples of the common cost or sums of subsets; ballots all-approve-all, party lists, "
        "nested chains, duplicated ballots, random; approval 70 %, cardinal, cumulative, ordinal; Profile or "
        "MultiProfile) x calls {sequential Phragmen under all four shipped tie-breaking rules; Equal Shares (plain, and once "
        "per election with voter_budget_increment, the increment scaled like money), greedy and "
        "the PRIMAL_DUAL welfare maximiser under 2 exactly-computed measures each and lexicographic + another shipped "
        "tie-breaking rule} x presentations {as given (run twice); 2 voter permutations; 2 project insertion orders; "
        "costs and budget scaled by 1/3, 7, 10/7, 1000; one combination of all three (run twice)}, outcomes snapshotted "
        "right after each call; per election one extra call of every rule taking an initial_budget_allocation with a "
        "feasible non-empty one (list / tuple / BudgetAllocation in turn, the same BudgetAllocation object reused "
        "across repetitions and history) x one interpreter per "
        "PYTHONHASHSEED (quick 3, thorough 8); plus 2 (thorough 4) PROCESS-HISTORY presentations per election: the "
        "election evaluated after 1-2 other elections on the same Instance object / the same profile with another "
        "Instance / the same Project objects with other costs, through the same calls and tie-breaking singletons; "
        "plus a NEAR-TIE stream (every 6th case): approval MultiProfiles with multiplicities 2e4..1e8 and integer costs "
        "up to 1e18 whose loads / rho / densities differ by a relative 1e-9..1e-17, worse project with the smaller "
        "name, budget for one of them, 3 extra insertion orders; non-trivial = some set-valued call selects a project")
ASSUMPTIONS = [
    "the hash seed influences a run only through the iteration order of sets/dicts keyed by Project or str "
    "(modelled in the theorems as an arbitrary enumeration order); the multi-interpreter sweep is what exercises it",
    "float-valued measures (sqrt/log) are excluded: scaling is only claimed for exactly computed satisfactions",
    "welfare maximiser: the attained total satisfaction is compared (divided by k for Cost_Sat/Effort_Sat), not the set",
    "process history (object reuse, module-level singletons) is outside the pure Gallina models: decided by the "
    "correspondence run only (presentation kind 5 must reproduce the outcome on fresh objects)",
]
TRUSTED = ["harness/vharness/props/c13_helper.py (runs the library under each hash seed and canonicalises outcomes)",
           "Model/Phragmen.v, Model/GreedyRule.v mirror the rules (modelled, not verified)"]
EXPLANATION = ("Theorems (models, unbounded): sequential Phragmen (resolute and irresolute) returns the same result "
               "for every enumeration order of the project set, every order of the voters and every positive scale "
               "factor, via one simulation theorem; greedy: name-sorting makes the candidate lists independent of the "
               "enumeration, same outcome under permuted satisfaction-profile entries and under scaling (k for money, "
               "j for satisfactions); welfare maximiser: the attained welfare is invariant / scales by j (from the C04 "
               "optimality theorem); Equal Shares: enumeration- and voter-order independence of the resolute, iterated and "
               "irresolute rule (through C02's model-refines-textbook theorem, the functionality of the textbook run, "
               "and C08's irresolute = all orders), scaling of all four entry points by a step-by-step simulation, "
               "the R6 step on the code path and the refutation of the pre-R6 models of Equal Shares and Phragmen on "
               "the 6-project witness (iterated+irresolute Equal Shares: Props/C13mes.v).  Tie: every outcome of every "
               "presentation/seed/repetition is handed to Coq, which decides equality (C13_oracle_sound); Phragmen "
               "outcomes are also compared with the model.")

TBS_APPROVAL = ["lexico", "app_score", "min_cost", "max_cost"]
TBS_OTHER = ["lexico", "min_cost", "max_cost"]
TBID = {"lexico": 0, "app_score": 1, "min_cost": 2, "max_cost": 3}
SATS_BY_BTYPE = {
    "approval": {"mes": ["Cost_Sat", "Cardinality_Sat", "Cost_Sat", "Cardinality_Sat", "Effort_Sat",
                         "Relative_Cardinality_Sat", "Relative_Cost_Approx_Normaliser_Sat"],
                 "greedy": ["Cost_Sat", "Cardinality_Sat", "CC_Sat", "Effort_Sat", "Relative_Cardinality_Sat",
                            "Relative_Cost_Approx_Normaliser_Sat"],
                 "maxw": ["Cost_Sat", "Cardinality_Sat", "Effort_Sat", "Relative_Cardinality_Sat",
                          "Relative_Cost_Approx_Normaliser_Sat"]},
    "cardinal": {"mes": ["Additive_Cardinal_Sat", "Cost_Sat", "Cardinality_Sat"],
                 "greedy": ["Additive_Cardinal_Sat", "Cost_Sat", "Cardinality_Sat", "CC_Sat"],
                 "maxw": ["Additive_Cardinal_Sat", "Cost_Sat", "Cardinality_Sat"]},
    "ordinal": {"mes": ["Additive_Borda_Sat", "Cost_Sat", "Cardinality_Sat"],
                "greedy": ["Additive_Borda_Sat", "Cost_Sat", "Cardinality_Sat"],
                "maxw": ["Additive_Borda_Sat", "Cost_Sat", "Cardinality_Sat"]},
}
SATS_BY_BTYPE["cumulative"] = SATS_BY_BTYPE["cardinal"]


def budget(tier):
    return 560 if tier == "quick" else 5000


# ------------------------------------------------------------------------------------------------
# generation
# ------------------------------------------------------------------------------------------------
def _gen_election(rng, i):
    n = rng.choice([2, 3, 4, 5, 6, 6, 6, 6, 7, 7, 8, 8])
    btype = rng.choice(["approval"] * 7 + ["cardinal", "cumulative", "ordinal"])
    cm = rng.randrange(10)
    if cm < 3:                                    # all costs equal
        c0 = Fraction(rng.choice([1, 2, 2, 3, "1/2", "5/3"]))
        costs = [c0] * n
    elif cm < 6:                                  # two values
        a, b = rng.sample([Fraction(1), Fraction(2), Fraction(3), Fraction(3, 2), Fraction(1, 2), Fraction(4)], 2)
        costs = [rng.choice([a, a, b]) for _ in range(n)]
    elif cm < 9:
        pool = [c for c in rng.choice(E.COST_POOLS)]
        costs = [pb.F(rng.choice(pool)) for _ in range(n)]
        if rng.random() < 0.7:
            costs = [c if c != 0 else Fraction(1) for c in costs]
    else:
        costs = [Fraction(rng.randrange(1, 6), rng.choice([1, 1, 2, 3])) for _ in range(n)]
    tot = sum(costs, Fraction(0))
    bm = rng.randrange(6)
    pos = [c for c in costs if c > 0] or [Fraction(1)]
    if bm == 0:
        b = min(pos) * rng.randrange(1, n + 1)
    elif bm == 1:
        b = sum(rng.sample(costs, rng.randrange(1, n + 1)), Fraction(0))
    elif bm == 2:
        b = tot * Fraction(rng.randrange(1, 8), 8)
    elif bm == 3:
        b = tot
    elif bm == 4:
        b = max(costs) + min(pos)
    else:
        b = Fraction(rng.randrange(1, 2 * max(1, int(tot)) + 1), 2)
    if b <= 0:
        b = Fraction(1)
    nv = rng.choice([1, 2, 2, 3, 3, 4, 5, 6])
    vm = rng.randrange(6)
    if btype == "approval" and vm == 0:           # everybody approves everything: every project tied on every key
        ballots = [list(range(n)) for _ in range(nv)]
    elif btype == "approval" and vm == 1:         # two parties of equal-looking projects
        half = max(1, n // 2)
        ballots = [list(range(half)) if rng.random() < 0.5 else list(range(half, n)) for _ in range(nv)]
    elif btype == "approval" and vm == 2:         # a few templates, duplicated
        temps = [sorted(rng.sample(range(n), rng.randrange(1, n + 1))) for _ in range(2)]
        ballots = [list(rng.choice(temps)) for _ in range(nv)]
    else:
        ballots = E.gen_ballots(rng, btype, n, nv)
    return {"costs": [pb.qs(c) for c in costs], "budget": pb.qs(b), "btype": btype, "ballots": ballots,
            "multi": rng.random() < 0.3}


def _gen_calls(rng, btype, init=None):
    calls = []
    tbs = TBS_APPROVAL if btype == "approval" else TBS_OTHER
    if btype == "approval":
        for tb in tbs:
            calls.append({"rule": "phragmen", "tb": tb})
    table = SATS_BY_BTYPE[btype]
    for rule in ("mes", "greedy"):
        sats = []
        for s in (rng.choice(table[rule][:2]), rng.choice(table[rule])):
            if s not in sats:
                sats.append(s)
        for s in sats:
            for tb in ("lexico", rng.choice(tbs[1:])):
                c = {"rule": rule, "sat": s, "tb": tb}
                if rule == "greedy":
                    c["additive"] = None if (s == "CC_Sat" or rng.random() < 0.7) else False
                calls.append(c)
    # every rule that takes one: a feasible non-empty INITIAL BUDGET ALLOCATION (passed as list / tuple /
    # BudgetAllocation object by the helper, the object being reused across repetitions and process history)
    if init:
        if btype == "approval":
            calls.append({"rule": "phragmen", "tb": rng.choice(tbs), "init": init})
        for rule in ("mes", "greedy", "maxw"):
            c = {"rule": rule, "sat": rng.choice(table[rule][:2]), "init": init}
            if rule != "maxw":
                c["tb"] = rng.choice(tbs)
            if rule == "greedy":
                c["additive"] = None if rng.random() < 0.7 else False
            calls.append(c)
    # Equal Shares with the budget-increase loop (voter_budget_increment), one configuration per election
    calls.append({"rule": "mes_iter", "sat": rng.choice(table["mes"][:2]), "tb": rng.choice(tbs),
                  "inc": rng.choice(["1/1", "1/2", "1/3", "2/1"])})
    sats = []
    for s in (rng.choice(table["maxw"][:2]), rng.choice(table["maxw"])):
        if s not in sats:
            sats.append(s)
    for s in sats:
        calls.append({"rule": "maxw", "sat": s})
    return calls


def _gen_pres(rng, n, nv, tier):
    idv, ido = list(range(nv)), list(range(n))
    pres = [{"kind": 0, "vperm": idv, "order": ido, "scale": "1/1", "twice": True}]

    def shuf(l):
        l = list(l)
        rng.shuffle(l)
        return l
    reps = 2 if tier == "quick" else 3
    for r in range(reps):
        pres.append({"kind": 1, "vperm": (idv[::-1] if r == 0 else shuf(idv)), "order": ido, "scale": "1/1"})
    for r in range(reps):
        pres.append({"kind": 2, "vperm": idv, "order": (ido[::-1] if r == 0 else shuf(ido)), "scale": "1/1"})
    for s in SCALES:
        pres.append({"kind": 3, "vperm": idv, "order": ido, "scale": s})
    for r in range(reps - 1):
        pres.append({"kind": 4, "vperm": shuf(idv), "order": shuf(ido), "scale": rng.choice(SCALES), "twice": True})
    return pres


def _earlier_ballots(rng, e):
    """ballots of ANOTHER election over the same projects (what the process did before)"""
    n = len(e["costs"])
    nv = rng.choice([1, 2, 3, 4])
    if e["btype"] == "approval" and rng.random() < 0.5:
        # popularity inverted w.r.t. name order: late names are approved more often
        out = []
        for _ in range(nv):
            k = rng.randrange(1, n + 1)
            out.append(list(range(n - k, n)))
        return out
    return E.gen_ballots(rng, e["btype"], n, nv)


def _gen_history(rng, e, tier):
    """presentations of kind 5: the election evaluated after other work on the same objects"""
    n, nv = len(e["costs"]), len(e["ballots"])
    idv, ido = list(range(nv)), list(range(n))
    pres = []
    modes = ["inst", rng.choice(["inst", "prof", "cost"])] if tier == "quick" else ["inst", "inst", "prof", "cost"]
    for mode in modes:
        h = {"mode": mode, "earlier": [_earlier_ballots(rng, e) for _ in range(rng.choice([1, 1, 2]))]}
        if mode == "prof":
            h["budget2"] = pb.qs(pb.F(e["budget"]) * rng.choice([Fraction(1, 2), Fraction(2), Fraction(3, 2)]))
        if mode == "cost":
            pool = [pb.F(c) for c in e["costs"]]
            h["costs2"] = [pb.qs(rng.choice(pool) + rng.choice([0, 1, 2])) for _ in range(n)]
        pres.append({"kind": 5, "vperm": idv, "order": ido, "scale": "1/1", "hist": h})
    return pres


def _gen_near_tie(rng, i):
    """city-sized approval election given as a MultiProfile: large integer costs and multiplicities such that the
    quantities the rules compare (Phragmen loads cost/supporters, Equal Shares rho, greedy densities) of two or
    three projects differ by a relative 1e-9 .. 1e-17 -- NOT ties; the slightly worse projects tend to have the
    smaller names (they would win a tie) and the budget admits only one of them."""
    mode = rng.randrange(3)
    ngroup = rng.choice([2, 2, 3])
    if mode == 0:
        # same supporters, costs c, c+d1, c+d2 with c ~ 1e10 .. 1e17
        c = rng.randrange(10 ** rng.choice([10, 12, 14, 15, 16, 17]), 10 ** 18)
        deltas = sorted(rng.sample(range(0, 6), ngroup), reverse=rng.random() < 0.75)
        costs = [c + d for d in deltas]
        groups = [list(range(ngroup))]
        mults = [rng.choice([1, 2, 7, 1000, 40001])]
        if rng.random() < 0.5:
            groups.append([])
            mults.append(rng.choice([1, 3]))
    else:
        # disjoint supporter groups with cost_i = q * n_i + d: ratios q + d / n_i, n_i consecutive
        q = rng.choice([1, 2, 5, 9])
        d = rng.choice([1, 1, 2, 3]) * (1 if rng.random() < 0.75 else -1)
        n1 = rng.choice([20000, 20000, 31623, 10 ** 5, 10 ** 6, 10 ** 7, 10 ** 8]) + rng.randrange(0, 50)
        ns = [n1 + t for t in range(ngroup)]
        if rng.random() < 0.25:
            ns.reverse()
        costs = [q * nn + d for nn in ns]
        groups = [[t] for t in range(ngroup)]
        mults = list(ns)
        if mode == 2:                       # somebody approves all of them
            groups.append(list(range(ngroup)))
            mults.append(rng.choice([1, 2, 1000]))
    # cheap fillers with late names
    nfill = rng.choice([0, 0, 1, 2])
    for f in range(nfill):
        costs.append(rng.choice([1, 2, 3]))
        groups.append([ngroup + f])
        mults.append(rng.choice([1, 2, 5]))
    budget = max(costs[:ngroup]) + sum(costs[ngroup:]) if rng.random() < 0.8 else sum(costs) - min(costs[:ngroup])
    e = {"costs": [pb.qs(c) for c in costs], "budget": pb.qs(budget), "btype": "approval", "ballots": groups,
         "mults": mults, "multi": True, "near_tie": True}
    calls = [{"rule": "phragmen", "tb": tb} for tb in TBS_APPROVAL]
    for rule in ("mes", "greedy"):
        for sat in ("Cardinality_Sat", "Cost_Sat"):
            for tb in ("lexico", rng.choice(TBS_APPROVAL[1:])):
                c = {"rule": rule, "sat": sat, "tb": tb}
                if rule == "greedy":
                    c["additive"] = None if rng.random() < 0.6 else False
                calls.append(c)
    calls.append({"rule": "maxw", "sat": "Cardinality_Sat"})
    e["calls"] = calls
    return e


def _gen_init(rng, e):
    """a feasible, non-empty initial allocation that leaves room for more (None when there is none)"""
    cs = [pb.F(c) for c in e["costs"]]
    B = pb.F(e["budget"])
    for _ in range(6):
        perm = list(range(len(cs)))
        rng.shuffle(perm)
        sel, tot = [], Fraction(0)
        for p in perm[: rng.choice([1, 1, 2, 3])]:
            if tot + cs[p] <= B:
                sel.append(p)
                tot += cs[p]
        if sel and any(tot + cs[p] <= B for p in range(len(cs)) if p not in sel):
            return sorted(sel)
    return None


def gen(rng, i, tier):
    if i % 6 == 4:
        c = _gen_near_tie(rng, i)
        n, nv = len(c["costs"]), len(c["ballots"])
        c["pres"] = _gen_pres(rng, n, nv, tier)
        # more insertion orders: with 2..5 projects the iteration order of the set is what matters
        ido = list(range(n))
        for r in range(3):
            o = list(ido)
            rng.shuffle(o)
            c["pres"].append({"kind": 2, "vperm": list(range(nv)), "order": o, "scale": "1/1"})
        c["tier"] = tier
        return c
    e = _gen_election(rng, i)
    c = dict(e)
    c["calls"] = _gen_calls(rng, e["btype"], _gen_init(rng, e))
    c["pres"] = _gen_pres(rng, len(e["costs"]), len(e["ballots"]), tier) + _gen_history(rng, e, tier)
    c["tier"] = tier
    return c


# ------------------------------------------------------------------------------------------------
# implementation side: one persistent helper interpreter per hash seed (per worker)
# ------------------------------------------------------------------------------------------------
_HELPERS: dict = {}


def _helper(seed):
    p = _HELPERS.get(seed)
    if p is None or p.poll() is not None:
        env = dict(os.environ)
        env["PYTHONHASHSEED"] = str(seed)
        p = subprocess.Popen([core.PY, "-m", "vharness.props.c13_helper"], env=env, stdin=subprocess.PIPE,
                             stdout=subprocess.PIPE, stderr=subprocess.DEVNULL, text=True, bufsize=1)
        _HELPERS[seed] = p
    return p


@atexit.register
def _close_helpers():
    for p in _HELPERS.values():
        try:
            p.stdin.close()
            p.wait(timeout=5)
        except Exception:
            try:
                p.kill()
            except Exception:
                pass


def impl(case):
    seeds = SEEDS.get(case.get("tier", "quick"), SEEDS["quick"])
    line = json.dumps(case) + "\n"
    # all interpreters work on the case concurrently
    for s in seeds:
        p = _helper(s)
        p.stdin.write(line)
        p.stdin.flush()
    out = []
    err = None
    for s in seeds:
        ans = _HELPERS[s].stdout.readline()
        if not ans:
            err = "helper interpreter (PYTHONHASHSEED=%s) died" % s
            continue
        o = json.loads(ans)
        if "exc" in o:
            err = "seed %s: %s\n%s" % (s, o["exc"], o.get("tb", ""))
            continue
        o["seed"] = s
        out.append(o)
    if err:
        raise RuntimeError(err)
    return {"per_seed": out}


# ------------------------------------------------------------------------------------------------
# Gallina rendering
# ------------------------------------------------------------------------------------------------
def _outv(o):
    return "(mkO %s %s)" % (natl(o["set"]), q(o["val"]))


def _pair(ab):
    a, b = ab
    return "(%s, %s)" % (_outv(a), "None" if b is None else "(Some %s)" % _outv(b))


def _model_ok(case):
    """Model/Phragmen.v carries multiplicities as (unary) nat: compared only for electorates that fit"""
    return case["btype"] == "approval" and max([1] + [int(m) for m in (case.get("mults") or [])]) <= 50000


def coq_case(case, o):
    calls = []
    for ci, call in enumerate(case["calls"]):
        rows = [lst([_pair(ab) for ab in s["runs"][ci]]) for s in o["per_seed"]]
        phr = "None"
        if call["rule"] == "phragmen" and "init" not in call and _model_ok(case):
            phr = "(Some %s)" % core.nat(TBID[call["tb"]])
        calls.append("(mkCall %s %s %s)" % (boolc(call.get("cross", True)), phr, lst(rows)))
    ballots = []
    if _model_ok(case):
        ms = case.get("mults") or [1] * len(case["ballots"])
        ballots = ["(%s, %s)" % (natl(b), core.nat(m)) for b, m in zip(case["ballots"], ms)]
    return "(mkCase %s %s %s %s %s)" % (core.qlist(case["costs"]), q(case["budget"]), lst(ballots),
                                       natl([p["kind"] for p in case["pres"]]), lst(calls))


def py_oracle(case, o):
    """python restatement of Oracle.C13.check (used only when the Coq side is broken)"""
    for ci, call in enumerate(case["calls"]):
        rows = [s["runs"][ci] for s in o["per_seed"]]
        key = lambda x: (sorted(x["set"]), Fraction(x["val"]))
        for r in rows:
            for a, b in r:
                if b is not None and key(a) != key(b):
                    return 1
        for r in rows[1:]:
            if [key(a) for a, _ in r] != [key(a) for a, _ in rows[0]]:
                return 2
        for r in rows:
            for pres, (a, _) in zip(case["pres"], r):
                if pres["kind"] and key(a) != key(r[0][0]):
                    return 9 if pres["kind"] == 5 else 2 + pres["kind"]
    return 0


# ------------------------------------------------------------------------------------------------
# evidence
# ------------------------------------------------------------------------------------------------
def _base(o, ci):
    return o["per_seed"][0]["runs"][ci][0][0]


def nontrivial(case, o):
    if not isinstance(o, dict) or "per_seed" not in o:
        return None
    if any(_base(o, ci)["set"] for ci, c in enumerate(case["calls"]) if c["rule"] != "maxw"):
        return [case["costs"], case["budget"], case["btype"], case["ballots"], case["multi"],
                [[c["rule"], c.get("sat"), c.get("tb"), c.get("init")] for c in case["calls"]]]
    return None


def _tb_sensitive(case, o):
    """two calls differing only in the tie-breaking rule select different sets: a tie was actually broken"""
    seen = {}
    for ci, c in enumerate(case["calls"]):
        if c["rule"] == "maxw":
            continue
        k = (c["rule"], c.get("sat"))
        seen.setdefault(k, set()).add(tuple(_base(o, ci)["set"]))
    return any(len(v) > 1 for v in seen.values())


def stats(cases, obs):
    d = {"projects_hist": {}, "voters_hist": {}, "btype": {}, "multi": 0, "all_costs_equal": 0,
         "some_costs_equal": 0, "fractional_costs": 0, "zero_cost_present": 0, "duplicated_ballots": 0,
         "calls_by_rule": {}, "calls_by_tb": {}, "calls_by_sat": {}, "presentations_by_kind": {}, "seeds": None,
         "set_iteration_order_differs_between_seeds": 0, "tie_breaking_rule_changes_outcome": 0,
         "welfare_sets_differ_between_presentations": 0, "rule_runs_total": 0, "nonempty_base_outcome": 0,
         "near_tie_cases": 0, "near_tie_max_multiplicity_hist": {}, "history_presentations_by_mode": {},
         "phragmen_compared_with_model": 0}
    for c, o in zip(cases, obs):
        if not isinstance(o, dict) or "per_seed" not in o:
            continue
        n = len(c["costs"])
        d["projects_hist"][str(n)] = d["projects_hist"].get(str(n), 0) + 1
        nv = len(c["ballots"])
        d["voters_hist"][str(nv)] = d["voters_hist"].get(str(nv), 0) + 1
        d["btype"][c["btype"]] = d["btype"].get(c["btype"], 0) + 1
        d["multi"] += bool(c["multi"])
        if c.get("near_tie"):
            d["near_tie_cases"] += 1
            k = "1e%d" % (len(str(max(int(m) for m in c["mults"]))) - 1)
            d["near_tie_max_multiplicity_hist"][k] = d["near_tie_max_multiplicity_hist"].get(k, 0) + 1
        for pr in c["pres"]:
            if pr.get("hist"):
                m = pr["hist"]["mode"]
                d["history_presentations_by_mode"][m] = d["history_presentations_by_mode"].get(m, 0) + 1
        d["phragmen_compared_with_model"] += _model_ok(c) and any(x["rule"] == "phragmen" for x in c["calls"])
        cs = [Fraction(x) for x in c["costs"]]
        d["all_costs_equal"] += len(set(cs)) == 1
        d["some_costs_equal"] += len(set(cs)) < len(cs)
        d["fractional_costs"] += any(x.denominator != 1 for x in cs)
        d["zero_cost_present"] += any(x == 0 for x in cs)
        bs = [json.dumps(b, sort_keys=True) for b in c["ballots"]]
        d["duplicated_ballots"] += len(set(bs)) < len(bs)
        for call in c["calls"]:
            d["calls_by_rule"][call["rule"]] = d["calls_by_rule"].get(call["rule"], 0) + 1
            if "init" in call:
                d["calls_with_initial_allocation"] = d.get("calls_with_initial_allocation", 0) + 1
            if "tb" in call:
                d["calls_by_tb"][call["tb"]] = d["calls_by_tb"].get(call["tb"], 0) + 1
            if "sat" in call:
                d["calls_by_sat"][call["sat"]] = d["calls_by_sat"].get(call["sat"], 0) + 1
        for p in c["pres"]:
            k = str(p["kind"])
            d["presentations_by_kind"][k] = d["presentations_by_kind"].get(k, 0) + 1
        d["seeds"] = [s["seed"] for s in o["per_seed"]]
        d["set_iteration_order_differs_between_seeds"] += len({tuple(s["enum0"]) for s in o["per_seed"]}) > 1
        d["tie_breaking_rule_changes_outcome"] += _tb_sensitive(c, o)
        d["nonempty_base_outcome"] += nontrivial(c, o) is not None
        runs_per = sum(2 if p.get("twice") else 1 for p in c["pres"])
        d["rule_runs_total"] += runs_per * len(c["calls"]) * len(o["per_seed"])
        diff = False
        for ci, call in enumerate(c["calls"]):
            if call["rule"] == "maxw":
                ch = {tuple(ab[0].get("chosen", [])) for s in o["per_seed"] for ab in s["runs"][ci]}
                diff = diff or len(ch) > 1
        d["welfare_sets_differ_between_presentations"] += diff
    return d


def describe(case, o, code):
    out = {"calls": []}
    for ci, call in enumerate(case["calls"]):
        vals = {}
        for s in o["per_seed"]:
            for j, (a, b) in enumerate(s["runs"][ci]):
                vals.setdefault(json.dumps([a["set"], a["val"]]), []).append([s["seed"], j])
                if b is not None:
                    vals.setdefault(json.dumps([b["set"], b["val"]]), []).append([s["seed"], j, "repeat"])
        if len(vals) > 1:
            out["calls"].append({"call": call, "distinct_outcomes -> [seed, presentation]": vals})
    return out


def shrink(case):
    n = len(case["costs"])
    nv = len(case["ballots"])
    # fewer calls
    if len(case["calls"]) > 1:
        for j in range(len(case["calls"])):
            c = dict(case)
            c["calls"] = [case["calls"][j]]
            yield c
    # fewer presentations (the first one stays)
    if len(case["pres"]) > 2:
        for j in range(1, len(case["pres"])):
            c = dict(case)
            c["pres"] = [case["pres"][0], case["pres"][j]]
            yield c
    # drop a voter
    for v in range(nv):
        if nv > 1:
            c = dict(case)
            c["ballots"] = case["ballots"][:v] + case["ballots"][v + 1:]
            if case.get("mults"):
                c["mults"] = case["mults"][:v] + case["mults"][v + 1:]
            c["pres"] = [dict(p, vperm=[x - (x > v) for x in p["vperm"] if x != v]) for p in case["pres"]]
            yield c
    # shorter history
    for pj, p in enumerate(case["pres"]):
        if p.get("hist") and len(p["hist"]["earlier"]) > 1:
            for t in range(len(p["hist"]["earlier"])):
                c = dict(case)
                h = dict(p["hist"], earlier=p["hist"]["earlier"][:t] + p["hist"]["earlier"][t + 1:])
                c["pres"] = case["pres"][:pj] + [dict(p, hist=h)] + case["pres"][pj + 1:]
                yield c
    # drop a project
    for j in range(n):
        if n <= 1:
            break
        c = dict(case)
        ren = lambda W: [x - (x > j) for x in W if x != j]
        renb = lambda bs: ([ren(b) for b in bs] if case["btype"] in ("approval", "ordinal") else
                           [{str(int(k) - (int(k) > j)): v for k, v in b.items() if int(k) != j} for b in bs])
        c["costs"] = case["costs"][:j] + case["costs"][j + 1:]
        pres = []
        for p in case["pres"]:
            p2 = dict(p, order=ren(p["order"]))
            if p.get("hist"):
                h = dict(p["hist"], earlier=[renb(eb) for eb in p["hist"]["earlier"]])
                if "costs2" in h:
                    h["costs2"] = h["costs2"][:j] + h["costs2"][j + 1:]
                p2["hist"] = h
            pres.append(p2)
        c["pres"] = pres
        c["ballots"] = renb(case["ballots"])
        c["calls"] = [dict(x, init=ren(x["init"])) if "init" in x else x for x in case["calls"]]
        yield c
    if case.get("multi"):
        c = dict(case)
        c["multi"] = False
        yield c
