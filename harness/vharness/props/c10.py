"""C10 -- satisfaction measures compute their documented formulas exactly."""
from __future__ import annotations

import itertools
from fractions import Fraction

from .. import core
from ..core import q, lst, natl, pair
from .. import pb

ID = "C10"
ORACLE = "Oracle.C10"
PROPS = ["Props/C10.v", "Props/C10gen.v"]
LEVEL = "proof"
SHARD = 14          # ~1500 rationals per pure case -> shards stay well below 1 MB of Gallina

MEASURES = {
    1: "Cardinality_Sat", 2: "Cost_Sat", 3: "Effort_Sat", 4: "Relative_Cardinality_Sat",
    5: "Relative_Cost_Approx_Normaliser_Sat", 6: "Additive_Cardinal_Sat", 7: "Additive_Borda_Sat",
    8: "CC_Sat", 9: "CC_Sat", 10: "Relative_Cost_Sat", 11: "Additive_Cardinal_Relative_Sat",
    12: "Cost_Sqrt_Sat", 13: "Cost_Log_Sat", 14: "Additive_Cost_Sqrt_Sat", 15: "Additive_Cost_Log_Sat",
}
KINDS = {
    1: ("model", "sat_project differs from the Gallina model of the measure"),
    2: ("model", "sat(W) differs from the Gallina model of the measure"),
    3: ("oracle", "sat_project(p) is not the documented formula evaluated on {p}"),
    4: ("oracle", "sat(W) is not the documented formula (exact arithmetic, brute-force optimum as normaliser)"),
    5: ("oracle", "sat(W) is not the sum of the measure's own sat_project values (additive measure)"),
    6: ("oracle", "sat(empty set) is not 0"),
    7: ("oracle", "a repeated / re-ordered query on the same measure object returned a different value"),
    8: ("model", "malformed observation (wrong number of values)"),
}
CODES = {k * 100 + mid: (kind, "%s: %s" % (MEASURES[mid], text))
         for k, (kind, text) in KINDS.items() for mid in MEASURES}
CODES[core.RAISED] = ("oracle", "constructing or querying a satisfaction measure raised / the interpreter died "
                                "outside the solver")

RULE = ("elections with 0..7 projects (costs from tie-rich pools: zeros, equal costs, halves/thirds/sevenths, a project "
        "dearer than the budget), budgets on boundaries, 1..5 ballots of one of the four ballot types (empty, full, "
        "repeated ballots, zero and fractional scores), as Profile or MultiProfile (half of the multiprofiles assembled by "
        "the caller from DIRECTLY constructed frozen ballots: approval from list/tuple in arbitrary order, set, other "
        "ballot; cardinal/cumulative from dicts in arbitrary insertion order; ordinal from list/tuple/ballot); every shipped measure the code accepts for "
        "the ballot type (Effort_Sat on all four types) is "
        "built for every ballot and queried with sat_project for every project and sat for every subset when <=5 "
        "projects (16 sampled + empty + full above), then again re-ordered and handed over as another container type or as "
        "a one-shot iterable (generator, iter, map, chain, reversed, dict views); "
        "solver-reaching measures in separate small cases; a HISTORY stream (2 cases in 10): an election is analysed "
        "(optionally after another election with the same project names and budget but other costs and ballots), its "
        "live objects are changed in place (ballot appended/removed, multiplicity changed, copy.copy then extended, "
        "project added to a ballot, budget or a cost changed), FRESH measures are built directly or through "
        "as_sat_profile and must equal model and formula on the final election; non-trivial = distinct election in which some measure takes "
        "a non-zero and a zero value")
ASSUMPTIONS = [
    "hand-written Gallina model of the satisfaction modules tied to the code by differential execution only",
    "gmpy2 mpq arithmetic = exact Q",
    "CBC (Relative_Cost_Sat, Additive_Cardinal_Relative_Sat): every answer re-validated exactly; invalid answers and "
    "solver crashes are discarded; the theorems about these two measures assume the solver's 0/1 vector is an optimal "
    "solution of the knapsack it was given",
    "histories: only the measures built AFTER the changes are compared (a measure built earlier keeps the normaliser "
    "computed at construction and its per-project memo, as documented)",
    "Cost_Sqrt/Cost_Log/Additive_Cost_Sqrt/Additive_Cost_Log are outside the statement (numpy floats): only checked "
    "to be functions of the set, additive where declared additive, 0 on the empty set, and not to raise",
]
TRUSTED = ["Model/Satisfaction.v mirrors pabutools/election/satisfaction/{additive,functional,positional}satisfaction.py "
           "(modelled, not verified); Spec/SatSpec.v is the reading of the documented formulas"]
EXPLANATION = ("Theorems (unbounded): every additive measure is the sum of its per-project values, every measure is 0 "
               "on the empty set and invariant under re-ordering (CC also under repetition) of the query; each model "
               "equals its documented closed form on W ∩ ballot; the cheapest-first normaliser is the maximum "
               "cardinality; the MIP normalisers equal the true optimum under the solver-optimality hypothesis; "
               "Effort_Sat's denominator is the number of voters.  Tie: the implementation's values are compared in "
               "Coq with the model and with the documented formulas (brute-force optima).")

POOLS = [
    [0, 1, 1, 2, 2, 3],
    [1, 2, 3, 4, 5],
    ["1/2", "1/3", "3/4", "2/3", "1/7", 1],
    [2, 2, 2, 2],
    [0, 0, 1],
    ["5/2", "7/3", 5, 10, "1/10"],
    ["1/3", "1/7", "1/3", "2/7"],
]
SCORES = [0, 0, 1, 1, 2, 3, 5, "1/2", "1/3", "1/7", "7/3"]
BTYPES = ["approval", "cardinal", "cumulative", "ordinal"]
# every measure x ballot-type combination the code accepts (the others raise ValueError in the constructor);
# Effort_Sat is documented for approval ballots but accepts any ballot (`project in ballot`)
PURE = {"approval": [1, 2, 3, 4, 5, 8], "cardinal": [1, 2, 3, 4, 5, 6, 9], "cumulative": [1, 2, 3, 4, 5, 6, 9],
        "ordinal": [1, 2, 3, 4, 5, 7]}
SOLV = {"approval": [10], "cardinal": [10, 11], "cumulative": [10, 11], "ordinal": [10]}
TRANSC = [12, 13, 14, 15]
# forms in which the re-ordered query collection is handed to sat(): containers and ONE-SHOT iterables
# (a measure that traverses its argument twice is wrong on the latter)
FORMS = ["list", "tuple", "set", "frozenset", "generator", "iter", "map", "dict_keys", "dict_values", "chain",
         "reversed", "generator", "iter", "map"]
ONE_SHOT = {"generator", "iter", "map", "chain", "reversed"}


def _form(ct, items):
    items = list(items)
    if ct == "list":
        return items
    if ct == "tuple":
        return tuple(items)
    if ct == "set":
        return set(items)
    if ct == "frozenset":
        return frozenset(items)
    if ct == "generator":
        return (p for p in items)
    if ct == "iter":
        return iter(items)
    if ct == "map":
        return map(lambda p: p, items)
    if ct == "dict_keys":
        return dict.fromkeys(items).keys()
    if ct == "dict_values":
        return dict(enumerate(items)).values()
    if ct == "chain":
        return itertools.chain(items[:1], items[1:])
    if ct == "reversed":
        return reversed(items[::-1])
    raise ValueError(ct)


def budget(tier):
    return 600 if tier == "quick" else 6000


def measures_of(case):
    kind = case["hmeasures"] if case["kind"] == "history" else case["kind"]
    if kind == "pure":
        return PURE[case["btype"]]
    if kind == "solver":
        return SOLV[case["btype"]]
    return TRANSC


# ----------------------------------------------------------------------------------------------
# histories: an election is analysed, its live objects are changed in place, and FRESH measures are built
# ----------------------------------------------------------------------------------------------
def _ballot_with(btype, bl, entry):
    """the ballot after `entry` (a rank, or [rank, score]) was added to it in place"""
    if btype == "approval":
        return sorted(list(bl) + [entry])
    return list(bl) + [entry]


def apply_ops(case):
    """final (costs, budget, ballots) after the operations of a history case (pure data)"""
    costs, budget_, ballots = list(case["costs"]), case["budget"], [list(b) for b in case["ballots"]]
    for op in case.get("ops", []):
        if op[0] == "append":
            ballots.append(list(op[1]))
        elif op[0] == "remove":
            ballots.pop(op[1])
        elif op[0] == "budget":
            budget_ = op[1]
        elif op[0] == "cost":
            costs[op[1]] = op[2]
        elif op[0] == "ballot_add":
            ballots[op[1]] = _ballot_with(case["btype"], ballots[op[1]], op[2])
        elif op[0] != "copy":
            raise ValueError("unknown op %r" % (op,))
    return costs, budget_, ballots


def final_view(case):
    """the election the recorded answers are about: the case itself, or the final state of a history"""
    if case["kind"] != "history":
        return case
    c = dict(case)
    c["costs"], c["budget"], c["ballots"] = apply_ops(case)
    return c


# ----------------------------------------------------------------------------------------------
# generation
# ----------------------------------------------------------------------------------------------
def _gen_budget(rng, costs, zero_ok):
    n = len(costs)
    cs = [pb.F(c) for c in costs]
    tot = sum(cs, Fraction(0))
    mode = rng.randrange(8)
    if zero_ok and rng.randrange(12) == 0:
        return Fraction(0)                      # budget 0: only zero-cost projects fit
    if n == 0 or mode == 0:
        return Fraction(rng.choice([1, 2, 3]))
    if mode == 1:
        return tot if tot > 0 else Fraction(1)
    if mode == 2:
        return tot + rng.choice([1, Fraction(1, 2)])
    if mode == 3:
        b = min(cs)
        return b if b > 0 else Fraction(1)
    if mode == 4:
        b = sum(rng.sample(cs, rng.randrange(1, n + 1)), Fraction(0))
        return b if b > 0 else Fraction(1, 2)
    if mode == 5:
        b = tot * Fraction(rng.randrange(1, 9), 8)
        return b if b > 0 else Fraction(2)
    if mode == 6:
        b = min(cs) - Fraction(1, 3)
        return b if b > 0 else Fraction(1, 3)
    return max(cs) if max(cs) > 0 else Fraction(1)


def _gen_ballot(rng, btype, n, cumulative_total):
    shape = rng.randrange(6)
    if shape == 0:
        members = []
    elif shape == 1:
        members = list(range(n))
    else:
        members = sorted(rng.sample(range(n), rng.randrange(0, n + 1))) if n else []
    if btype == "approval":
        return members
    if btype == "ordinal":
        rng.shuffle(members)
        return members
    rng.shuffle(members)
    if btype == "cardinal":
        pool = SCORES + ([-1, "-1/2", -2] if rng.randrange(3) == 0 else [])
        return [[j, pb.qs(rng.choice(pool))] for j in members]
    # cumulative: non-negative scores
    return [[j, pb.qs(rng.choice(SCORES))] for j in members]


def _gen_sets(rng, n, full_upto, sampled):
    if n <= full_upto:
        return [list(s) for r in range(n + 1) for s in itertools.combinations(range(n), r)]
    sets = [[], list(range(n))]
    while len(sets) < sampled + 2:
        s = sorted(rng.sample(range(n), rng.randrange(1, n)))
        if s not in sets:
            sets.append(s)
    return sets


def _gen_ballots(rng, btype, n, nb):
    ballots = []
    for _ in range(nb):
        if ballots and rng.randrange(3) == 0:
            ballots.append(list(rng.choice(ballots)))   # repeated ballot: multiplicity >= 2 in the multiprofile
        else:
            ballots.append(_gen_ballot(rng, btype, n, None))
    return ballots


def _members(btype, bl):
    return list(bl) if btype in ("approval", "ordinal") else [e[0] for e in bl]


def gen_history(rng, i, btype):
    hm = "solver" if i % 40 >= 30 else "pure"
    n = rng.choice([1, 2, 3, 3, 4, 4, 5])
    pool = rng.choice(POOLS)
    if hm == "solver":
        pool = [c for c in pool if pb.F(c) != 0]      # an all-zero knapsack row aborts CBC (excluded by the property)
    costs = [pb.qs(rng.choice(pool)) for _ in range(n)]
    b = _gen_budget(rng, costs, False)
    multi = bool(rng.randrange(2))
    ballots = _gen_ballots(rng, btype, n, rng.choice([1, 2, 2, 3, 4]))
    case = {"kind": "history", "hmeasures": hm, "btype": btype, "costs": costs, "budget": pb.qs(b),
            "ballots": ballots, "multi": multi, "solver": hm == "solver",
            "via_satprofile": bool(rng.randrange(2))}
    # an earlier election of the same process with the same project names and budget, other costs and ballots
    if rng.randrange(3) == 0:
        pool2 = [c for c in rng.choice(POOLS) if hm != "solver" or pb.F(c) != 0]
        case["pre"] = {"costs": [pb.qs(rng.choice(pool2)) for _ in range(n)],
                       "ballots": _gen_ballots(rng, btype, n, rng.choice([1, 2, 3]))}
    ops = []
    cur_costs, cur_ballots = list(costs), [list(x) for x in ballots]
    for k in range(rng.choice([1, 1, 2, 2, 3])):
        kinds = ["append", "append", "remove", "copy", "budget", "cost", "ballot_add"]
        kind = rng.choice(kinds[:3] + ["ballot_add"]) if k == 0 else rng.choice(kinds)
        if kind == "remove" and len(cur_ballots) < 2:
            kind = "append"
        if kind == "ballot_add":
            cands = [(j, p) for j, bl in enumerate(cur_ballots) for p in range(n)
                     if p not in _members(btype, bl)]
            if multi or not cands:
                kind = "append"
        if kind == "append":
            bl = list(rng.choice(cur_ballots)) if cur_ballots and rng.randrange(2) else _gen_ballot(rng, btype, n, None)
            ops.append(["append", bl])
            cur_ballots.append(bl)
        elif kind == "remove":
            j = rng.randrange(len(cur_ballots))
            ops.append(["remove", j])
            cur_ballots.pop(j)
        elif kind == "copy":
            ops.append(["copy"])
        elif kind == "budget":
            ops.append(["budget", pb.qs(_gen_budget(rng, cur_costs, False))])
        elif kind == "cost":
            j = rng.randrange(n)
            cur_costs[j] = pb.qs(rng.choice(pool))
            ops.append(["cost", j, cur_costs[j]])
        else:
            j, p = rng.choice(cands)
            entry = p if btype in ("approval", "ordinal") else [p, pb.qs(rng.choice(SCORES))]
            ops.append(["ballot_add", j, entry])
            cur_ballots[j] = _ballot_with(btype, cur_ballots[j], entry)
    case["ops"] = ops
    order = list(range(n))
    rng.shuffle(order)
    case["order"] = order
    case["sets"] = _gen_sets(rng, n, 5, 16)
    case["sets2"] = []
    for W in case["sets"]:
        W2 = list(W)
        rng.shuffle(W2)
        case["sets2"].append([W2, rng.choice(FORMS)])
    case["sets_first"] = bool(rng.randrange(2))
    case["fd"] = rng.randrange(1, 10 ** 6) if multi and rng.randrange(2) else None
    return case


def gen(rng, i, tier):
    r = i % 10
    kind = "pure" if r < 5 else ("history" if r < 7 else ("solver" if r < 9 else "transc"))
    btype = "approval" if kind == "transc" else BTYPES[(i // 10 + r) % 4]
    if kind == "history":
        return gen_history(rng, i, btype)
    if kind == "pure":
        n = rng.choice([0, 1, 2, 3, 3, 4, 4, 5, 5, 5, 6, 7])
    elif kind == "solver":
        n = rng.choice([1, 2, 3, 3, 4, 4, 5, 5, 6])
    else:
        n = rng.choice([1, 2, 3, 4])
    pool = rng.choice(POOLS)
    costs = [pb.qs(rng.choice(pool)) for _ in range(n)]
    if kind == "solver" and all(pb.F(c) == 0 for c in costs):
        costs[rng.randrange(n)] = "1/1"          # an all-zero knapsack row aborts CBC (excluded by the property)
    b = _gen_budget(rng, costs, kind == "pure")
    nb = rng.choice([1, 2, 3, 3, 4, 5]) if kind == "pure" else rng.choice([1, 2, 3])
    ballots = []
    for _ in range(nb):
        if ballots and rng.randrange(3) == 0:
            ballots.append(rng.choice(ballots))   # repeated ballot: multiplicity >= 2 in the multiprofile
        else:
            ballots.append(_gen_ballot(rng, btype, n, None))
    if kind == "solver":
        # every non-empty ballot gets a project of positive cost (all-zero knapsack row, see above)
        pos = [j for j in range(n) if pb.F(costs[j]) > 0]
        fixed = []
        for bl in ballots:
            mem = [e if btype in ("approval", "ordinal") else e[0] for e in bl]
            if mem and all(pb.F(costs[j]) == 0 for j in mem):
                j = rng.choice(pos)
                bl = list(bl) + ([j] if btype in ("approval", "ordinal") else [[j, pb.qs(rng.choice(SCORES))]])
                if btype == "approval":
                    bl = sorted(bl)
            fixed.append(bl)
        ballots = fixed
    order = list(range(n))
    rng.shuffle(order)
    sets = _gen_sets(rng, n, 5, 16) if kind != "transc" else _gen_sets(rng, n, 3, 6)
    sets2 = []
    for W in sets:
        W2 = list(W)
        rng.shuffle(W2)
        sets2.append([W2, rng.choice(FORMS)])
    case = {"kind": kind, "btype": btype, "costs": costs, "budget": pb.qs(b), "order": order,
            "ballots": ballots, "multi": bool(rng.randrange(2)), "sets": sets, "sets2": sets2,
            "sets_first": bool(rng.randrange(2)), "solver": kind == "solver"}
    # multiprofile assembled by the caller from directly constructed frozen ballots (seed of their forms/orders)
    case["fd"] = rng.randrange(1, 10 ** 6) if case["multi"] and rng.randrange(2) else None
    return case


# ----------------------------------------------------------------------------------------------
# running the implementation
# ----------------------------------------------------------------------------------------------
def _pb_ballots(case):
    if case["btype"] in ("approval", "ordinal"):
        return case["ballots"]
    return [{str(j): s for j, s in bl} for bl in case["ballots"]]


def _content(btype, b):
    """the ballot object as the model sees it: [[rank, score]] in iteration order (approval: sorted)"""
    if btype == "approval":
        return [[j, "0/1"] for j in sorted(pb.ranks(b))]
    if btype == "ordinal":
        return [[j, "0/1"] for j in pb.ranks(b)]
    return [[pb.rank(p), core.qj(s)] for p, s in b.items()]


def _make_ballot(btype, projs, bl, frozen):
    import pabutools.election as E

    if btype == "approval":
        b = E.ApprovalBallot([projs[j] for j in bl])
    elif btype == "ordinal":
        b = E.OrdinalBallot([projs[j] for j in bl])
    elif btype == "cardinal":
        b = E.CardinalBallot({projs[j]: pb.num(v) for j, v in bl})
    else:
        b = E.CumulativeBallot({projs[j]: pb.num(v) for j, v in bl})
    return b.frozen() if frozen else b


def _make_frozen_direct(btype, projs, bl, rnd):
    """a frozen ballot constructed DIRECTLY by the caller (not through frozen()/as_multiprofile()): approval
    ballots from a list/tuple in arbitrary order, a set, another (frozen) ballot; cardinal/cumulative ballots
    from a dict in arbitrary insertion order; ordinal ballots from a list/tuple/another ballot"""
    import pabutools.election as E

    if btype == "approval":
        mem = [projs[j] for j in bl]
        rnd.shuffle(mem)
        form = rnd.choice(["list", "list", "tuple", "tuple", "set", "frozenset", "frozen", "ballot"])
        src = {"list": list, "tuple": tuple, "set": set, "frozenset": frozenset,
               "frozen": E.FrozenApprovalBallot, "ballot": E.ApprovalBallot}[form](mem)
        return E.FrozenApprovalBallot(src)
    if btype == "ordinal":
        mem = [projs[j] for j in bl]
        form = rnd.choice(["list", "tuple", "frozen", "ballot"])
        src = {"list": list, "tuple": tuple, "frozen": E.FrozenOrdinalBallot, "ballot": E.OrdinalBallot}[form](mem)
        return E.FrozenOrdinalBallot(src)
    items = [(projs[j], pb.num(v)) for j, v in bl]
    rnd.shuffle(items)
    frozen_cls, ballot_cls = ((E.FrozenCardinalBallot, E.CardinalBallot) if btype == "cardinal"
                              else (E.FrozenCumulativeBallot, E.CumulativeBallot))
    form = rnd.choice(["dict", "dict", "frozen", "ballot"])
    src = {"dict": dict, "frozen": frozen_cls, "ballot": ballot_cls}[form](dict(items))
    return frozen_cls(src)


def _fd_rng(case, k):
    import random

    return random.Random(int(case["fd"]) * 1009 + k)


def _make_profile(case, inst, projs, tag=0):
    """the profile of the case; with case["fd"] a multiprofile assembled by the caller from directly
    constructed frozen ballots"""
    if not (case.get("fd") and case["multi"]):
        return pb.make_profile(case["btype"], inst, projs, _pb_ballots(case), case["multi"])
    import pabutools.election as E

    cls = {"approval": E.ApprovalMultiProfile, "cardinal": E.CardinalMultiProfile,
           "cumulative": E.CumulativeMultiProfile, "ordinal": E.OrdinalMultiProfile}[case["btype"]]
    prof = cls(instance=inst)
    for k, bl in enumerate(case["ballots"]):
        prof.append(_make_frozen_direct(case["btype"], projs, bl, _fd_rng(case, tag + k)))
    return prof


def _query_all(inst, prof, projs, case, via_satprofile=False):
    """build a fresh measure object for every ballot of the profile and every measure, and query it"""
    import pabutools.election.satisfaction as S

    res = []
    mids = measures_of(case)
    if via_satprofile:
        objs = [(mid, s) for mid in mids for s in prof.as_sat_profile(getattr(S, MEASURES[mid]))]
    else:
        objs = ((mid, getattr(S, MEASURES[mid])(inst, prof, b)) for b in prof for mid in mids)
    for mid, s in objs:
        content = _content(case["btype"], s.ballot)
        pv = sv = None
        if case["sets_first"]:
            sv = [core.qj(s.sat([projs[j] for j in W])) for W in case["sets"]]
        pv = [core.qj(s.sat_project(p)) for p in projs]
        if sv is None:
            sv = [core.qj(s.sat([projs[j] for j in W])) for W in case["sets"]]
        sv2 = [core.qj(s.sat(_form(ct, (projs[j] for j in W2)))) for W2, ct in case["sets2"]]
        pv2 = [core.qj(s.sat_project(p)) for p in reversed(projs)][::-1]
        rec = {"mid": mid, "ballot": content, "pv": pv, "pv2": pv2, "sv": sv, "sv2": sv2}
        if case["btype"] == "approval":
            rec["iteration_order"] = pb.ranks(s.ballot)     # for the replay only: the order the object iterates in
        res.append(rec)
    return res


def _apply_ops_live(case, inst, prof, projs):
    """the operations of a history on the live objects; returns the profile object to analyse afterwards"""
    import copy

    bt, multi = case["btype"], case["multi"]
    data = [list(b) for b in case["ballots"]]
    for op in case["ops"]:
        if op[0] == "append":
            if multi and case.get("fd"):
                prof.append(_make_frozen_direct(bt, projs, op[1], _fd_rng(case, 100 + len(data))))
            else:
                prof.append(_make_ballot(bt, projs, op[1], multi))
            data.append(list(op[1]))
        elif op[0] == "remove":
            if multi:
                key = _ballot_key(bt, data[op[1]])
                fb = [k for k in prof if _ballot_key(bt, _data_of(bt, k)) == key][0]
                if prof[fb] > 1:
                    prof[fb] -= 1
                else:
                    del prof[fb]
            else:
                prof.pop(op[1])
            data.pop(op[1])
        elif op[0] == "copy":
            prof = copy.copy(prof)
        elif op[0] == "budget":
            inst.budget_limit = pb.num(op[1])
        elif op[0] == "cost":
            projs[op[1]].cost = pb.num(op[2])
        elif op[0] == "ballot_add":
            b, e = prof[op[1]], op[2]
            if bt == "approval":
                b.add(projs[e])
            elif bt == "ordinal":
                b.append(projs[e])
            else:
                b[projs[e[0]]] = pb.num(e[1])
            data[op[1]] = _ballot_with(bt, data[op[1]], e)
    return prof


def _data_of(btype, b):
    c = _content(btype, b)
    return [j for j, _ in c] if btype in ("approval", "ordinal") else c


def impl(case):
    if case["solver"]:
        pb.install_solver_guard()
        pb.solver_reset()
    out = {}
    if case["kind"] == "history":
        if case.get("pre"):
            c0 = dict(case)
            c0["costs"], c0["ballots"] = case["pre"]["costs"], case["pre"]["ballots"]
            inst0, projs0 = pb.make_instance(c0["costs"], c0["budget"], c0["order"])
            prof0 = _make_profile(c0, inst0, projs0, tag=500)
            _query_all(inst0, prof0, projs0, c0, case["via_satprofile"])
        inst, projs = pb.make_instance(case["costs"], case["budget"], case["order"])
        prof = _make_profile(case, inst, projs)
        _query_all(inst, prof, projs, case, case["via_satprofile"])
        prof = _apply_ops_live(case, inst, prof, projs)
        out["obs"] = _query_all(inst, prof, projs, case, case["via_satprofile"])
    else:
        inst, projs = pb.make_instance(case["costs"], case["budget"], case["order"])
        prof = _make_profile(case, inst, projs)
        out["obs"] = _query_all(inst, prof, projs, case)
    if case["solver"]:
        st = pb.solver_state()
        if st["faults"]:
            out["solver_fault"] = st["last_fault"]
    return out


# ----------------------------------------------------------------------------------------------
# Gallina rendering
# ----------------------------------------------------------------------------------------------
def _ballot_key(btype, bl):
    if btype == "approval":
        return ("a", tuple(sorted(bl)))
    if btype == "ordinal":
        return ("o", tuple(bl))
    return ("c", tuple(sorted((j, pb.F(s)) for j, s in bl)))


def model_profile(case):
    """the profile handed to the model: generated ballots, grouped with multiplicities for a multiprofile"""
    bt = case["btype"]
    as_entries = (lambda bl: [[j, "0/1"] for j in bl]) if bt in ("approval", "ordinal") else (lambda bl: bl)
    if not case["multi"]:
        return [(as_entries(bl), 1) for bl in case["ballots"]]
    groups, keys = [], []
    for bl in case["ballots"]:
        k = _ballot_key(bt, bl)
        if k in keys:
            groups[keys.index(k)][1] += 1
        else:
            keys.append(k)
            groups.append([as_entries(bl), 1])
    return [(g[0], g[1]) for g in groups]


def _gballot(entries):
    return lst([pair(core.nat(j), q(s)) for j, s in entries])


def coq_case(case, o):
    case = final_view(case)
    prof = lst([pair(_gballot(bl), core.nat(m)) for bl, m in model_profile(case)])
    obs = lst(["(mkObs %s %s %s %s %s %s)" % (
        core.nat(x["mid"]), _gballot(x["ballot"]), core.qlist(x["pv"]), core.qlist(x["pv2"]),
        core.qlist(x["sv"]), core.qlist(x["sv2"])) for x in o["obs"]])
    return "(mkCase %s %s %s %s %s)" % (
        core.qlist(case["costs"]), q(case["budget"]), prof, lst([natl(W) for W in case["sets"]]), obs)


# ----------------------------------------------------------------------------------------------
# python-side restatement of the documented formulas (used for replay details and as the fallback oracle
# when the Coq side does not build; the verdict of a normal run comes from Coq)
# ----------------------------------------------------------------------------------------------
def _spec(case, mid, entries, W):
    F = pb.F
    costs = [F(c) for c in case["costs"]]
    B = F(case["budget"])
    mem = [j for j, _ in entries]
    score = {}
    for j, s in entries:
        score.setdefault(j, F(s))
    inter = [p for p in W if p in mem]
    quot = lambda x, N: Fraction(0) if N == 0 else Fraction(x) / N
    subsets = lambda l: (s for r in range(len(l) + 1) for s in itertools.combinations(l, r))
    if mid == 1:
        return Fraction(len(inter))
    if mid == 2:
        return sum((costs[p] for p in inter), Fraction(0))
    if mid == 3:
        tot = Fraction(0)
        for p in inter:
            d = sum(m for bl, m in model_profile(case) if p in [j for j, _ in bl])
            tot += quot(costs[p], d)
        return tot
    if mid == 4:
        N = max(len(s) for s in subsets(mem) if sum((costs[p] for p in s), Fraction(0)) <= B)
        return quot(len(inter), N)
    if mid == 5:
        return quot(sum((costs[p] for p in inter), Fraction(0)), min(sum((costs[p] for p in mem), Fraction(0)), B))
    if mid == 6:
        return sum((score.get(p, Fraction(0)) for p in W), Fraction(0))
    if mid == 7:
        return sum((Fraction(len(mem) - mem.index(p) - 1) for p in inter), Fraction(0))
    if mid == 8:
        return Fraction(1 if inter else 0)
    if mid == 9:
        return max([Fraction(0)] + [score[p] for p in inter])
    if mid == 10:
        N = max(sum((costs[p] for p in s), Fraction(0)) for s in subsets(mem)
                if sum((costs[p] for p in s), Fraction(0)) <= B)
        return quot(sum((costs[p] for p in inter), Fraction(0)), N)
    if mid == 11:
        allp = list(range(len(costs)))
        N = max(sum((score.get(p, Fraction(0)) for p in s), Fraction(0)) for s in subsets(allp)
                if sum((costs[p] for p in s), Fraction(0)) <= B)
        return quot(sum((score.get(p, Fraction(0)) for p in W), Fraction(0)), N)
    return None


def _first_failure(case, o):
    case = final_view(case)
    n = len(case["costs"])
    for x in o.get("obs", []):
        mid = x["mid"]
        pv = [pb.F(v) for v in x["pv"]]
        sv = [pb.F(v) for v in x["sv"]]
        for p in range(n):
            want = _spec(case, mid, x["ballot"], [p])
            if want is not None and want != pv[p]:
                return 300 + mid, {"measure": MEASURES[mid], "ballot": x["ballot"], "query": "sat_project(%d)" % p,
                                   "observed": pb.qs(pv[p]), "required": pb.qs(want)}
        for W, v in zip(case["sets"], sv):
            want = _spec(case, mid, x["ballot"], W)
            if want is not None and want != v:
                return 400 + mid, {"measure": MEASURES[mid], "ballot": x["ballot"], "query": "sat(%s)" % W,
                                   "observed": pb.qs(v), "required": pb.qs(want)}
            if mid not in (8, 9, 12, 13) and sum((pv[p] for p in W), Fraction(0)) != v:
                return 500 + mid, {"measure": MEASURES[mid], "ballot": x["ballot"], "query": "sat(%s)" % W,
                                   "observed": pb.qs(v), "sum_of_sat_project": pb.qs(sum((pv[p] for p in W), Fraction(0)))}
            if not W and v != 0:
                return 600 + mid, {"measure": MEASURES[mid], "ballot": x["ballot"], "observed": pb.qs(v)}
        if x["pv"] != x["pv2"] or x["sv"] != x["sv2"]:
            return 700 + mid, {"measure": MEASURES[mid], "ballot": x["ballot"], "first": [x["pv"], x["sv"]],
                               "again": [x["pv2"], x["sv2"]], "reordered_queries": case["sets2"]}
    return None, None


def py_oracle(case, o):
    if not isinstance(o, dict) or "obs" not in o:
        return None
    return _first_failure(case, o)[0]


def describe(case, o, code):
    d = {"measure": MEASURES.get(code % 100), "check": KINDS.get(code // 100, ("", ""))[1]}
    if isinstance(o, dict) and "obs" in o:
        c, info = _first_failure(case, o)
        if info:
            d["first_failing_query"] = info
    return d


# ----------------------------------------------------------------------------------------------
# evidence
# ----------------------------------------------------------------------------------------------
def nontrivial(case, o):
    if not isinstance(o, dict) or "obs" not in o:
        return None
    case = final_view(case)
    for x in o["obs"]:
        vals = [pb.F(v) for v in x["sv"]]
        if any(v != 0 for v in vals) and any(v == 0 for v in vals[1:]):
            return [case["kind"], case["btype"], case["multi"], case["costs"], case["budget"], case["ballots"],
                    case.get("ops"), case.get("pre")]
    return None


def stats(cases, obs):
    d = {"pure": 0, "solver": 0, "transc": 0, "history": 0, "history_ops": {}, "history_with_earlier_election": 0,
         "history_profile_changed": 0, "history_via_as_sat_profile": 0, "btype": {}, "multiprofile": 0, "multiprofile_of_directly_built_frozen_ballots": 0, "fractional_costs": 0,
         "has_zero_cost": 0, "equal_costs": 0, "project_dearer_than_budget": 0, "nproj_hist": {},
         "nballots_hist": {}, "with_repeated_ballot": 0, "with_empty_ballot": 0, "with_full_ballot": 0,
         "fractional_scores": 0, "zero_score_in_ballot": 0, "negative_score": 0,
         "measure_objects": 0, "values_compared": 0, "one_shot_iterable_queries": 0, "query_forms": {}, "all_subsets_queried": 0,
         "normaliser_zero_nonempty_ballot": 0, "relative_value_above_one": 0, "measure_objects_by_id": {}}
    for c, o in zip(cases, obs):
        if not isinstance(o, dict) or "obs" not in o or o.get("discard"):
            continue
        d[c["kind"]] += 1
        if c["kind"] == "history":
            for op in c["ops"]:
                d["history_ops"][op[0]] = d["history_ops"].get(op[0], 0) + 1
            d["history_with_earlier_election"] += bool(c.get("pre"))
            d["history_profile_changed"] += any(op[0] in ("append", "remove", "ballot_add") for op in c["ops"])
            d["history_via_as_sat_profile"] += c["via_satprofile"]
            c = final_view(c)
        d["btype"][c["btype"]] = d["btype"].get(c["btype"], 0) + 1
        d["multiprofile"] += c["multi"]
        d["multiprofile_of_directly_built_frozen_ballots"] += bool(c.get("fd") and c["multi"])
        cs = [pb.F(x) for x in c["costs"]]
        n = len(cs)
        d["fractional_costs"] += any(x.denominator != 1 for x in cs)
        d["has_zero_cost"] += any(x == 0 for x in cs)
        d["equal_costs"] += len(set(cs)) < n
        d["project_dearer_than_budget"] += any(x > pb.F(c["budget"]) for x in cs)
        d["nproj_hist"][str(n)] = d["nproj_hist"].get(str(n), 0) + 1
        nb = len(c["ballots"])
        d["nballots_hist"][str(nb)] = d["nballots_hist"].get(str(nb), 0) + 1
        keys = [_ballot_key(c["btype"], bl) for bl in c["ballots"]]
        d["with_repeated_ballot"] += len(set(keys)) < len(keys)
        d["with_empty_ballot"] += any(len(bl) == 0 for bl in c["ballots"])
        d["with_full_ballot"] += any(len(bl) == n and n > 0 for bl in c["ballots"])
        if c["btype"] in ("cardinal", "cumulative"):
            sc = [pb.F(s) for bl in c["ballots"] for _, s in bl]
            d["fractional_scores"] += any(s.denominator != 1 for s in sc)
            d["zero_score_in_ballot"] += any(s == 0 for s in sc)
            d["negative_score"] += any(s < 0 for s in sc)
        d["all_subsets_queried"] += len(c["sets"]) == 2 ** n
        for _, ct in c["sets2"]:
            d["query_forms"][ct] = d["query_forms"].get(ct, 0) + len(o["obs"])
            d["one_shot_iterable_queries"] += len(o["obs"]) * (ct in ONE_SHOT)
        for x in o["obs"]:
            d["measure_objects"] += 1
            k = str(x["mid"])
            d["measure_objects_by_id"][k] = d["measure_objects_by_id"].get(k, 0) + 1
            d["values_compared"] += 2 * (len(x["pv"]) + len(x["sv"]))
            if x["mid"] in (4, 5, 10, 11) and x["ballot"]:
                vals = [pb.F(v) for v in x["sv"]]
                if all(v == 0 for v in vals):
                    d["normaliser_zero_nonempty_ballot"] += 1
                if any(v > 1 for v in vals):
                    d["relative_value_above_one"] += 1
    return d


# ----------------------------------------------------------------------------------------------
# shrinking
# ----------------------------------------------------------------------------------------------
def _ren_ballot(bt, bl, j):
    if bt in ("approval", "ordinal"):
        return [x - (x > j) for x in bl if x != j]
    return [[x - (x > j), sc] for x, sc in bl if x != j]


def _drop_project(case, j):
    bt = case["btype"]
    ren = lambda W: [x - (x > j) for x in W if x != j]
    c = dict(case)
    c["costs"] = case["costs"][:j] + case["costs"][j + 1:]
    c["order"] = ren(case["order"])
    c["ballots"] = [_ren_ballot(bt, bl, j) for bl in case["ballots"]]
    if case.get("pre"):
        c["pre"] = {"costs": case["pre"]["costs"][:j] + case["pre"]["costs"][j + 1:],
                    "ballots": [_ren_ballot(bt, bl, j) for bl in case["pre"]["ballots"]]}
    if "ops" in case:
        ops = []
        for op in case["ops"]:
            if op[0] == "append":
                ops.append(["append", _ren_ballot(bt, op[1], j)])
            elif op[0] == "cost":
                if op[1] != j:
                    ops.append(["cost", op[1] - (op[1] > j), op[2]])
            elif op[0] == "ballot_add":
                e = op[2]
                pj = e if bt in ("approval", "ordinal") else e[0]
                if pj == j:
                    return None
                ops.append(["ballot_add", op[1], (pj - (pj > j)) if bt in ("approval", "ordinal") else [pj - (pj > j), e[1]]])
            else:
                ops.append(op)
        c["ops"] = ops
    sets, sets2 = [], []
    for W, (W2, ct) in zip(case["sets"], case["sets2"]):
        Wn = ren(W)
        if Wn not in sets:
            sets.append(Wn)
            sets2.append([ren(W2), ct])
    c["sets"], c["sets2"] = sets, sets2
    return c


def shrink(case):
    n = len(case["costs"])
    hist = case["kind"] == "history"
    if case.get("fd"):
        c = dict(case)
        c["fd"] = None
        yield c
    if hist:
        for j in range(len(case["ops"])):
            c = dict(case)
            c["ops"] = case["ops"][:j] + case["ops"][j + 1:]
            try:
                apply_ops(c)
            except (IndexError, ValueError):
                continue
            yield c
        if case.get("pre"):
            c = dict(case)
            c.pop("pre")
            yield c
        if case["via_satprofile"]:
            c = dict(case)
            c["via_satprofile"] = False
            yield c
    for j in range(n):
        c = _drop_project(case, j)
        if c is None:
            continue
        if case["solver"] and c["costs"] and any(
                all(pb.F(x) == 0 for x in cs) for cs in [c["costs"]] + ([c["pre"]["costs"]] if c.get("pre") else [])):
            continue
        yield c
    index_ops = hist and any(op[0] in ("remove", "ballot_add") for op in case["ops"])
    if len(case["ballots"]) > 1 and not index_ops:
        for j in range(len(case["ballots"])):
            c = dict(case)
            c["ballots"] = case["ballots"][:j] + case["ballots"][j + 1:]
            yield c
    if len(case["sets"]) > 2:
        for j in range(len(case["sets"])):
            c = dict(case)
            c["sets"] = [case["sets"][j]]
            c["sets2"] = [case["sets2"][j]]
            yield c
    if case["multi"] and not index_ops:
        c = dict(case)
        c["multi"] = False
        yield c
