"""C04 -- the additive utilitarian welfare maximiser returns an optimum; irresolute mode returns all optima."""
from __future__ import annotations

import itertools
from fractions import Fraction

from .. import core
from ..core import q, lst, natl
from .. import pb

NAMING = True
ID = "C04"
ORACLE = "Oracle.C04"
PROPS = "Props/C04.v"
LEVEL = "proof"
SHARD = 60
CODES = {
    1: ("oracle", "a returned allocation contains a duplicate or a project outside the instance"),
    2: ("oracle", "a returned allocation is over budget"),
    3: ("oracle", "a returned allocation does not contain the initial allocation"),
    4: ("oracle", "the welfare of a returned allocation is below the exact brute-force maximum"),
    5: ("oracle", "irresolute: the returned list is not the set of all welfare-maximal allocations, each once"),
    6: ("model", "PRIMAL_DUAL: the selected set differs from the Gallina model of primal_dual_branch"),
    7: ("oracle", "resolute call did not return exactly one allocation"),
    90: ("oracle", "history: the FIRST call on a satisfaction profile object returned a non-optimal / invalid allocation"),
    91: ("oracle", "history: repeating the identical call on the same objects changed the welfare / the selected set"),
    92: ("model", "history: totals of the satisfaction profile extended in place differ from a freshly built one"),
    core.RAISED: ("oracle", "the call raised / the interpreter died outside the solver"),
}
RULE = ("single calls and (every 5th case) HISTORIES: call, extend profile + satisfaction profile in place (append / "
        "extend_from_profile, Profile and MultiProfile), call twice more on the same objects -- the second call is judged "
        "on the final election with totals of a freshly built satisfaction profile, the first on the election as it was, "
        "the third must repeat the second; every 10th case a near-tie knapsack with 1e9..1e17-sized integer (and mixed "
        "int/mpq) costs and profits; otherwise elections with 1..8 projects (..10 thorough), 0..5 voters, negative and mixed-sign cardinal/cumulative scores, integer and fractional costs from tie-rich pools "
        "(zeros, equal costs, halves/thirds), budgets on subset sums/boundaries, approval, cardinal, cumulative and "
        "ordinal ballots with every shipped exact-valued additive measure, Profile and MultiProfile, feasible initial "
        "allocations, PRIMAL_DUAL / ILP resolute / ILP irresolute; non-trivial = distinct case with >=2 feasible "
        "completions of different welfare and a positive maximum")
ASSUMPTIONS = [
    "hand-written Gallina model of maxwelfare.py tied to the code by differential execution only",
    "gmpy2 mpq arithmetic = exact Q; total satisfaction per project is read from the implementation's sat profile",
    "CBC (ILP algorithm and the normalisers of Relative_Cost_Sat / Additive_Cardinal_Relative_Sat): every optimize() "
    "answer, including those inside the integer-cut loop, is re-validated exactly; faults and crashes are discarded",
    "float-valued additive measures (Additive_Cost_Sqrt_Sat, Additive_Cost_Log_Sat) are outside the property; "
    "negative and mixed-sign satisfactions (cardinal / cumulative ballots) are inside it and generated",
    "histories: the final election's totals come from a freshly built satisfaction profile; only ballot-local measures "
    "are used there, so in-place extension and rebuilding must agree (checked, code 92)",
]
TRUSTED = ["Model/MaxWelfare.v mirrors pabutools/rules/maxwelfare.py (modelled, not verified)"]
EXPLANATION = ("Theorems (unbounded, Props/C04.v, all DESIGN M theorems proved): the brute-force oracle is the true "
               "maximum / the set of all optima, each once; primal/dual bound validity, search completeness and "
               "reconstruction (one invariant of primal_dual_branch_impl), optimality of primal_dual_branch and of the "
               "whole PRIMAL_DUAL rule incl. the zero-cost pre-selection; under the solver-oracle hypothesis the ILP cut "
               "loop returns exactly the optimal allocations, each once (hypothesis shown satisfiable); the pre-repair "
               "floored bound is refuted.  Tie: the implementation's allocations are judged in Coq by the verified "
               "brute-force oracle (both algorithms, resolute and irresolute) and compared with the model's selected "
               "set (PRIMAL_DUAL).  ILP statements are proofs under an oracle hypothesis about CBC, not about CBC.")

POOLS = [
    [0, 1, 1, 2, 2, 3],
    [1, 2, 3, 4, 5],
    ["1/2", "1/3", "3/4", "2/3", "1/6", 1],
    [2, 2, 2, 3],
    [0, 0, 1, 2],
    ["5/2", "7/3", 5, 10, "1/10"],
    [49, 7, 14, 21],
    [3, 5, 7, 11, 13],
]
APPROVAL_SATS = ["Cardinality_Sat", "Cost_Sat", "Effort_Sat", "Relative_Cardinality_Sat",
                 "Relative_Cost_Approx_Normaliser_Sat", "Relative_Cost_Sat"]
CARDINAL_SATS = ["Additive_Cardinal_Sat", "Additive_Cardinal_Relative_Sat", "Cardinality_Sat", "Cost_Sat"]
ORDINAL_SATS = ["Additive_Borda_Sat", "Cardinality_Sat", "Cost_Sat"]
SOLVER_SATS = {"Relative_Cost_Sat", "Additive_Cardinal_Relative_Sat"}


# ----------------------------------------------------------------------------------------------
# solver guard of this property.  pb.install_solver_guard() validates 0/1 models EXACTLY on the float
# coefficients; the welfare ILP carries float images of rational data (fractional costs in the budget row,
# the float `== opt_value` row), so a correct CBC answer can miss such a row by 1e-17 and would be
# discarded as a fault (observed: 17 of 640 cases, all on constr(0)/constr(1) with fractional data).  This
# guard re-validates EVERY optimize() answer (also inside the integer-cut loop) against every row with an
# absolute tolerance of 1e-9 -- far below the gap between distinct values of the small rationals generated
# here, so the float model and the exact model have the same feasible 0/1 points -- and checks OPTIMAL /
# INFEASIBLE claims by enumerating all 0/1 points.  The final allocations are judged exactly, in Coq.
# ----------------------------------------------------------------------------------------------
GUARD = {"calls": 0, "faults": 0, "last_fault": None}
_BITS = {}


class SolverFault(BaseException):
    """raised out of the wrapped optimize() at the first invalid answer: the case is discarded anyway, and an
    invalid 'OPTIMAL' answer inside the library's `while True` cut loop could otherwise keep it spinning"""


def _bits(n):
    if n not in _BITS:
        _BITS[n] = list(itertools.product((0.0, 1.0), repeat=n))
    return _BITS[n]


def install_guard(tol=1e-9, max_vars=12):
    import mip

    if getattr(mip.Model, "_c04_guard", False):
        return
    orig = mip.Model.optimize

    def lin(expr, pos):
        co = [0.0] * len(pos)
        for v, c in expr.expr.items():
            co[pos[v.idx]] += float(c)
        return co, float(expr.const), expr.sense

    def bad(row, x):
        co, const, sense = row
        s = const
        for c, v in zip(co, x):
            if v:
                s += c
        if sense == "<":
            return s > tol
        if sense == ">":
            return s < -tol
        return abs(s) > tol

    def survivors(model, rows, nv):
        """0/1 points satisfying every row; rows are only ever appended by the code under test, so the
        points surviving the rows seen at the previous call of the same model are re-filtered by the new rows"""
        cache = getattr(model, "_c04_cache", None)
        if cache is None or cache[0] > len(rows) or cache[2] != nv:
            cache = (0, _bits(nv), nv)
        done, pts, _ = cache
        new = rows[done:]
        if new:
            pts = [y for y in pts if not any(bad(r, y) for r in new)]
        model._c04_cache = (len(rows), pts, nv)
        return pts

    def guard(self, *a, **k):
        GUARD["calls"] += 1
        st = orig(self, *a, **k)
        try:
            vars_ = list(self.vars)
            if not vars_ or any(v.var_type != mip.BINARY for v in vars_) or len(vars_) > max_vars:
                return st
            pos = {v.idx: i for i, v in enumerate(vars_)}
            rows = [lin(c.expr, pos) for c in self.constrs]
            fault = None
            if st in (mip.OptimizationStatus.OPTIMAL, mip.OptimizationStatus.FEASIBLE):
                x = []
                for v in vars_:
                    if v.x is None or abs(v.x - round(v.x)) > 1e-6:
                        fault = "no/non-integral value for " + v.name
                        break
                    x.append(float(round(v.x)))
                if fault is None:
                    for r, c in zip(rows, self.constrs):
                        if bad(r, x):
                            fault = "row violated: " + str(c.name)
                            break
                if fault is None and st == mip.OptimizationStatus.OPTIMAL:
                    oc, _, _ = lin(self.objective, pos)
                    sgn = 1.0 if self.sense == mip.MAXIMIZE else -1.0
                    cur = sum(c for c, v in zip(oc, x) if v)
                    for y in survivors(self, rows, len(vars_)):
                        if sgn * (sum(c for c, v in zip(oc, y) if v) - cur) > tol:
                            fault = "sub-optimal answer reported OPTIMAL"
                            break
            elif st == mip.OptimizationStatus.INFEASIBLE:
                if survivors(self, rows, len(vars_)):
                    fault = "INFEASIBLE reported for a feasible model"
            else:
                fault = "status " + str(st)
            if fault:
                GUARD["faults"] += 1
                GUARD["last_fault"] = fault
        except Exception as e:  # a failure of the guard itself is reported as a fault, never as a verdict
            GUARD["faults"] += 1
            GUARD["last_fault"] = "guard error " + repr(e)
        if GUARD["faults"]:
            raise SolverFault(GUARD["last_fault"])
        return st

    mip.Model.optimize = guard
    mip.Model._c04_guard = True


def budget(tier):
    return 2400 if tier == "quick" else 24000


def _subset_sum(rng, vals):
    k = rng.randrange(1, len(vals) + 1)
    return sum(rng.sample(vals, k), Fraction(0))


def _draw_ballot(rng, kind, n, prev):
    style = rng.randrange(6)
    if style == 0:
        appr = []
    elif style == 1:
        appr = list(range(n))
    elif style == 2 and prev:
        appr = list(rng.choice(prev)) if kind in ("approval", "ordinal") else [int(k) for k in rng.choice(prev)]
    else:
        appr = [j for j in range(n) if rng.random() < 0.5]
    if kind == "approval":
        return sorted(appr)
    if kind == "ordinal":
        appr = list(appr)
        rng.shuffle(appr)
        return appr
    # cardinal / cumulative scores may be negative (the property quantifies over them): a third of these ballots
    # carries negative or mixed-sign scores, so some projects get a negative TOTAL satisfaction
    neg = rng.random() < 0.35
    if kind == "cardinal":
        pool = [0, 1, 1, 2, 3, Fraction(1, 2), Fraction(2, 3)]
        if neg:
            pool = [-3, -2, -1, -1, Fraction(-1, 2), 0, 1, 2, 3, Fraction(2, 3)]
        return {str(j): pb.qs(rng.choice(pool)) for j in appr}
    # cumulative: absolute values sum to at most 1
    if appr:
        w = [rng.randrange(-3, 4) if neg else rng.randrange(0, 4) for _ in appr]
        t = sum(abs(x) for x in w) or 1
        return {str(j): pb.qs(Fraction(x, t)) for j, x in zip(appr, w)}
    return {}


# measures whose per-project value depends on the ballot and the instance only (not on the other voters, no
# solver): for these a satisfaction profile extended in place and one rebuilt from the extended profile agree
HIST_SATS = {"approval": ["Cardinality_Sat", "Cost_Sat", "Relative_Cardinality_Sat", "Relative_Cost_Approx_Normaliser_Sat"],
             "cardinal": ["Additive_Cardinal_Sat", "Cardinality_Sat", "Cost_Sat"],
             "cumulative": ["Additive_Cardinal_Sat", "Cardinality_Sat", "Cost_Sat"],
             "ordinal": ["Additive_Borda_Sat", "Cardinality_Sat", "Cost_Sat"]}


def gen(rng, i, tier):
    nmax = 8 if tier == "quick" else 10
    n = rng.choice([1, 2, 3, 3, 4, 4, 5, 5, 6, 6, 7, nmax, nmax])
    pool = rng.choice(POOLS)
    costs = [pb.F(rng.choice(pool)) for _ in range(n)]
    algo = [0, 0, 0, 1, 2, 2][i % 6]          # half PRIMAL_DUAL, a sixth ILP resolute, a third ILP irresolute
    kind = rng.choice(["approval"] * 5 + ["cardinal", "cardinal", "cumulative", "ordinal"])
    sat = rng.choice({"approval": APPROVAL_SATS, "cardinal": CARDINAL_SATS, "cumulative": CARDINAL_SATS,
                      "ordinal": ORDINAL_SATS}[kind])
    hard = i % 4 == 3
    near = i % 10 == 6       # near-tie / large-number stream (PRIMAL_DUAL only: CBC works in floats)
    hist = i % 5 == 4        # history stream: the same satisfaction profile object is extended and re-used
    if near:
        hard = False
        algo = 0
        n = rng.randrange(3, nmax + 1)
        big = 10 ** rng.choice([9, 12, 15, 15, 17, 17, 17])
        mixed = rng.random() < 0.5
        # weights = one large common part + small perturbations, so efficiencies agree to ~1e-9..1e-17 relative;
        # in the mixed variant some costs are mpq (thirds/sevenths) next to Python ints
        costs = []
        for _ in range(n):
            c = Fraction(big * rng.choice([1, 1, 2, 3]) + rng.randrange(-3, 4))
            if mixed and rng.random() < 0.4:
                c += Fraction(rng.randrange(1, 7), rng.choice([3, 7]))
            costs.append(c)
        kind, sat = rng.choice([("cardinal", "Additive_Cardinal_Sat"), ("cardinal", "Additive_Cardinal_Sat"),
                                ("approval", "Cost_Sat"), ("approval", "Cardinality_Sat")])
    if hard:
        # knapsacks whose profits are not correlated with the costs: the search improves its incumbent several
        # times and through both branches, which is what exercises a_star/b_star/x and the reconstruction loop
        n = rng.randrange(5, nmax + 1)
        den = rng.choice([1, 1, 2, 3, 6])
        costs = [Fraction(rng.randrange(2, 16), den) for _ in range(n)]
        kind, sat = "cardinal", rng.choice(["Additive_Cardinal_Sat", "Additive_Cardinal_Sat", "Additive_Cardinal_Relative_Sat"])
    if all(c == 0 for c in costs) and (algo != 0 or sat in SOLVER_SATS):
        costs[rng.randrange(n)] = Fraction(1)  # an all-zero knapsack row aborts CBC (excluded by the property)
    tot = sum(costs, Fraction(0))
    pos = [c for c in costs if c > 0]
    mode = rng.randrange(8)
    if mode == 0 and pos:
        b = min(pos)
    elif mode == 1:
        b = tot
    elif mode in (2, 3, 4):
        b = _subset_sum(rng, costs)
    elif mode == 5:
        b = tot * Fraction(rng.randrange(1, 8), 8)
    elif mode == 6:
        b = _subset_sum(rng, costs) + rng.choice([Fraction(1, 2), Fraction(1, 3), Fraction(1)])
    else:
        b = Fraction(rng.choice([1, 2, 3, 5]))
    if b <= 0:
        b = Fraction(1)
    edge = rng.randrange(40) if not near else 99
    if edge == 0:
        b = Fraction(0)                                  # zero budget: only free projects can be added
    elif edge == 1 and pos:
        b = min(pos) * rng.choice([Fraction(1, 2), Fraction(2, 3)])     # every priced project is unaffordable
    elif edge in (2, 3) and pos:
        b = rng.choice(pos)                              # budget exactly equal to one project's cost
    nv = rng.choice([0, 1, 2, 3, 3, 4, 5])
    ballots = []
    if near:
        nv = 0
        if kind == "cardinal":
            pbig = 10 ** rng.choice([9, 12, 15, 15, 17, 17, 17])
            for _ in range(rng.choice([1, 1, 2])):
                ballots.append({str(j): pb.qs(max(1, int((costs[j] + big // 2) // big)) * pbig + rng.randrange(-3, 4))
                                for j in range(n)})
        else:
            for _ in range(rng.choice([1, 2, 3])):
                ballots.append(sorted(j for j in range(n) if rng.random() < 0.8))
        k = rng.randrange(1, n + 1)
        b = sum(rng.sample(costs, k), Fraction(0)) + rng.choice([0, 0, 1, -1, Fraction(1, 3)])
        if b <= 0:
            b = costs[0]
    if hard:
        sden = rng.choice([1, 1, 2, 3])
        lo = rng.choice([0, 0, -4, -9])
        for _ in range(rng.choice([1, 1, 2, 3])):
            ballots.append({str(j): pb.qs(Fraction(rng.randrange(lo, 10), sden)) for j in range(n) if rng.random() < 0.85})
        nv = 0
        if rng.random() < 0.5:
            b = tot * Fraction(rng.randrange(2, 7), 8)
    for _ in range(nv):
        ballots.append(_draw_ballot(rng, kind, n, ballots))
    late, hmode = None, None
    if hist and not near:
        if sat not in HIST_SATS[kind]:
            sat = "Additive_Cardinal_Sat" if hard else rng.choice(HIST_SATS[kind])
        # late voters, usually several copies of few ballots so that the totals (and the optimum) really move
        late = []
        for _ in range(rng.choice([1, 1, 2, 3])):
            bl = _draw_ballot(rng, kind, n, ballots + late)
            if hard:
                bl = {str(j): pb.qs(Fraction(rng.randrange(0, 10))) for j in range(n) if rng.random() < 0.6}
            late += [bl] * rng.choice([1, 2, 3, 5])
        hmode = rng.choice(["append", "extend"])
        if rng.random() < 0.3:
            ballots = []          # first call on an empty satisfaction profile
    if sat == "Relative_Cost_Sat":
        # its normaliser solves a knapsack over the ballot: an all-zero row aborts CBC (excluded by the property)
        posj = [j for j in range(n) if costs[j] > 0]
        for bl in ballots:
            if bl and all(costs[j] == 0 for j in bl):
                bl.append(rng.choice(posj))
                bl.sort()
    # a feasible initial allocation
    init = []
    if rng.random() < 0.4:
        cand = list(range(n))
        rng.shuffle(cand)
        used = Fraction(0)
        for j in cand[: rng.randrange(0, n + 1)]:
            if used + costs[j] <= b and rng.random() < 0.7:
                init.append(j)
                used += costs[j]
    if algo != 0 and all(costs[j] == 0 for j in range(n) if j not in init):
        # ILP: keep one undecided project of positive cost (no variables / all-zero row otherwise)
        posj = [j for j in range(n) if costs[j] > 0]
        keep = rng.choice(posj)
        init = [j for j in init if j != keep]
    if algo == 2 and n > 7 and not any(ballots):
        algo = 1        # nobody votes: every feasible subset is optimal (up to 2^n solver calls) -- keep those small
    order = list(range(n))
    rng.shuffle(order)
    # the FORM in which the initial allocation is handed over (the signature allows any iterable of projects; one-shot
    # iterables must not be consumed before they are copied) and whether inner_algo is given or left to its default
    forms = ["list", "list", "tuple", "set", "gen", "iter", "map", "balloc"] + ([] if init else ["none", "none"])
    init_form = rng.choice(forms)
    algo_arg = "default" if algo in (0, 2) and rng.random() < 0.3 else "explicit"
    case = {"init_form": init_form, "algo_arg": algo_arg}
    case.update({"costs": [pb.qs(c) for c in costs], "budget": pb.qs(b), "kind": kind, "sat": sat, "ballots": ballots,
            "multi": rng.random() < 0.4, "init": init, "algo": algo, "order": order,
            "via": rng.choice(["class", "profile"]) if sat not in SOLVER_SATS else "profile",
            "solver": algo != 0 or sat in SOLVER_SATS})
    if late is not None:
        case.update(late=late, hmode=hmode, via="profile")
    if near:
        case["near"] = True
    return case


def impl(case):
    import pabutools.election as el
    from pabutools.rules.maxwelfare import max_additive_utilitarian_welfare, MaxAddUtilWelfareAlgo

    n = len(case["costs"])
    inst, projs = pb.make_instance(case["costs"], case["budget"], case["order"])
    prof = pb.make_profile(case["kind"], inst, projs, case["ballots"], case["multi"])
    sat_class = getattr(el, case["sat"])
    import time
    t0 = time.time()
    if case.get("solver"):
        install_guard()
        GUARD.update(calls=0, faults=0, last_fault=None)
    out = {}
    algo = case["algo"]
    init = [projs[j] for j in case["init"]]

    def init_arg():
        form = case.get("init_form", "list")
        if form == "none" and not init:
            return None
        if form == "tuple":
            return tuple(init)
        if form == "set":
            return set(init)
        if form == "gen":
            return (p for p in init)
        if form == "iter":
            return iter(list(init))
        if form == "map":
            return map(lambda p: p, init)
        if form == "balloc":
            from pabutools.rules.budgetallocation import BudgetAllocation
            return BudgetAllocation(init)
        return list(init)

    def call(sat_profile, via):
        kw = {"sat_profile": sat_profile} if via == "profile" else {"sat_class": sat_class}
        if case.get("algo_arg") != "default" or algo == 1:
            kw["inner_algo"] = MaxAddUtilWelfareAlgo.PRIMAL_DUAL if algo == 0 else MaxAddUtilWelfareAlgo.ILP_SOLVER
        res = max_additive_utilitarian_welfare(
            inst, prof, resoluteness=(algo != 2), initial_budget_allocation=init_arg(), **kw)
        return [pb.ranks(a) for a in res] if algo == 2 else [pb.ranks(res)]

    def totals(sat_profile):
        return [core.qj(sat_profile.total_satisfaction_project(projs[j])) for j in range(n)]

    try:
        sp = prof.as_sat_profile(sat_class)
        if case.get("late") is None:
            out["score"] = totals(sp)
            out["enum"] = pb.ranks(list(inst))
            out["out"] = call(sp, case["via"])
        else:
            # HISTORY: call 1, extend profile and satisfaction profile IN PLACE, call 2 and 3 on the same objects
            out["score1"] = totals(sp)
            out["out1"] = call(sp, "profile")
            late_prof = pb.make_profile(case["kind"], inst, projs, case["late"], False)
            if case["hmode"] == "append":
                for bl in late_prof:
                    b2 = bl.frozen() if case["multi"] else bl
                    prof.append(b2)
                    sp.append(sat_class(inst, prof, b2))
            else:
                if case["multi"]:
                    prof.extend(late_prof)
                else:
                    prof += late_prof
                sp.extend_from_profile(late_prof, sat_class)
            out["enum"] = pb.ranks(list(inst))
            out["out"] = call(sp, "profile")
            out["out_again"] = call(sp, "profile")
            out["score_inplace"] = totals(sp)
            out["score"] = totals(prof.as_sat_profile(sat_class))      # FRESH satisfaction profile of the final election
    except SolverFault as e:
        out["solver_fault"] = str(e)
        return out
    if case.get("solver"):
        out["solver_calls"] = GUARD["calls"]
        if GUARD["faults"]:
            out["solver_fault"] = GUARD["last_fault"]
    out["t"] = round(time.time() - t0, 3)
    return out


HIST_FIRST, HIST_REPEAT, HIST_TOTALS = 90, 91, 92


def _hist_fail(case, o):
    """python-side judgement of the parts of a history the case file does not carry: call 1 against the election as
    it was then, the repeated call 3 against call 2, in-place totals against a freshly built satisfaction profile"""
    o1 = {"out": o["out1"], "score": o["score1"]}
    code = py_oracle(case, o1)
    if code:
        return HIST_FIRST
    sc = [pb.F(x) for x in o["score"]]
    wel = lambda W: sum((sc[j] for j in W), Fraction(0))
    if case["algo"] == 2:
        if sorted(sorted(W) for W in o["out"]) != sorted(sorted(W) for W in o["out_again"]):
            return HIST_REPEAT
    elif len(o["out_again"]) != 1 or len(o["out"]) != 1 or wel(o["out"][0]) != wel(o["out_again"][0]) or (
            case["algo"] == 0 and sorted(o["out"][0]) != sorted(o["out_again"][0])):
        return HIST_REPEAT
    if o["score_inplace"] != o["score"]:
        return HIST_TOTALS
    return 0


def post(cases, obs):
    cases, obs = core.default_post(cases, obs)
    for c, o in zip(cases, obs):
        if isinstance(o, dict) and c.get("late") is not None and "out_again" in o and not o.get("discard") \
                and "py_fail" not in o:
            code = _hist_fail(c, o)
            if code:
                o["py_fail"] = code
    return cases, obs


def coq_case(case, o):
    return "(mkCase %s %s %s %s %s %d%%nat %s)" % (
        core.qlist(case["costs"]), q(case["budget"]), core.qlist(o["score"]), natl(o["enum"]),
        natl(case["init"]), case["algo"], lst([natl(a) for a in o["out"]]))


def _completions(case, o):
    """(welfare, subset) of every feasible allocation extending init -- evidence/statistics only"""
    costs = [pb.F(c) for c in case["costs"]]
    score = [pb.F(s) for s in o["score"]]
    b = pb.F(case["budget"])
    init = case["init"]
    rest = [j for j in range(len(costs)) if j not in init]
    base_c = sum((costs[j] for j in init), Fraction(0))
    base_w = sum((score[j] for j in init), Fraction(0))
    res = []
    for r in range(len(rest) + 1):
        for S in itertools.combinations(rest, r):
            if base_c + sum((costs[j] for j in S), Fraction(0)) <= b:
                res.append((base_w + sum((score[j] for j in S), Fraction(0)), S))
    return res


def nontrivial(case, o):
    if not isinstance(o, dict) or "out" not in o:
        return None
    comp = _completions(case, o)
    ws = {w for w, _ in comp}
    if len(ws) >= 2 and max(ws) > 0:
        return [case["costs"], case["budget"], o["score"], case["init"], case["algo"]]
    return None


def stats(cases, obs):
    d = {"algo_pd": 0, "algo_ilp_resolute": 0, "algo_ilp_irresolute": 0, "fractional_costs": 0,
         "fractional_scores": 0, "zero_cost_project": 0, "zero_cost_with_supporters": 0,
         "zero_cost_without_supporters": 0, "zero_profit_project": 0, "negative_total_satisfaction": 0,
         "negative_total_positive_cost_undecided": 0, "negative_total_zero_cost_undecided": 0,
         "negative_total_in_initial_allocation": 0, "all_undecided_totals_negative": 0, "nonempty_init": 0, "init_form_hist": {}, "nonempty_init_one_shot_iterable": 0,
         "inner_algo_left_to_default": 0, "via_sat_class": 0, "zero_budget": 0, "all_priced_undecided_unaffordable": 0,
         "budget_equals_a_project_cost": 0, "single_project": 0, "multiprofile": 0,
         "tied_optima>=2": 0, "greedy_prefix_not_optimal": 0, "budget_is_subset_sum": 0,
         "equal_efficiency_pair": 0, "pd_nothing_to_decide": 0, "history": 0, "history_multiprofile": 0,
         "history_first_answer_no_longer_optimal": 0, "history_first_call_on_empty_profile": 0, "near_tie_large": 0,
         "near_tie_mixed_int_mpq": 0, "near_tie_second_best_within_1e-9": 0, "nproj_hist": {}, "sat_hist": {}, "kind_hist": {}, "irresolute_sizes": {}}
    for c, o in zip(cases, obs):
        if not isinstance(o, dict) or "out" not in o:
            continue
        d[["algo_pd", "algo_ilp_resolute", "algo_ilp_irresolute"][c["algo"]]] += 1
        cs = [pb.F(x) for x in c["costs"]]
        sc = [pb.F(x) for x in o["score"]]
        d["fractional_costs"] += any(x.denominator != 1 for x in cs)
        d["fractional_scores"] += any(x.denominator != 1 for x in sc)
        und = [j for j in range(len(cs)) if j not in c["init"]]
        d["zero_cost_project"] += any(cs[j] == 0 for j in und)
        d["zero_cost_with_supporters"] += any(cs[j] == 0 and sc[j] > 0 for j in und)
        d["zero_cost_without_supporters"] += any(cs[j] == 0 and sc[j] == 0 for j in und)
        d["zero_profit_project"] += any(cs[j] > 0 and sc[j] == 0 for j in und)
        d["negative_total_satisfaction"] += any(x < 0 for x in sc)
        d["negative_total_positive_cost_undecided"] += any(cs[j] > 0 and sc[j] < 0 for j in und)
        d["negative_total_zero_cost_undecided"] += any(cs[j] == 0 and sc[j] < 0 for j in und)
        d["negative_total_in_initial_allocation"] += any(sc[j] < 0 for j in c["init"])
        d["all_undecided_totals_negative"] += bool(und) and all(sc[j] < 0 for j in und)
        d["pd_nothing_to_decide"] += c["algo"] == 0 and not any(cs[j] > 0 for j in und)
        d["nonempty_init"] += bool(c["init"])
        frm = c.get("init_form", "list")
        d["init_form_hist"][frm] = d["init_form_hist"].get(frm, 0) + 1
        d["nonempty_init_one_shot_iterable"] += bool(c["init"]) and frm in ("gen", "iter", "map")
        d["inner_algo_left_to_default"] += c.get("algo_arg") == "default"
        d["via_sat_class"] += c.get("via") == "class"
        bq = pb.F(c["budget"])
        left = bq - sum((cs[j] for j in c["init"]), Fraction(0))
        d["zero_budget"] += bq == 0
        d["all_priced_undecided_unaffordable"] += any(cs[j] > 0 for j in und) and all(cs[j] > left for j in und if cs[j] > 0)
        d["budget_equals_a_project_cost"] += any(x == bq and x > 0 for x in cs)
        d["single_project"] += len(cs) == 1
        d["multiprofile"] += bool(c["multi"])
        comp = _completions(c, o)
        if c.get("late") is not None and comp:
            d["history"] += 1
            d["history_multiprofile"] += bool(c["multi"])
            d["history_first_call_on_empty_profile"] += not c["ballots"]
            mx0 = max(w for w, _ in comp)
            d["history_first_answer_no_longer_optimal"] += any(
                sum((sc[j] for j in W), Fraction(0)) < mx0 for W in o.get("out1", []))
        if c.get("near") and comp:
            d["near_tie_large"] += 1
            d["near_tie_mixed_int_mpq"] += any(x.denominator != 1 for x in cs) and any(x.denominator == 1 for x in cs)
            ws = sorted({w for w, _ in comp}, reverse=True)
            d["near_tie_second_best_within_1e-9"] += len(ws) > 1 and ws[0] > 0 and (ws[0] - ws[1]) / ws[0] < Fraction(1, 10 ** 9)
        if comp:
            mx = max(w for w, _ in comp)
            d["tied_optima>=2"] += sum(1 for w, _ in comp if w == mx) >= 2
            b = pb.F(c["budget"])
            d["budget_is_subset_sum"] += any(
                sum((cs[j] for j in S), Fraction(0)) + sum((cs[j] for j in c["init"]), Fraction(0)) == b
                for _, S in comp if S)
            # greedy by efficiency (the split solution) is not optimal => the search had to branch
            items = sorted([j for j in und if cs[j] > 0], key=lambda j: -(sc[j] / cs[j]))
            cap = b - sum((cs[j] for j in c["init"]), Fraction(0))
            gw = sum((sc[j] for j in c["init"]), Fraction(0)) + sum((sc[j] for j in und if cs[j] == 0), Fraction(0))
            for j in items:
                if cs[j] <= cap:
                    cap -= cs[j]
                    gw += sc[j]
                else:
                    break
            d["greedy_prefix_not_optimal"] += gw < mx
            effs = [sc[j] / cs[j] for j in und if cs[j] > 0]
            d["equal_efficiency_pair"] += len(set(effs)) < len(effs)
        for key, val in (("nproj_hist", len(cs)), ("sat_hist", c["sat"]), ("kind_hist", c["kind"])):
            d[key][str(val)] = d[key].get(str(val), 0) + 1
        if c["algo"] == 2:
            k = str(len(o["out"]))
            d["irresolute_sizes"][k] = d["irresolute_sizes"].get(k, 0) + 1
    return d


def py_oracle(case, o):
    """fallback used by the driver only when the Coq side does not build: the same judgement in Python"""
    if not isinstance(o, dict) or "out" not in o:
        return 0
    comp = _completions(case, o)
    if not comp:
        return 0
    costs = [pb.F(c) for c in case["costs"]]
    score = [pb.F(x) for x in o["score"]]
    mx = max(w for w, _ in comp)
    for W in o["out"]:
        if len(set(W)) != len(W) or any(not 0 <= j < len(costs) for j in W):
            return 1
        if sum((costs[j] for j in W), Fraction(0)) > pb.F(case["budget"]):
            return 2
        if not set(case["init"]) <= set(W):
            return 3
        if sum((score[j] for j in W), Fraction(0)) < mx:
            return 4
    if case["algo"] == 2:
        want = sorted(sorted(list(S) + case["init"]) for w, S in comp if w == mx)
        if sorted(sorted(W) for W in o["out"]) != want:
            return 5
    elif len(o["out"]) != 1:
        return 7
    return 0


def describe(case, o, code):
    if not isinstance(o, dict) or "out" not in o:
        return {}
    comp = _completions(case, o)
    if not comp:
        return {}
    mx = max(w for w, _ in comp)
    return {"brute_force_maximum": pb.qs(mx),
            "all_optima": [sorted(list(S) + case["init"]) for w, S in comp if w == mx],
            "returned": o["out"], "scores": o["score"]}


def shrink(case):
    n = len(case["costs"])
    # drop a project
    if n > 1:
        for j in range(n):
            c = dict(case)
            ren = lambda W: [x - (x > j) for x in W if x != j]
            c["costs"] = case["costs"][:j] + case["costs"][j + 1:]
            c["order"] = ren(case["order"])
            c["init"] = ren(case["init"])
            for key in ("ballots", "late"):
                if case.get(key) is None:
                    continue
                if case["kind"] in ("approval", "ordinal"):
                    c[key] = [ren(b) for b in case[key]]
                else:
                    c[key] = [{str(int(k) - (int(k) > j)): v for k, v in b.items() if int(k) != j}
                              for b in case[key]]
            if c["solver"] and all(pb.F(x) == 0 for jj, x in enumerate(c["costs"]) if jj not in c["init"]):
                continue
            yield c
    # drop a voter
    for v in range(len(case["ballots"])):
        c = dict(case)
        c["ballots"] = case["ballots"][:v] + case["ballots"][v + 1:]
        yield c
    for v in range(len(case.get("late") or [])):
        if len(case["late"]) > 1:
            c = dict(case)
            c["late"] = case["late"][:v] + case["late"][v + 1:]
            yield c
    # empty initial allocation, list profile, sorted insertion order
    if case["init"]:
        c = dict(case)
        c["init"] = []
        yield c
    if case["multi"]:
        c = dict(case)
        c["multi"] = False
        yield c
    if case.get("init_form", "list") not in ("list", "gen"):
        for frm in ("list", "gen"):
            c = dict(case)
            c["init_form"] = frm
            yield c
    if case.get("algo_arg") == "default":
        c = dict(case)
        c["algo_arg"] = "explicit"
        yield c
    if case["order"] != sorted(case["order"]):
        c = dict(case)
        c["order"] = sorted(case["order"])
        yield c
