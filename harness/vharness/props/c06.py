"""C06 -- profiles and multiprofiles are interchangeable.

Every case is one generated election in which at least one ballot is cast by two or more voters.  The harness makes
the SAME library call twice -- on the list Profile and on profile.as_multiprofile() -- canonicalises both results
(sets of projects; exact rationals; floats by their exact binary value) and hands the pairs to Coq (Oracle/C06.v),
where they are compared (oracle code = function family).  For approval elections a few calls are additionally
compared with the Gallina models evaluated on the (ballot, multiplicity) classes and on the list of voters."""
from __future__ import annotations

import itertools
from fractions import Fraction

from .. import core
from ..core import q, lst, natl, boolc, pair
from .. import pb
from .. import elections as el

ID = "C06"
ORACLE = "Oracle.C06"
PROPS = ["Props/C06.v", "Props/C06mes.v"]
LEVEL = "proof"
SHARD = 60

# ------------------------------------------------------------------------------------------------
# failure codes (shared with Oracle/C06.v: an entry carries its own code)
# ------------------------------------------------------------------------------------------------
GREEDY, MAXW, MES, MESITER, PHRAG, COMPL, EXHAUST, POPCMP, SWCMP = 10, 11, 12, 13, 14, 15, 16, 17, 18
GREEDY_FLOAT = 19
SATPROJ, SATSET, SATPROFILE, SATSOLVER = 20, 21, 22, 23
AVGLEN, MEDLEN, AVGCOST, MEDCOST, AVGAPP, MEDAPP, AVGTOT, MEDTOT, VOTES_COUNT, VOTER_FLOW = range(30, 40)
AVGSAT, NEH, POSSAT, GINI, GINI_INV, HIST, CATPROP, PROJLOSS, EFFSUP, PROFMETH = range(40, 50)
COHESIVE, MAXCOHESIVE, CORE, JR_APP, JR_CARD, PARTYLIST = 50, 51, 52, 53, 54, 55
HIST_LIST, HIST_FRESH = 60, 61
TIEBREAK = 56

_NAMES = {
    GREEDY: "greedy_utilitarian_welfare", MAXW: "max_additive_utilitarian_welfare (welfare of the outcome)",
    MES: "method_of_equal_shares", MESITER: "method_of_equal_shares(voter_budget_increment=...)",
    PHRAG: "sequential_phragmen", COMPL: "completion_by_rule_combination", EXHAUST: "exhaustion_by_budget_increase",
    POPCMP: "popularity_comparison", SWCMP: "social_welfare_comparison",
    GREEDY_FLOAT: "a rule run with a float-valued satisfaction measure (Cost_Sqrt/Cost_Log family)",
    SATPROJ: "SatisfactionMeasure.sat_project of a voter", SATSET: "SatisfactionMeasure.sat of a voter",
    SATPROFILE: "as_sat_profile(...): satisfaction objects with multiplicities / total_satisfaction / "
                "total_satisfaction_project",
    SATSOLVER: "a solver-backed satisfaction measure (Relative_Cost_Sat, Additive_Cardinal_Relative_Sat) of a voter",
    AVGLEN: "avg_ballot_length", MEDLEN: "median_ballot_length", AVGCOST: "avg_ballot_cost", MEDCOST: "median_ballot_cost",
    AVGAPP: "avg_approval_score", MEDAPP: "median_approval_score", AVGTOT: "avg_total_score", MEDTOT: "median_total_score",
    VOTES_COUNT: "votes_count_by_project", VOTER_FLOW: "voter_flow_matrix",
    AVGSAT: "avg_satisfaction", NEH: "percent_non_empty_handed", POSSAT: "percent_positive_satisfaction",
    GINI: "gini_coefficient_of_satisfaction", GINI_INV: "gini_coefficient_of_satisfaction(invert=True)",
    HIST: "satisfaction_histogram", CATPROP: "category_proportionality", PROJLOSS: "calculate_project_loss",
    EFFSUP: "calculate_effective_supports",
    PROFMETH: "a profile method (num_ballots, approval_score, approved_projects, is_trivial, total_score)",
    PARTYLIST: "AbstractApprovalProfile.is_party_list",
    TIEBREAK: "a shipped tie-breaking rule (TieBreakingRule.order / untie: the ORDER of the projects)",
    HIST_LIST: "a MultiProfile edited in place (del/pop/popitem/clear/subtract/-=/&=/|=/+=/[]=/append/extend/update/"
               "setdefault) after having been queried",
    HIST_FRESH: "a MultiProfile edited in place after having been queried, against a FRESH as_multiprofile() of the same voters:",
    COHESIVE: "cohesive_groups (as a set of (distinct ballots, projects) pairs)",
    MAXCOHESIVE: "maximal_cohesive_groups (not asked: not a public analysis function)", CORE: "is_in_core",
    JR_APP: "an approval JR checker (is_[strong_]EJR/PJR[_any/_one]_approval)",
    JR_CARD: "a cardinal JR checker (is_[strong_]EJR/PJR[_any/_one]_cardinal)",
}
_SHORT = {k: v.split(" (")[0].split("(")[0] for k, v in _NAMES.items()}
_SHORT.update({GREEDY_FLOAT: "rule with a float-valued measure", SATPROFILE: "as_sat_profile", SATSOLVER: "solver-backed measure",
               PROFMETH: "profile method", JR_APP: "approval JR checkers", JR_CARD: "cardinal JR checkers",
               MESITER: "method_of_equal_shares (iterated)", SATPROJ: "sat_project", SATSET: "sat",
               HIST_LIST: "history: edited multiprofile vs edited list profile",
               HIST_FRESH: "history: edited multiprofile vs fresh multiprofile"})
CODES = {1: ("model", "generator error: no ballot of the multiprofile has multiplicity >= 2")}
for _k, _n in _NAMES.items():
    CODES[_k] = ("oracle", "%s answers differently on profile and on profile.as_multiprofile()" % _n)
CODES[HIST_LIST] = ("oracle", _NAMES[HIST_LIST] + " answers differently from the list profile whose voters were removed/added alike")
CODES[HIST_FRESH] = ("oracle", _NAMES[HIST_FRESH] + " the two equal multiprofiles answer differently")
CODES[210] = ("model", "greedy_utilitarian_welfare differs from Model/GreedyRule.v evaluated on the classes / on the voters")
CODES[214] = ("model", "sequential_phragmen differs from Model/Phragmen.v evaluated on the classes / on the voters")
CODES[220] = ("model", "Effort_Sat.sat_project differs from Model/Satisfaction.v evaluated on the classes / on the voters")
CODES[230] = ("model", "avg_ballot_length differs from Model/Analysis.v evaluated on the classes / on the voters")
CODES[249] = ("model", "approval_score differs from Model/Analysis.v evaluated on the classes / on the voters")
CODES[core.RAISED] = ("oracle", "the harness call raised outside the per-call guards / the interpreter died")

RULE = ("elections with 1..6 projects (tie-rich cost pools: zeros, equal costs, halves/thirds, one project dearer than the "
        "budget), 2..7 voters of whom at least two cast the same ballot (often several classes of multiplicity >= 2, empty "
        "and full ballots), all four ballot types; the same call on the Profile and on as_multiprofile(): greedy (all "
        "measures, 5 tie-breaking rules, resolute/irresolute, initial allocations), welfare maximiser (primal/dual; "
        "ILP in solver cases), Equal Shares plain/iterated, Phragmen (initial loads per class), completion, budget "
        "increase, popularity/social-welfare comparison; every shipped satisfaction measure per voter (sat_project of "
        "every project, sat of subsets, satisfaction profiles); every public function of pabutools.analysis that takes a "
        "profile (statistics, voter satisfaction, category proportionality, Equal Shares analytics, cohesive groups, core, "
        "JR checkers on <=4 voters/<=4 projects); HISTORY stream: the multiprofile is queried, then edited IN PLACE by every "
        "Counter/dict path (del, pop, popitem, clear, subtract, -=, &=, |=, +=, []=, append, extend, update, setdefault; 2..5 "
        "edits, a query after each) while the same voters are removed from / appended to the list profile, and must keep "
        "answering like the list profile and like a fresh conversion of it; TIES stream: approval elections built so that "
        "two projects tie inside greedy / Equal Shares (Cardinality_Sat) and Phragmen (cost proportional to approval score) "
        "while the one with MORE voters has FEWER distinct ballots, run under app_score tie-breaking (budget admits one of the "
        "two), plus order()/untie() of the four shipped tie-breaking rules on both objects; non-trivial = distinct election with >=2 distinct ballots, a multiplicity "
        ">=2 and at least one call whose result is not empty/zero")
ASSUMPTIONS = [
    "hand-written Gallina models tied to the code by differential execution only",
    "gmpy2 mpq arithmetic = exact Q",
    "float-valued results (medians, histograms, np.exp, Cost_Sqrt/Cost_Log measures) are compared within 1e-9: a test",
    "solver-backed measures and the ILP welfare maximiser run in separate cases; invalid CBC answers/crashes are discarded",
]
TRUSTED = ["canonicalisation of the library's return values in props/c06.py (sets of ranks, rank-ordered vectors)",
           "Model/{Phragmen,GreedyRule,MesRule,MaxWelfare,Analysis,Satisfaction}.v mirror the Python (modelled, not verified)"]
EXPLANATION = ("Theorems (unbounded, on the Gallina models): Phragmen and the greedy rule return the same allocation on "
               "(ballot, multiplicity) classes and on the expanded list of voters; total satisfaction, approval scores, "
               "Equal Shares' total utility / available budget / share, the welfare maximiser's scores computed with "
               "multiplicities equal the sums over the voters; every statistic of pabutools.analysis on classes equals "
               "the statistic on the expanded list (means, medians, Gini, histogram, shares, scores); Effort_Sat's "
               "denominator is the number of voters.  Tie: every call is made on the Profile and on the MultiProfile and "
               "the canonical results are compared inside Coq; for approval elections Phragmen, greedy, approval scores, "
               "average ballot length and Effort_Sat are also compared with the models on classes and on voters.")

EXC_TAGS = {"ValueError": 1, "TypeError": 2, "ZeroDivisionError": 3, "NotImplementedError": 4, "KeyError": 5,
            "IndexError": 6, "AttributeError": 7, "RuntimeError": 8, "TimeoutError": 9, "OverflowError": 10,
            "AssertionError": 11, "RecursionError": 12, "StopIteration": 13}

# functions with a recorded multiprofile finding: asked on a bounded number of cases only (core.py inspects the first 40
# oracle failures of a run; known findings must not crowd out a new violation)
BOUNDED = {VOTES_COUNT, VOTER_FLOW}
FLOAT_SATS = {"Additive_Cost_Sqrt_Sat", "Additive_Cost_Log_Sat", "Cost_Sqrt_Sat", "Cost_Log_Sat"}
KINDS = ["rules", "sat", "analysis", "history", "composite", "analysis", "rules", "jr",
         "rules", "sat", "analysis", "history", "composite", "analysis", "ties", "solver"]
HIST_OPS = ["del", "pop", "popitem", "clear", "subtract_map", "subtract_iter", "isub", "iand", "ior", "iadd", "set",
            "append", "extend", "update_map", "update_iter", "setdefault"]


def budget(tier):
    return 1120 if tier == "quick" else 8000


# ------------------------------------------------------------------------------------------------
# generation
# ------------------------------------------------------------------------------------------------
def _bkey(b):
    return repr(sorted(b.items())) if isinstance(b, dict) else repr(b)


def _copy(b):
    return dict(b) if isinstance(b, dict) else list(b)


def _election(rng, max_proj, max_voters, btypes=("approval", "cardinal", "cumulative", "ordinal"), allow_zero=True):
    e = el.gen_election(rng, max_proj=max_proj, max_voters=max_voters, btypes=btypes, min_proj=1, allow_zero=allow_zero)
    e.pop("multi", None)
    bs = e["ballots"]
    if e["btype"] == "approval":
        bs = [sorted(b) for b in bs]
    n = len(e["costs"])
    # mostly at least two distinct ballots (a single class of equal ballots stays in as a degenerate stream)
    for _ in range(4):
        if len({_bkey(b) for b in bs}) >= 2 or rng.random() < 0.08:
            break
        for b in el.gen_ballots(rng, e["btype"], n, 2):
            b = sorted(b) if e["btype"] == "approval" else b
            if _bkey(b) not in {_bkey(x) for x in bs}:
                bs.append(b)
    # at least one ballot cast twice; frequently several repeated classes
    extra = rng.choice([0, 0, 1, 1, 2, 3])
    for _ in range(extra):
        bs.append(_copy(rng.choice(bs)))
    if len({_bkey(b) for b in bs}) == len(bs):
        bs.append(_copy(rng.choice(bs)))
    while len(bs) > max_voters + 2:
        # drop a ballot but keep a repeated one
        j = rng.randrange(len(bs))
        rest = bs[:j] + bs[j + 1:]
        if len({_bkey(b) for b in rest}) < len(rest):
            bs = rest
        else:
            break
    rng.shuffle(bs)
    e["ballots"] = bs
    return e


def _sats(btype, additive=None, solver=False, floats=True):
    out = []
    for name, (add, solv) in el.SATS[btype].items():
        if solv != solver:
            continue
        if additive is not None and add != additive:
            continue
        if not floats and name in FLOAT_SATS:
            continue
        out.append(name)
    return out


def _tb(rng, btype, n):
    name = rng.choice(el.TIE_BREAKS if btype == "approval" else [t for t in el.TIE_BREAKS if t != "app_score"])
    perm = list(range(n))
    rng.shuffle(perm)
    return [name, perm]


def _init(rng, e, p=0.3):
    return el.feasible_subset(rng, e["costs"], e["budget"]) if rng.random() < p else []


def _rule_call(rng, e, allowed=None):
    bt, n = e["btype"], len(e["costs"])
    fams = ["greedy", "greedy", "greedy", "mes", "mes", "mesiter", "maxw"]
    if bt == "approval":
        fams += ["phragmen", "phragmen"]
    if allowed:
        fams = [f for f in fams if f in allowed]
    f = rng.choice(fams)
    B = pb.F(e["budget"])
    c = {"f": f, "tb": _tb(rng, bt, n), "res": rng.random() < 0.65, "init": _init(rng, e)}
    if f == "greedy":
        c["sat"] = rng.choice(_sats(bt) if rng.random() < 0.85 else _sats(bt, floats=True))
    elif f == "maxw":
        c["sat"] = rng.choice(_sats(bt, additive=True, floats=rng.random() < 0.15))
        c["res"] = True
    elif f in ("mes", "mesiter"):
        c["sat"] = rng.choice(_sats(bt, additive=True, floats=rng.random() < 0.1))
        if f == "mesiter":
            nv = len(e["ballots"])
            c["inc"] = pb.qs(rng.choice([Fraction(1), Fraction(1, 2), Fraction(1, 3), B / (4 * nv), B / (2 * nv),
                                         Fraction(1, 5)]))
            c["res"] = rng.random() < 0.8
    else:
        c["loads"] = None
        if rng.random() < 0.3:
            c["loads"] = "per-class"
            c["loadvals"] = [pb.qs(rng.choice([0, 0, 1, "1/2", "1/3", 2])) for _ in range(len(e["ballots"]))]
    return c


def _params_call(rng, e, fam):
    """a (rule, params) pair of a rule sequence (completion / comparison / budget increase)"""
    bt = e["btype"]
    c = {"f": fam}
    if fam != "phragmen":
        c["sat"] = rng.choice(_sats(bt, additive=True, floats=False))
    return c


def _composite_call(rng, e):
    bt, n = e["btype"], len(e["costs"])
    B = pb.F(e["budget"])
    fams = ["mes", "greedy"] + (["phragmen"] if bt == "approval" else [])
    f = rng.choice(["completion", "exhaustion", "popularity", "welfare"])
    c = {"f": f, "init": _init(rng, e, 0.2)}
    if f == "completion":
        k = rng.choice([1, 2, 2, 3])
        c["rules"] = [_params_call(rng, e, "mes" if j == 0 and rng.random() < 0.7 else rng.choice(fams)) for j in range(k)]
        c["res"] = rng.random() < 0.6
    elif f == "exhaustion":
        c["rule"] = _params_call(rng, e, rng.choice(["mes", "mes", "mes"] + fams))
        s = rng.choice([Fraction(1), Fraction(1, 2), B / 4, B / 10, Fraction(2, 3)])
        c["step"] = pb.qs(s)
        c["bound"] = rng.choice([None, pb.qs(B * 2), pb.qs(B + 3 * s), pb.qs(B * 3 + Fraction(1, 7))])
        if c["bound"] is None and s * 60 < B * 4:
            c["bound"] = pb.qs(B * 3)
        c["stop"] = rng.random() < 0.8
        c["res"] = rng.random() < 0.7
    else:
        k = rng.choice([2, 2, 3])
        c["rules"] = [_params_call(rng, e, rng.choice(fams)) for _ in range(k)]
        c["sat"] = rng.choice(_sats(bt, floats=False))
    return c


def _subsets(rng, n, k):
    out = [[], list(range(n))]
    for _ in range(k):
        out.append(sorted(rng.sample(range(n), rng.randrange(0, n + 1))))
    seen = []
    for s in out:
        if s not in seen:
            seen.append(s)
    return seen


def _ties_election(rng):
    """An approval election in which projects A and B are tied inside greedy/Equal Shares (Cardinality_Sat) and Phragmen
    -- cost proportional to the approval score: same satisfaction density, same rho, same purchase time -- while A has MORE
    supporters on FEWER distinct ballots (repeated ballots) than B, so that a tie-breaking key which forgot the
    multiplicities would rank them the other way round; the budget lets only one of the two in (mostly)."""
    if rng.random() < 0.35:
        # Equal Shares variant: x voters approve both A and B; A has k further voters on ONE ballot {A}, B has dB < k further
        # voters on dB distinct ballots.  Everybody can pay u = cost/score, so rho is u for both; after A is bought the
        # common voters cannot pay for B any more (money per voter = u * (1 + 1/(2n))): the order decides the outcome.
        x = rng.choice([1, 1, 2])
        k = rng.choice([3, 4, 5])
        dB = rng.randrange(2, k)
        u = pb.F(rng.choice([1, 1, "1/2", 2, "2/3"]))
        A, Bp = (0, 1) if rng.random() < 0.5 else (1, 0)
        ballots = [sorted([A, Bp])] * x + [[A]] * k + [sorted([Bp, 2 + j]) for j in range(dB)]
        for _ in range(rng.choice([0, 0, 1])):
            ballots.append([])
        nv = len(ballots)
        budget = u * nv + u / 2
        costs = [None, None]
        costs[A], costs[Bp] = (x + k) * u, (x + dB) * u
        costs += [budget + rng.choice([1, 2]) for _ in range(dB)]
        rng.shuffle(ballots)
        order = list(range(len(costs)))
        rng.shuffle(order)
        return {"costs": [pb.qs(c) for c in costs], "budget": pb.qs(budget), "order": order, "btype": "approval",
                "ballots": ballots, "tiedpair": [A, Bp], "variant": "mes"}
    dA = rng.choice([1, 1, 2])
    multA = [rng.choice([2, 3, 4]) for _ in range(dA)]
    sA = sum(multA)
    dB = dA + rng.choice([1, 1, 2])
    sB = rng.randrange(dB, sA) if dB < sA else None
    if sB is None:
        multA[0] += dB - sA + 1
        sA = sum(multA)
        sB = dB
    multB = [1] * dB
    for _ in range(sB - dB):                       # a few of B's ballots may be repeated too (still fewer voters than A)
        multB[rng.randrange(dB)] += 1
    nfill = max(dA, dB) + rng.choice([0, 1])       # filler projects make the ballots of one side distinct
    u = pb.F(rng.choice([1, 1, "1/2", "1/3", 2, "3/2"]))
    cA, cB = sA * u, sB * u
    pos = [0, 1] if rng.random() < 0.5 else [1, 0]           # ranks of A and B: the lexicographic fallback varies
    A, Bp = pos
    costs = [None, None]
    costs[A], costs[Bp] = cA, cB
    mode = rng.randrange(4)
    if mode == 0:
        budget = cA                                 # exactly the dearer one (A) or B + change
    elif mode == 1:
        budget = cA + cB - u / 2                    # just not both
    elif mode == 2:
        budget = cA + cB                            # both fit: the order decides nothing (control)
    else:
        budget = cA + u / 3
    fills = []
    for _ in range(nfill):
        fills.append(rng.choice([budget + 1, budget + u, cA * 3, cA + cB]) if rng.random() < 0.7 else rng.choice([cA * 2, u]))
    costs += fills
    ballots = []
    for j in range(dA):
        b = [A] + ([2 + j] if dA > 1 else [])
        ballots += [sorted(b)] * multA[j]
    for j in range(dB):
        b = [Bp] + ([2 + j] if j > 0 or rng.random() < 0.3 else [])
        if sorted(b) in [x for x in ballots if Bp in x] and j == 0:
            b = [Bp]
        ballots += [sorted(b)] * multB[j]
    # B's ballots must be pairwise distinct
    seenb, out = [], []
    for b in ballots:
        out.append(b)
    for _ in range(rng.choice([0, 0, 1, 2])):
        out.append(rng.choice([[], [2 + rng.randrange(nfill)]]))
    rng.shuffle(out)
    n = len(costs)
    order = list(range(n))
    rng.shuffle(order)
    return {"costs": [pb.qs(c) for c in costs], "budget": pb.qs(budget), "order": order, "btype": "approval",
            "ballots": out, "tiedpair": [A, Bp]}


def gen(rng, i, tier):
    kind = KINDS[i % len(KINDS)]
    if kind == "ties":
        e = _ties_election(rng)
        n = len(e["costs"])
        e.update({"kind": "ties", "solver": False, "ask_known": False, "model": True})
        tb = ["app_score", list(range(n))]
        calls = [{"f": "greedy", "sat": "Cardinality_Sat", "tb": tb, "res": True, "init": []},
                 {"f": "greedy", "sat": "Relative_Cardinality_Sat", "tb": tb, "res": True, "init": []},
                 {"f": "greedy", "sat": "CC_Sat", "tb": tb, "res": True, "init": []},
                 {"f": "mes", "sat": "Cardinality_Sat", "tb": tb, "res": True, "init": []},
                 {"f": "mesiter", "sat": "Cardinality_Sat", "tb": tb, "res": True, "init": [], "inc": "1/2"},
                 {"f": "phragmen", "tb": tb, "res": True, "init": [], "loads": None},
                 {"f": "greedy", "sat": "Cardinality_Sat", "tb": tb, "res": False, "init": []},
                 {"f": "phragmen", "tb": tb, "res": False, "init": [], "loads": None}]
        for _ in range(3):
            calls.append(_rule_call(rng, e))
            calls[-1]["tb"] = tb
        e["calls"] = calls
        return e
    if kind == "jr":
        e = _election(rng, 4, 3, btypes=("approval", "approval", "cardinal", "cumulative"))
    elif kind == "solver":
        e = _election(rng, 5, 4, allow_zero=False)
    elif kind == "composite":
        e = _election(rng, 5, 5)
    else:
        e = _election(rng, 6, 5)
    bt, n = e["btype"], len(e["costs"])
    e["kind"] = kind
    e["solver"] = kind == "solver"
    e["ask_known"] = i < 64 and i % 16 == 2
    if kind == "rules":
        e["calls"] = [_rule_call(rng, e) for _ in range(rng.choice([8, 10, 12]))]
        e["model"] = bt == "approval"
    elif kind == "composite":
        e["calls"] = [_composite_call(rng, e) for _ in range(4)]
    elif kind == "sat":
        e["sats"] = _sats(bt)
        e["subsets"] = _subsets(rng, n, 3)
        e["model"] = bt == "approval"
    elif kind == "solver":
        e["sats"] = _sats(bt, solver=True)
        e["subsets"] = _subsets(rng, n, 2)
        e["ilp"] = [{"sat": rng.choice(_sats(bt, additive=True, floats=False)), "init": _init(rng, e, 0.2)}]
    elif kind == "analysis":
        allocs = _subsets(rng, n, 1)[:1] + [el.feasible_subset(rng, e["costs"], e["budget"], 6)
                                            or sorted(rng.sample(range(n), rng.randrange(1, n + 1)))]
        meas = rng.sample(_sats(bt), min(3, len(_sats(bt))))
        e["satq"] = [{"alloc": a, "meas": m,
                      "hist": [[rng.randrange(2, 22), pb.qs(rng.choice([1, 2, 3, 5, "7/2", "1/2"]))]]}
                     for a in allocs for m in meas]
        e["cats"] = None
        if bt == "approval" and rng.random() < 0.6:
            ncat = rng.choice([1, 2, 3])
            e["cats"] = {"ncat": ncat,
                         "pcats": [sorted(rng.sample(range(ncat), rng.randrange(0, ncat + 1))) for _ in range(n)],
                         "alloc": allocs[-1]}
        e["mes_analytics"] = [{"sat": rng.choice(_sats(bt, additive=True, floats=False)), "tb": _tb(rng, bt, n)}]
        e["model"] = bt == "approval"
    elif kind == "history":
        # HISTORY stream: query the multiprofile, edit it in place (every Counter path), query again
        pool = []
        for b in e["ballots"] + el.gen_ballots(rng, bt, n, 3):
            b = sorted(b) if bt == "approval" else b
            if _bkey(b) not in {_bkey(x) for x in pool}:
                pool.append(b)
        e["pool"] = pool
        np_ = len(pool)
        ops = []
        for _ in range(rng.choice([2, 3, 4, 5])):
            name = rng.choice(HIST_OPS + ["del", "pop", "popitem", "clear"])     # the removal paths twice as often
            ops.append({"op": name, "b": rng.randrange(np_), "k": rng.choice([1, 1, 2, 3]),
                        "other": [[rng.randrange(np_), rng.choice([1, 1, 2, 3])] for _ in range(rng.choice([1, 2, 3]))]})
        e["ops"] = ops
        e["sat"] = rng.choice(_sats(bt, additive=True, floats=False))
        e["sat2"] = rng.choice(_sats(bt, floats=False))
        e["alloc"] = el.feasible_subset(rng, e["costs"], e["budget"], 6) or sorted(rng.sample(range(n), rng.randrange(1, n + 1)))
        e["hist"] = [rng.randrange(2, 9), pb.qs(rng.choice([1, 2, 3, "1/2"]))]
    elif kind == "jr":
        if bt in ("cardinal", "cumulative"):
            # the cardinal checkers read ballot[p] for every project: complete ballots (missing score = 0)
            e["ballots"] = [dict({str(p): "0/1" for p in range(n)}, **b) for b in e["ballots"]]
        e["allocs"] = _subsets(rng, n, 1)[1:] + [el.feasible_subset(rng, e["costs"], e["budget"], 4)]
        e["sats"] = rng.sample(_sats(bt, floats=False), 2)
    return e


# ------------------------------------------------------------------------------------------------
# canonical values: {"q": [...], "x": exact?} | {"s": [[ranks]...]} | {"e": tag}
# ------------------------------------------------------------------------------------------------
def _isfloat(x):
    import numpy as np

    return isinstance(x, (float, np.floating))


def vq(xs):
    xs = list(xs)
    exact = not any(_isfloat(x) for x in xs)
    out = []
    for x in xs:
        if isinstance(x, bool):
            out.append("1/1" if x else "0/1")
        elif _isfloat(x):
            x = float(x)
            if x != x or x in (float("inf"), float("-inf")):
                return {"e": 90 if x != x else 91}
            out.append(core.qj(x))
        else:
            out.append(core.qj(x))
    return {"q": out, "x": exact}


def vnum(x):
    return vq([x])


def vset(ps):
    return {"s": [sorted(pb.ranks(ps))]}


def vsets(allocs):
    return {"s": [sorted(pb.ranks(a)) for a in allocs]}


def vexc(e):
    return {"e": EXC_TAGS.get(type(e).__name__, 50), "cls": type(e).__name__, "msg": str(e)[:160]}


def both(fn, sides):
    """run fn(side) on both sides, every side guarded separately"""
    out = []
    for s in sides:
        try:
            out.append(fn(s))
        except Exception as ex:  # noqa: an exception is an observation (same class on both sides = same answer)
            out.append(vexc(ex))
    return out


# ------------------------------------------------------------------------------------------------
# implementation side
# ------------------------------------------------------------------------------------------------
class Side:
    def __init__(self, inst, projs, prof, ballots, multi):
        self.inst, self.projs, self.prof, self.multi = inst, projs, prof, multi
        # the ballot object of every voter as this profile knows it
        self.voter_ballots = [b.frozen() for b in ballots] if multi else list(ballots)


def _alloc_value(res, resolute):
    from pabutools.election.instance import Project

    if resolute or all(isinstance(x, Project) for x in res):
        return vset(res)
    return vsets(res)


def _rule_fn(c, side, sat_override=None):
    """-> (callable(instance, profile, **kw), kwargs) for a call spec"""
    from pabutools.rules import (greedy_utilitarian_welfare, method_of_equal_shares, sequential_phragmen,
                                 max_additive_utilitarian_welfare, MaxAddUtilWelfareAlgo)

    f = c["f"]
    kw = {}
    if f != "phragmen":
        kw["sat_class"] = el.sat_class(c["sat"])
    if "tb" in c and f != "maxw":
        kw["tie_breaking"] = el.tie_breaking(c["tb"][0], c["tb"][1])
    if "res" in c:
        kw["resoluteness"] = c["res"]
    if f == "greedy":
        return greedy_utilitarian_welfare, kw
    if f == "maxw":
        kw["inner_algo"] = MaxAddUtilWelfareAlgo.ILP_SOLVER if c.get("ilp") else MaxAddUtilWelfareAlgo.PRIMAL_DUAL
        return max_additive_utilitarian_welfare, kw
    if f == "mes":
        return method_of_equal_shares, kw
    if f == "mesiter":
        kw["voter_budget_increment"] = pb.num(c["inc"])
        return method_of_equal_shares, kw
    if f == "phragmen":
        if c.get("loads"):
            kw["initial_loads"] = _loads(c, side)
        return sequential_phragmen, kw
    raise ValueError(f)


def _loads(c, side):
    """one load per class (of the multiprofile, in its iteration order); on the list profile every voter of the class
    carries the class's load"""
    vals = [pb.num(v) for v in c["loadvals"]]
    classes = []
    for b in side.voter_ballots:
        fb = b.frozen() if not side.multi else b
        if fb not in classes:
            classes.append(fb)
    if side.multi:
        order = list(side.prof)
        return [vals[classes.index(b)] for b in order]
    return [vals[classes.index(b.frozen())] for b in side.prof]


def _run_rule(c, side, listprof):
    fn, kw = _rule_fn(c, side)
    init = [side.projs[j] for j in c.get("init", [])]
    res = fn(side.inst, side.prof, initial_budget_allocation=init, **kw)
    if c["f"] == "maxw":
        # the welfare of the outcome, measured on the list profile (ties between optimal sets are not the property)
        sp = listprof.as_sat_profile(el.sat_class(c["sat"]))
        return vq([sp.total_satisfaction(res), all(p in res for p in init)])
    return _alloc_value(res, c.get("res", True))


def _seq(c, side):
    rules, params = [], []
    for r in c["rules"]:
        fn, kw = _rule_fn(r, side)
        rules.append(fn)
        params.append(kw)
    return rules, params


def _run_composite(c, side):
    from pabutools.rules import (completion_by_rule_combination, exhaustion_by_budget_increase, popularity_comparison,
                                 social_welfare_comparison)

    init = [side.projs[j] for j in c.get("init", [])]
    f = c["f"]
    if f == "completion":
        rules, params = _seq(c, side)
        res = completion_by_rule_combination(side.inst, side.prof, rules, params, initial_budget_allocation=init,
                                             resoluteness=c["res"])
        return _alloc_value(res, c["res"])
    if f == "exhaustion":
        fn, kw = _rule_fn(c["rule"], side)
        B0 = side.inst.budget_limit
        try:
            res = exhaustion_by_budget_increase(
                side.inst, side.prof, fn, kw, initial_budget_allocation=init, resoluteness=c["res"],
                exhaustive_stop=c["stop"], budget_step=pb.num(c["step"]),
                budget_bound=None if c["bound"] is None else pb.num(c["bound"]))
        finally:
            side.inst.budget_limit = B0
        return _alloc_value(res, c["res"])
    rules, params = _seq(c, side)
    cmpf = popularity_comparison if f == "popularity" else social_welfare_comparison
    res = cmpf(side.inst, side.prof, el.sat_class(c["sat"]), rules, params, initial_budget_allocation=init)
    return vsets(res)


_RULE_CODE = {"greedy": GREEDY, "maxw": MAXW, "mes": MES, "mesiter": MESITER, "phragmen": PHRAG,
              "completion": COMPL, "exhaustion": EXHAUST, "popularity": POPCMP, "welfare": SWCMP}


def _uses_float(c):
    if c.get("sat") in FLOAT_SATS:
        return True
    for r in c.get("rules", []) + ([c["rule"]] if "rule" in c else []):
        if r.get("sat") in FLOAT_SATS:
            return True
    return False


def _sat_entries(case, sides, names, code_proj, code_set, with_profile=True):
    ent = []
    projs = sides[0].projs
    subsets = [[projs[j] for j in s] for s in case["subsets"]]
    for name in names:
        cls = el.sat_class(name)

        def per_voter(side):
            objs = [cls(side.inst, side.prof, b) for b in side.voter_ballots]
            return objs

        def f_proj(side):
            return vq([o.sat_project(p) for o in per_voter(side) for p in projs])

        def f_set(side):
            return vq([o.sat(S) for o in per_voter(side) for S in subsets])
        ent.append([code_proj, name] + both(f_proj, sides))
        ent.append([code_set, name] + both(f_set, sides))
        if with_profile:
            def f_prof(side):
                sp = side.prof.as_sat_profile(cls)
                rows = []
                for s in sp:
                    row = tuple(pb.F(core.qj(s.sat(S))) for S in subsets) + tuple(pb.F(core.qj(s.sat_project(p))) for p in projs)
                    rows += [row] * int(sp.multiplicity(s))
                rows.sort()
                flat = [x for r in rows for x in r]
                tot = [sp.total_satisfaction(S) for S in subsets] + [sp.total_satisfaction_project(p) for p in projs]
                exact = name not in FLOAT_SATS
                v = vq(flat + tot)
                if "q" in v:
                    v["x"] = exact and v["x"]
                return v
            ent.append([SATPROFILE, name] + both(f_prof, sides))
    return ent


def _is_frozen(b):
    return type(b).__name__.startswith("Frozen")


def impl(case):
    import signal
    import warnings

    warnings.simplefilter("ignore")

    def _alarm(*_):
        raise TimeoutError("a call did not return within 40 s")
    signal.signal(signal.SIGALRM, _alarm)
    signal.alarm(40)
    try:
        return _impl(case)
    finally:
        signal.alarm(0)


def _impl(case):
    bt = case["btype"]
    kind = case["kind"]
    inst, projs = pb.make_instance(case["costs"], case["budget"], case.get("order"))
    cats = case.get("cats")
    if cats:
        names = ["c%d" % k for k in range(cats["ncat"])]
        inst.categories = set(names)
        for p, cs in zip(projs, cats["pcats"]):
            p.categories = {names[k] for k in cs}
    listprof = pb.make_profile(bt, inst, projs, case["ballots"], False)
    mprof = listprof.as_multiprofile()
    ballots = list(listprof)
    sides = [Side(inst, projs, listprof, ballots, False), Side(inst, projs, mprof, ballots, True)]
    classes = list(mprof)
    out = {"mults": [int(mprof.multiplicity(b)) for b in classes], "entries": [], "model": []}
    if bt == "approval":
        out["classes"] = [[sorted(pb.ranks(b)), int(mprof.multiplicity(b))] for b in classes]
    ent = out["entries"]
    if case.get("solver"):
        pb.install_solver_guard()
        pb.solver_reset()

    if kind in ("rules", "ties") and bt == "approval":
        import pabutools.tiebreaking as T

        for tbn in ("app_score", "lexico", "min_cost", "max_cost"):
            rule = el.tie_breaking(tbn)
            rev = list(reversed(projs))
            ent.append([TIEBREAK, tbn + ".order"] + both(lambda s: vq(pb.ranks(rule.order(s.inst, s.prof, list(projs)))), sides))
            ent.append([TIEBREAK, tbn + ".order(reversed)"] + both(lambda s: vq(pb.ranks(rule.order(s.inst, s.prof, rev))), sides))
            ent.append([TIEBREAK, tbn + ".untie"] + both(lambda s: vq([pb.rank(rule.untie(s.inst, s.prof, list(projs)))]), sides))
        if kind == "ties":
            # is the constructed tie real?  (the outcome depends on which of the pair a strict order prefers)
            from pabutools.rules import greedy_utilitarian_welfare, sequential_phragmen
            A, Bp = case["tiedpair"]
            n_ = len(projs)
            pa = [A] + [r for r in range(n_) if r != A]
            pb_ = [Bp] + [r for r in range(n_) if r != Bp]
            real = 0
            try:
                from pabutools.rules import method_of_equal_shares
                for fn, kw in ((greedy_utilitarian_welfare, {"sat_class": el.sat_class("Cardinality_Sat")}), (sequential_phragmen, {}),
                               (method_of_equal_shares, {"sat_class": el.sat_class("Cardinality_Sat")})):
                    r1 = sorted(pb.ranks(fn(inst, listprof, tie_breaking=el.tie_breaking("perm", pa), **kw)))
                    r2 = sorted(pb.ranks(fn(inst, listprof, tie_breaking=el.tie_breaking("perm", pb_), **kw)))
                    real += r1 != r2
            except Exception:
                pass
            out["tie_decides_outcome"] = real
    if kind in ("rules", "composite", "ties"):
        for c in case["calls"]:
            code = GREEDY_FLOAT if _uses_float(c) else _RULE_CODE[c["f"]]
            if kind in ("rules", "ties"):
                ent.append([code, c["f"]] + both(lambda s: _run_rule(c, s, listprof), sides))
            else:
                ent.append([code, c["f"]] + both(lambda s: _run_composite(c, s), sides))
    elif kind == "sat":
        ent += _sat_entries(case, sides, case["sats"], SATPROJ, SATSET)
    elif kind == "solver":
        ent += _sat_entries(case, sides, case["sats"], SATSOLVER, SATSOLVER, with_profile=False)
        for c in case.get("ilp", []):
            cc = {"f": "maxw", "sat": c["sat"], "init": c["init"], "res": True, "ilp": True}
            ent.append([MAXW, "maxw-ilp"] + both(lambda s: _run_rule(cc, s, listprof), sides))
    elif kind == "analysis":
        ent += _analysis_entries(case, sides, listprof)
    elif kind == "jr":
        ent += _jr_entries(case, sides, classes)
    elif kind == "history":
        ent += _history_entries(case)

    if not case.get("ask_known"):
        out["entries"] = ent = [x for x in ent if x[0] not in BOUNDED]
    if case.get("model") and bt == "approval":
        out["model"] = _model_obs(case, sides)
    if case.get("solver"):
        st = pb.solver_state()
        if st["faults"]:
            out["solver_fault"] = st["last_fault"]
    return out


def _analysis_entries(case, sides, listprof):
    import pabutools.analysis as an
    from pabutools.analysis.profileproperties import votes_count_by_project, voter_flow_matrix
    from pabutools.analysis.votersatisfaction import percent_positive_satisfaction
    from pabutools.analysis.mesanalytics import calculate_project_loss, calculate_effective_supports
    from pabutools.rules import method_of_equal_shares

    bt = case["btype"]
    projs = sides[0].projs
    ent = []

    def add(code, label, fn):
        ent.append([code, label] + both(fn, sides))

    add(AVGLEN, "", lambda s: vnum(an.avg_ballot_length(s.inst, s.prof)))
    add(MEDLEN, "", lambda s: vnum(an.median_ballot_length(s.inst, s.prof)))
    add(AVGCOST, "", lambda s: vnum(an.avg_ballot_cost(s.inst, s.prof)))
    add(MEDCOST, "", lambda s: vnum(an.median_ballot_cost(s.inst, s.prof)))
    add(PROFMETH, "num_ballots", lambda s: vnum(s.prof.num_ballots()))
    if bt == "approval":
        add(AVGAPP, "", lambda s: vnum(an.avg_approval_score(s.inst, s.prof)))
        add(MEDAPP, "", lambda s: vnum(an.median_approval_score(s.inst, s.prof)))
        add(PROFMETH, "approval_score", lambda s: vq([s.prof.approval_score(p) for p in projs]))
        add(PROFMETH, "approved_projects", lambda s: vset(s.prof.approved_projects()))
        add(PROFMETH, "is_trivial", lambda s: vnum(bool(s.prof.is_trivial())))
        add(PARTYLIST, "is_party_list", lambda s: vnum(bool(s.prof.is_party_list())))
    if bt in ("cardinal", "cumulative"):
        add(AVGTOT, "", lambda s: vnum(an.avg_total_score(s.inst, s.prof)))
        add(MEDTOT, "", lambda s: vnum(an.median_total_score(s.inst, s.prof)))
        add(PROFMETH, "total_score", lambda s: vq([s.prof.total_score(p) for p in projs]))

    def vc(s):
        d = votes_count_by_project(s.prof)
        return vq([d.get(p, 0) for p in projs])

    def vf(s):
        d = voter_flow_matrix(s.inst, s.prof)
        return vq([d[str(a)][str(b)] for a in projs for b in projs])
    add(VOTES_COUNT, "", vc)
    add(VOTER_FLOW, "", vf)

    for sq in case["satq"]:
        cls = el.sat_class(sq["meas"])
        alloc = [projs[j] for j in sq["alloc"]]
        lab = sq["meas"]
        add(AVGSAT, lab, lambda s: vnum(an.avg_satisfaction(s.inst, s.prof, alloc, cls)))
        add(POSSAT, lab, lambda s: vnum(percent_positive_satisfaction(s.prof, alloc, cls)))
        add(GINI, lab, lambda s: vnum(an.gini_coefficient_of_satisfaction(s.inst, s.prof, alloc, cls)))
        add(GINI_INV, lab, lambda s: vnum(an.gini_coefficient_of_satisfaction(s.inst, s.prof, alloc, cls, invert=True)))
        for k, mx in sq["hist"]:
            add(HIST, lab, lambda s: vq([float(x) for x in an.satisfaction_histogram(s.inst, s.prof, alloc, cls, pb.num(mx), k)]))
    if case["satq"] and bt != "ordinal":
        alloc = [projs[j] for j in case["satq"][0]["alloc"]]
        add(NEH, "", lambda s: vnum(an.percent_non_empty_handed(s.inst, s.prof, alloc)))
    if case.get("cats"):
        alloc = [projs[j] for j in case["cats"]["alloc"]]
        add(CATPROP, "", lambda s: vq([float(an.category_proportionality(s.inst, s.prof, alloc))]))
    for ma in case.get("mes_analytics", []):
        cls = el.sat_class(ma["sat"])
        tb = el.tie_breaking(ma["tb"][0], ma["tb"][1])

        def loss(s):
            res = method_of_equal_shares(s.inst, s.prof, sat_class=cls, tie_breaking=tb, analytics=True)
            losses = calculate_project_loss(res.details)
            rows = []
            for pl in losses:
                lost = {pb.rank(k): v for k, v in pl.budget_lost.items()}
                rows.append([pb.rank(pl)] + [pb.F(core.qj(pl.supporters_budget))] +
                            [pb.F(core.qj(lost.get(r, 0))) for r in range(len(projs))])
            rows.sort()
            return vq([x for r in rows for x in r])

        def effsup(s):
            res = method_of_equal_shares(s.inst, s.prof, sat_class=cls, tie_breaking=tb)
            d = calculate_effective_supports(s.inst, s.prof, res, {"sat_class": cls, "tie_breaking": tb})
            return vq([d[p] for p in projs])
        add(PROJLOSS, ma["sat"], loss)
        add(EFFSUP, ma["sat"], effsup)
    return ent


def _jr_entries(case, sides, classes):
    import pabutools.analysis.justifiedrepresentation as jr
    from pabutools.analysis.cohesiveness import cohesive_groups

    bt = case["btype"]
    projs = sides[0].projs
    n = len(projs)
    ent = []

    def add(code, label, fn):
        ent.append([code, label] + both(fn, sides))

    def enc(group, pset):
        ids = sorted({classes.index(b if _is_frozen(b) else b.frozen()) for b in group})
        return ids + [100] + [101 + r for r in sorted(pb.ranks(pset))]

    add(COHESIVE, "", lambda s: {"s": [enc(g, ps) for g, ps in cohesive_groups(s.inst, s.prof)]})
    # maximal_cohesive_groups is not exported by pabutools.analysis, is used nowhere and raises TypeError whenever a group
    # exists: not part of the check (code 51 stays reserved)
    for a in case["allocs"]:
        alloc = [projs[j] for j in a]
        for name in case["sats"]:
            cls = el.sat_class(name)
            add(CORE, name, lambda s: vnum(bool(jr.is_in_core(s.inst, s.prof, cls, alloc))))
            if bt == "approval":
                for fn in ("is_strong_EJR_approval", "is_EJR_approval", "is_EJR_any_approval", "is_EJR_one_approval",
                           "is_PJR_approval", "is_PJR_any_approval", "is_PJR_one_approval"):
                    add(JR_APP, fn + ":" + name,
                        lambda s, fn=fn: vnum(bool(getattr(jr, fn)(s.inst, s.prof, cls, alloc))))
        if bt in ("cardinal", "cumulative"):
            for fn in ("is_strong_EJR_cardinal", "is_EJR_cardinal", "is_EJR_any_cardinal", "is_EJR_one_cardinal",
                       "is_PJR_cardinal", "is_PJR_any_cardinal", "is_PJR_one_cardinal"):
                add(JR_CARD, fn, lambda s, fn=fn: vnum(bool(getattr(jr, fn)(s.inst, s.prof, alloc))))
    return ent


def _history_entries(case):
    """Query mp = profile.as_multiprofile(); edit mp IN PLACE by the Counter/dict paths and the list profile alike (the same
    voters removed / appended); after every edit the edited multiprofile must answer like the edited list profile
    (HIST_LIST) and like a fresh conversion of it (HIST_FRESH)."""
    import pabutools.analysis as an
    from pabutools.analysis.votersatisfaction import percent_positive_satisfaction
    from pabutools.rules import method_of_equal_shares, greedy_utilitarian_welfare, sequential_phragmen

    bt = case["btype"]
    inst, projs = pb.make_instance(case["costs"], case["budget"], case.get("order"))
    listprof = pb.make_profile(bt, inst, projs, case["ballots"], False)
    mp = listprof.as_multiprofile()
    poolprof = pb.make_profile(bt, inst, projs, case["pool"], False)
    pool = list(poolprof)                       # Ballot objects
    fpool = [b.frozen() for b in pool]          # their frozen forms (keys of the multiprofile)
    keys = [_bkey(b) for b in case["pool"]]
    cnt = [0] * len(pool)                       # the voters: number of copies of every pool ballot
    for b in case["ballots"]:
        b = sorted(b) if bt == "approval" else b
        cnt[keys.index(_bkey(b))] += 1
    cls, cls2 = el.sat_class(case["sat"]), el.sat_class(case["sat2"])
    alloc = [projs[j] for j in case["alloc"]]
    hk, hmx = case["hist"]

    def idx_of(b):
        fb = b if _is_frozen(b) else b.frozen()
        return fpool.index(fb)

    def voters(P):
        if isinstance(P, list):
            return sorted(idx_of(b) for b in P)
        return sorted(i for b in P for i in [idx_of(b)] * max(0, int(P.multiplicity(b))))

    QUERIES = [
        ("num_ballots", lambda P: vnum(P.num_ballots())),
        ("voters", lambda P: vq(voters(P))),
        ("avg_ballot_length", lambda P: vnum(an.avg_ballot_length(inst, P))),
        ("median_ballot_cost", lambda P: vnum(an.median_ballot_cost(inst, P))),
        ("mes", lambda P: vset(method_of_equal_shares(inst, P, sat_class=cls))),
        ("greedy", lambda P: vset(greedy_utilitarian_welfare(inst, P, sat_class=cls2))),
        ("avg_satisfaction", lambda P: vnum(an.avg_satisfaction(inst, P, alloc, cls2))),
        ("percent_positive", lambda P: vnum(percent_positive_satisfaction(P, alloc, cls2))),
        ("gini", lambda P: vnum(an.gini_coefficient_of_satisfaction(inst, P, alloc, cls2))),
        ("histogram", lambda P: vq([float(x) for x in an.satisfaction_histogram(inst, P, alloc, cls2, pb.num(hmx), hk)])),
    ]
    if bt == "approval":
        QUERIES += [("phragmen", lambda P: vset(sequential_phragmen(inst, P))),
                    ("approval_score", lambda P: vq([P.approval_score(p) for p in projs]))]
    if bt in ("cardinal", "cumulative"):
        QUERIES += [("total_score", lambda P: vq([P.total_score(p) for p in projs]))]

    def ask(fn, P):
        try:
            return fn(P)
        except Exception as ex:  # noqa
            return vexc(ex)

    ent = []

    def stage(tag):
        fresh = listprof.as_multiprofile()
        for name, fn in QUERIES:
            on_mp = ask(fn, mp)
            ent.append([HIST_LIST, tag + ":" + name, ask(fn, listprof), on_mp])
            ent.append([HIST_FRESH, tag + ":" + name, ask(fn, fresh), on_mp])

    def other_mp(pairs):
        bs = [case["pool"][i] for i, k in pairs for _ in range(k)]
        return pb.make_profile(bt, inst, projs, bs, True)

    def sync(i, new):
        """the list profile: bring the number of voters with pool ballot i to `new`"""
        while cnt[i] > new:
            listprof.remove(pool[i])
            cnt[i] -= 1
        while cnt[i] < new:
            listprof.append(pool[i])
            cnt[i] += 1

    stage("0")
    for k, op in enumerate(case["ops"]):
        name, i, m = op["op"], op["b"] % len(pool), op["k"]
        pairs = [[j % len(pool), c] for j, c in op["other"]]
        oc = [0] * len(pool)
        for j, c in pairs:
            oc[j] += c
        done = name
        if name in ("del", "pop") and cnt[i] > 0:
            if name == "del":
                del mp[fpool[i]]
            else:
                mp.pop(fpool[i])
            sync(i, 0)
        elif name == "popitem" and sum(cnt) > 0:
            key, _ = mp.popitem()
            sync(idx_of(key), 0)
        elif name == "clear":
            mp.clear()
            for j in range(len(pool)):
                sync(j, 0)
        elif name in ("subtract_map", "subtract_iter") and cnt[i] >= 2:
            m = min(m, cnt[i] - 1)               # a class never drops to multiplicity 0 (not a multiprofile of voters)
            if name == "subtract_map":
                mp.subtract({fpool[i]: m})
            else:
                mp.subtract([fpool[i]] * m)
            sync(i, cnt[i] - m)
        elif name == "isub":
            mp -= other_mp(pairs)
            for j in range(len(pool)):
                sync(j, max(0, cnt[j] - oc[j]))
        elif name == "iand":
            mp &= other_mp(pairs)
            for j in range(len(pool)):
                sync(j, min(cnt[j], oc[j]))
        elif name == "ior":
            mp |= other_mp(pairs)
            for j in range(len(pool)):
                sync(j, max(cnt[j], oc[j]))
        elif name == "iadd":
            mp += other_mp(pairs)
            for j in range(len(pool)):
                sync(j, cnt[j] + oc[j])
        elif name == "set":
            mp[fpool[i]] = m
            sync(i, m)
        elif name == "append":
            mp.append(fpool[i])
            sync(i, cnt[i] + 1)
        elif name == "extend":
            mp.extend([pool[j] for j, c in pairs for _ in range(c)])
            for j in range(len(pool)):
                sync(j, cnt[j] + oc[j])
        elif name == "update_map":
            mp.update({fpool[j]: c for j, c in enumerate(oc) if c})
            for j in range(len(pool)):
                sync(j, cnt[j] + oc[j])
        elif name == "update_iter":
            mp.update([fpool[j] for j, c in pairs for _ in range(c)])
            for j in range(len(pool)):
                sync(j, cnt[j] + oc[j])
        elif name == "setdefault" and cnt[i] == 0:
            mp.setdefault(fpool[i], m)
            sync(i, m)
        else:
            done = "skipped"
        if done != "skipped":
            stage("%d-%s" % (k + 1, name))
    return ent


def _model_obs(case, sides):
    """observables compared with the Gallina models (approval elections): both sides must already agree (oracle);
    the model is compared with the list-profile side"""
    from pabutools.rules import greedy_utilitarian_welfare, sequential_phragmen
    import pabutools.analysis as an

    s = sides[0]
    projs = s.projs
    out = []
    kind = case["kind"]
    try:
        if kind in ("rules", "ties"):
            for k, tbn in enumerate(["lexico", "app_score", "min_cost", "max_cost"]):
                res = sequential_phragmen(s.inst, s.prof, tie_breaking=el.tie_breaking(tbn))
                out.append(["phragmen", k, sorted(pb.ranks(res))])
            for k, name in enumerate(["Cost_Sat", "Cardinality_Sat", "Effort_Sat"]):
                res = greedy_utilitarian_welfare(s.inst, s.prof, sat_class=el.sat_class(name))
                out.append(["greedy", k, sorted(pb.ranks(res))])
        elif kind == "analysis":
            out.append(["score", [core.qj(s.prof.approval_score(p)) for p in projs]])
            out.append(["avglen", core.qj(an.avg_ballot_length(s.inst, s.prof))])
        elif kind == "sat":
            cls = el.sat_class("Effort_Sat")
            out.append(["effort", [core.qj(cls(s.inst, s.prof, b).sat_project(p)) for b in s.voter_ballots for p in projs]])
    except Exception:
        return []
    return out


def py_equal(a, b):
    """python mirror of Oracle/C06.v val_eqb"""
    if "e" in a or "e" in b:
        return "e" in a and "e" in b and a["e"] == b["e"]
    if "s" in a or "s" in b:
        if not ("s" in a and "s" in b):
            return False
        return {tuple(sorted(x)) for x in a["s"]} == {tuple(sorted(x)) for x in b["s"]}
    if len(a["q"]) != len(b["q"]):
        return False
    if a["x"] and b["x"]:
        return all(pb.F(x) == pb.F(y) for x, y in zip(a["q"], b["q"]))
    return all(abs(pb.F(x) - pb.F(y)) * 10 ** 9 <= max(1, abs(pb.F(x)), abs(pb.F(y))) for x, y in zip(a["q"], b["q"]))


def py_oracle(case, o):
    if not isinstance(o, dict) or "entries" not in o:
        return 0
    for e in o["entries"]:
        if not py_equal(e[2], e[3]):
            return e[0]
    return 0


# ------------------------------------------------------------------------------------------------
# Coq rendering
# ------------------------------------------------------------------------------------------------
def _val(v):
    if "e" in v:
        return "(VX %d%%nat)" % v["e"]
    if "s" in v:
        return "(VS %s)" % lst([natl(x) for x in v["s"]])
    return "(VQ %s %s)" % (boolc(v["x"]), core.qlist(v["q"]))


def coq_case(case, o):
    ents = lst(["(mkE %d%%nat %s %s)" % (e[0], _val(e[2]), _val(e[3])) for e in o["entries"]])
    if case["btype"] == "approval":
        voters = lst([natl(sorted(b)) for b in case["ballots"]])
        classes = lst([pair(natl(b), core.nat(m)) for b, m in o.get("classes", [])])
    else:
        voters, classes = "[]", "[]"
    ms = []
    for m in o.get("model", []):
        if m[0] == "phragmen":
            ms.append("(MPhragmen %d%%nat %s)" % (m[1], natl(m[2])))
        elif m[0] == "greedy":
            ms.append("(MGreedy %d%%nat %s)" % (m[1], natl(m[2])))
        elif m[0] == "score":
            ms.append("(MScore %s)" % core.qlist(m[1]))
        elif m[0] == "avglen":
            ms.append("(MAvgLen %s)" % q(m[1]))
        elif m[0] == "effort":
            ms.append("(MEffort %s)" % core.qlist(m[1]))
    return "(mkCase %s %s %s %s %s %s %s)" % (
        core.qlist(case["costs"]), q(case["budget"]), voters, classes, natl(o["mults"]), ents, lst(ms))


# ------------------------------------------------------------------------------------------------
# evidence
# ------------------------------------------------------------------------------------------------
def _trivial_val(v):
    if "e" in v:
        return True
    if "s" in v:
        return all(len(x) == 0 for x in v["s"])
    return all(pb.F(x) == 0 for x in v["q"])


def nontrivial(case, o):
    if not isinstance(o, dict) or "entries" not in o:
        return None
    if len({_bkey(b) for b in case["ballots"]}) < 2 or not any(m >= 2 for m in o["mults"]):
        return None
    if all(_trivial_val(e[2]) for e in o["entries"]):
        return None
    return [case["kind"], case["btype"], case["costs"], case["budget"], [_bkey(b) for b in case["ballots"]]]


def stats(cases, obs):
    d = {"kind": {}, "btype": {}, "calls_by_code": {}, "calls_total": 0, "calls_raising_on_both_sides": 0,
         "float_valued_calls": 0, "max_multiplicity_hist": {}, "classes_with_mult_ge2_hist": {}, "nvoters_hist": {},
         "nproj_hist": {}, "has_empty_ballot": 0, "has_zero_cost": 0, "fractional_costs": 0,
         "project_dearer_than_budget": 0, "irresolute_calls": 0, "irresolute_with_several_outcomes": 0,
         "calls_with_initial_allocation": 0, "model_checks": 0, "single_class_elections": 0,
         "history_edits_by_path": {}, "history_edits_emptying_the_profile": 0,
         "ties_cases": 0, "ties_cases_where_the_tie_decides_the_outcome": 0,
         "ties_cases_order_flips_if_multiplicities_ignored": 0}
    for c, o in zip(cases, obs):
        if not isinstance(o, dict) or "entries" not in o:
            continue
        d["kind"][c["kind"]] = d["kind"].get(c["kind"], 0) + 1
        d["btype"][c["btype"]] = d["btype"].get(c["btype"], 0) + 1
        mm = str(max(o["mults"]))
        d["max_multiplicity_hist"][mm] = d["max_multiplicity_hist"].get(mm, 0) + 1
        k2 = str(sum(1 for m in o["mults"] if m >= 2))
        d["classes_with_mult_ge2_hist"][k2] = d["classes_with_mult_ge2_hist"].get(k2, 0) + 1
        d["single_class_elections"] += len(o["mults"]) == 1
        nv, n = str(len(c["ballots"])), str(len(c["costs"]))
        d["nvoters_hist"][nv] = d["nvoters_hist"].get(nv, 0) + 1
        d["nproj_hist"][n] = d["nproj_hist"].get(n, 0) + 1
        d["has_empty_ballot"] += any(len(b) == 0 for b in c["ballots"])
        cs = [pb.F(x) for x in c["costs"]]
        d["has_zero_cost"] += any(x == 0 for x in cs)
        d["fractional_costs"] += any(x.denominator != 1 for x in cs)
        d["project_dearer_than_budget"] += any(x > pb.F(c["budget"]) for x in cs)
        d["model_checks"] += len(o.get("model", []))
        if c["kind"] == "ties":
            d["ties_cases"] += 1
            d["ties_cases_where_the_tie_decides_the_outcome"] += bool(o.get("tie_decides_outcome"))
            A, Bp = c["tiedpair"]
            sc = lambda p: sum(1 for b in c["ballots"] if p in b)
            ds = lambda p: len({tuple(b) for b in c["ballots"] if p in b})
            d["ties_cases_order_flips_if_multiplicities_ignored"] += (sc(A) > sc(Bp)) and (ds(A) < ds(Bp))
        if c["kind"] == "history":
            for e in o["entries"]:
                tag, qn = e[1].split(":")
                if qn == "num_ballots" and e[0] == HIST_LIST and tag != "0":
                    opn = tag.split("-", 1)[1]
                    d["history_edits_by_path"][opn] = d["history_edits_by_path"].get(opn, 0) + 1
                    d["history_edits_emptying_the_profile"] += ("q" in e[2] and pb.F(e[2]["q"][0]) == 0)
        for e in o["entries"]:
            d["calls_total"] += 1
            nm = _SHORT.get(e[0], str(e[0]))
            d["calls_by_code"][nm] = d["calls_by_code"].get(nm, 0) + 1
            d["calls_raising_on_both_sides"] += "e" in e[2] and "e" in e[3]
            d["float_valued_calls"] += ("q" in e[2] and not e[2]["x"])
        for cc in c.get("calls", []):
            d["calls_with_initial_allocation"] += bool(cc.get("init"))
            d["irresolute_calls"] += cc.get("res") is False
        for e, cc in zip(o["entries"], c.get("calls", [])):
            if cc.get("res") is False and "s" in e[2] and len(e[2]["s"]) > 1:
                d["irresolute_with_several_outcomes"] += 1
    return d


def describe(case, o, code):
    bad = [e for e in o.get("entries", []) if e[0] == code and not py_equal(e[2], e[3])]
    return {"function": _NAMES.get(code), "differing_calls": [{"label": e[1], "on_profile": e[2], "on_multiprofile": e[3]}
                                                              for e in bad[:4]],
            "multiplicities": o.get("mults")}


def shrink(case):
    n, nv = len(case["costs"]), len(case["ballots"])
    for key in ("calls", "sats", "satq", "mes_analytics", "allocs", "ilp"):
        v = case.get(key)
        if isinstance(v, list) and len(v) > 1:
            for j in range(len(v)):
                c = dict(case)
                c[key] = [v[j]]
                yield c
    if case.get("ops") and len(case["ops"]) > 1:
        for j in range(len(case["ops"])):
            c = dict(case)
            c["ops"] = case["ops"][:j] + case["ops"][j + 1:]
            yield c
    if case.get("cats"):
        c = dict(case)
        c["cats"] = None
        yield c
    if case.get("model"):
        c = dict(case)
        c["model"] = False
        yield c
    for key in ("satq", "mes_analytics"):
        if case.get(key):
            c = dict(case)
            c[key] = []
            yield c
    # simplify calls
    for j, cc in enumerate(case.get("calls", [])):
        for k2, v2 in (("init", []), ("res", True), ("loads", None), ("tb", ["lexico", list(range(n))])):
            if k2 in cc and cc[k2] != v2 and not (k2 == "res" and cc["f"] == "maxw"):
                c = dict(case)
                c["calls"] = [dict(x) for x in case["calls"]]
                c["calls"][j][k2] = v2
                yield c
    # drop a voter (keeping a repeated ballot)
    for j in range(nv):
        rest = case["ballots"][:j] + case["ballots"][j + 1:]
        if len(rest) >= 2 and len({_bkey(b) for b in rest}) < len(rest):
            c = dict(case)
            c["ballots"] = rest
            for cc in c.get("calls", []):
                if cc.get("loadvals"):
                    pass
            yield c
    # drop a project
    if n > 1:
        for j in range(n):
            ren = lambda W: [x - (x > j) for x in W if x != j]
            c = dict(case)
            c["costs"] = case["costs"][:j] + case["costs"][j + 1:]
            c["order"] = ren(case["order"])
            if case["btype"] in ("cardinal", "cumulative"):
                c["ballots"] = [{str(int(k) - (int(k) > j)): v for k, v in b.items() if int(k) != j} for b in case["ballots"]]
            elif case["btype"] == "approval":
                c["ballots"] = [sorted(ren(b)) for b in case["ballots"]]
            else:
                c["ballots"] = [ren(b) for b in case["ballots"]]
            if len({_bkey(b) for b in c["ballots"]}) == len(c["ballots"]):
                continue
            if "calls" in case:
                calls = []
                for cc in case["calls"]:
                    cc = dict(cc)
                    if "init" in cc:
                        cc["init"] = ren(cc["init"])
                    if "tb" in cc:
                        cc["tb"] = [cc["tb"][0], ren(cc["tb"][1])]
                    calls.append(cc)
                c["calls"] = calls
            if "pool" in case:
                if case["btype"] in ("cardinal", "cumulative"):
                    pl = [{str(int(k) - (int(k) > j)): v for k, v in b.items() if int(k) != j} for b in case["pool"]]
                elif case["btype"] == "approval":
                    pl = [sorted(ren(b)) for b in case["pool"]]
                else:
                    pl = [ren(b) for b in case["pool"]]
                if len({_bkey(b) for b in pl}) < len(pl):
                    continue        # two pool ballots would coincide
                c["pool"] = pl
                c["alloc"] = ren(case["alloc"])
            if "subsets" in case:
                c["subsets"] = [ren(s) for s in case["subsets"]]
            if "satq" in case:
                c["satq"] = [dict(s, alloc=ren(s["alloc"])) for s in case["satq"]]
            if "allocs" in case:
                c["allocs"] = [ren(a) for a in case["allocs"]]
            if "mes_analytics" in case:
                c["mes_analytics"] = [dict(m, tb=[m["tb"][0], ren(m["tb"][1])]) for m in case["mes_analytics"]]
            if case.get("ilp"):
                c["ilp"] = [dict(m, init=ren(m["init"])) for m in case["ilp"]]
            if case.get("cats"):
                cc = dict(case["cats"])
                cc["pcats"] = cc["pcats"][:j] + cc["pcats"][j + 1:]
                cc["alloc"] = ren(cc["alloc"])
                c["cats"] = cc
            yield c
    if any(pb.F(x).denominator != 1 for x in case["costs"]):
        c = dict(case)
        c["costs"] = [pb.qs(max(1, round(pb.F(x)))) for x in case["costs"]]
        yield c
