"""C07 -- the recorded Equal Shares run (analytics=True) is an exact, valid price system."""
from __future__ import annotations

from .. import core
from ..core import q, lst, natl, boolc, opt, pair
from .. import pb, mesgen

NAMING = True
ID = "C07"
ORACLE = "Oracle.C07"
PROPS = "Props/C07.v"
LEVEL = "proof"
SHARD = 60
CODES = {
    1: ("oracle", "recorded run does not start with equal budgets adding up (with multiplicities) to the budget limit "
                  "/ to the reported inflated budget (>= limit) of the final run"),
    2: ("oracle", "a voter who does not support the bought project paid in a recorded round"),
    3: ("oracle", "a voter paid more than they held (or holds negative money) in a recorded round"),
    4: ("oracle", "payments of a recorded round are not min(own money, rho * own utility) for one common rho"),
    5: ("oracle", "multiplicity-weighted payments of a recorded round do not add up exactly to the project's cost"),
    6: ("oracle", "malformed record: iterations do not chain / terminal record missing / wrong lengths"),
    7: ("oracle", "after the last recorded round a remaining supported project can still be paid by its supporters"),
    8: ("oracle", "analytics=True returns a different outcome than analytics=False"),
    9: ("oracle", "validate_price_system rejects the payments reconstructed from the recorded run"),
    10: ("oracle", "the outcome is not 'supported zero-cost projects + recorded purchases'"),
    11: ("oracle", "details.voter_multiplicity differs from the multiplicities of the profile"),
    12: ("oracle", "calculate_project_loss raises on the details of a real run"),
    20: ("model", "recorded trace (selected project, budgets before/after per voter) differs from the model's trace"),
    21: ("model", "model ran out of fuel"),
    22: ("model", "calculate_project_loss totals differ from the model's trace"),
    23: ("model", "outcome set differs from the model's"),
    core.RAISED: ("oracle", "the call raised / the interpreter died outside the solver"),
}
RULE = ("same election generator as C02 (1..6 voters, 1..7 projects, tie-rich/fractional/zero costs, boundary budgets, "
        "approval/cardinal/cumulative/ordinal ballots, every compatible additive measure, Profile/MultiProfile, all "
        "shipped tie-breaking rules + random strict orders, binary_sat None/True/False), resolute, plain and iterated "
        "(final reported run); analytics=True.  non-trivial = distinct case whose record has >= 1 purchase round")
ASSUMPTIONS = [
    "hand-written Gallina model of mes_rule.py tied to the code by differential execution only",
    "gmpy2 mpq arithmetic = exact Q; utilities read from the library's satisfaction objects are inputs",
    "validate_price_system is only called for approval ballots where 'approves' = 'has positive utility' for every "
    "project (its definition is about approval); exhaustive=False, stable=False, on the expanded list profile",
    "calculate_project_loss: entries of never-bought projects are checked only up to money+spendings = initial money "
    "(the round in which the lazy scan discards a project depends on set iteration order)",
    "CBC-based normalisers: every answer re-validated, faults discarded",
]
TRUSTED = ["Model/MesRule.v mirrors pabutools/rules/mes/mes_rule.py incl. the recorded trace (modelled, not verified)"]
EXPLANATION = ("Theorems (unbounded, Props/C07.v) on the trace of Model/MesRule.v: start, only supporters pay, nobody "
               "overpays, conservation.  Tie: the seven invariants of the statement are evaluated inside Coq on the "
               "implementation's own record (oracle), the record is compared exactly with the model's trace, the outcome "
               "with and without analytics is compared, and the library's validate_price_system / calculate_project_loss "
               "are run on the record.")


def budget(tier):
    return 1500 if tier == "quick" else 25000


def gen(rng, i, tier):
    if i % 6 == 5:      # targeted stream: state surviving between the runs of the iterated variant
        return mesgen.gen_stale(rng)
    if i % 10 == 6:     # targeted stream: money within 1e-7..1e-15 of rho*utility / of the cost / of another rho
        return mesgen.gen_near(rng)
    if i % 20 == 3:     # targeted stream: nothing to share + supported zero-cost projects
        return mesgen.gen_boundary(rng, allow_irresolute=False)
    case = mesgen.gen_election(rng)
    case = mesgen.gen_config(rng, case, allow_irresolute=False)
    if case["tb"] == "refuse":          # a refused tie leaves no record to examine: C02's subject
        case["tb"] = "lexico"
    if case["solver"]:
        case["sat_mode"] = "profile"     # one pass through the solver per case
    return case


def impl(case):
    if case.get("solver"):
        pb.install_solver_guard()
        pb.solver_reset()
    inst, projs, prof, cls, sp, sats, utils, mults, rule, keys = mesgen.build(case)
    out = {"utils": utils, "mults": mults, "keys": keys}
    if case.get("solver"):
        st = pb.solver_state()
        if st["faults"]:
            out["solver_fault"] = st["last_fault"]
            return out
    res = mesgen.call_rule(case, inst, prof, cls, sp, rule, analytics=True)
    det = res.details
    out["out"] = pb.ranks(res)
    out["mult_rec"] = [int(x) for x in det.voter_multiplicity]
    iters = []
    for it in det.iterations:
        iters.append([None if it.selected_project is None else pb.rank(it.selected_project),
                      [pb.qs(x) for x in it.voters_budget],
                      None if it.voters_budget_after_selection is None else
                      [pb.qs(x) for x in it.voters_budget_after_selection]])
    out["iters"] = iters
    out["final_budget"] = pb.qs(det.get_final_budget())
    # --- calculate_project_loss on the real record
    from pabutools.analysis.mesanalytics import calculate_project_loss
    try:
        losses = calculate_project_loss(det)
        out["loss"] = [[pb.rank(pl), pb.qs(pl.supporters_budget), pb.qs(pl.total_budget_lost())] for pl in losses]
    except Exception as e:  # noqa
        out["loss"] = None
        out["loss_exc"] = type(e).__name__ + ": " + str(e)[:200]
    # --- the library's own validator on the reconstructed payments
    out["valid"] = None
    if case["ballot"] == "approval":
        same = all((pb.F(utils[v][j]) > 0) == (projs[j] in sats[v].ballot)
                   for v in range(len(sats)) for j in range(len(projs)))
        if same and iters and not case.get("init") and sum(mults) <= 200:
            from pabutools.election import ApprovalBallot, ApprovalProfile
            from pabutools.analysis.priceability import validate_price_system
            pays = [{p: 0 for p in projs} for _ in sats]
            for sel, before, after in iters:
                if sel is None:
                    continue
                for v in range(len(sats)):
                    pays[v][projs[sel]] = pb.num(pb.F(before[v]) - pb.F(after[v]))
            ballots, pf = [], []
            for v, s in enumerate(sats):
                for _ in range(mults[v]):
                    ballots.append(ApprovalBallot([p for p in projs if p in s.ballot]))
                    pf.append(dict(pays[v]))
            lp = ApprovalProfile(ballots, instance=inst)
            out["valid"] = bool(validate_price_system(inst, lp, list(res), pb.num(iters[0][1][0]), pf,
                                                      stable=False, exhaustive=False))
    # --- the same call without analytics (fresh objects)
    inst2, projs2, prof2, cls2, sp2, sats2, _, _, rule2, _ = (inst, projs, prof, cls, sp, sats, None, None, rule, None)
    res2 = mesgen.call_rule(case, inst2, prof2, cls2, sp2, rule2, analytics=False)
    out["out_plain"] = pb.ranks(res2)
    if case.get("solver"):
        st = pb.solver_state()
        if st["faults"]:
            out["solver_fault"] = st["last_fault"]
    out["flags"] = mesgen.measure(case, utils, mults, keys)
    return out


def coq_case(case, o):
    voters = lst([pair(core.qlist(u), core.nat(m)) for u, m in zip(o["utils"], o["mults"])])
    iters = lst([pair(opt(sel, core.nat), core.qlist(b), opt(a, core.qlist)) for sel, b, a in o["iters"]])
    loss = opt(o["loss"], lambda L: lst([pair(core.nat(p), q(sb), q(tl)) for p, sb, tl in L]))
    return "(mkCase %s %s %s %s %s %s %s %s %s %s %s %s %s %s %s)" % (
        core.qlist(case["costs"]), q(case["budget"]), voters, core.qlist(o["keys"]), natl(case["enum"]),
        boolc(mesgen.resolved_binary(case)), opt(case.get("inc"), q), natl(case.get("init", [])),
        natl(o["mult_rec"]), iters,
        q(o["final_budget"]), natl(o["out"]), natl(o["out_plain"]), opt(o["valid"], boolc), loss)


def nontrivial(case, o):
    if not isinstance(o, dict) or "iters" not in o or len(o["iters"]) < 2:
        return None
    return [case["costs"], case["budget"], case["ballot"], case["ballots"], case["sat"], case["multi"],
            case["tb"], case["binary"], case["inc"], case.get("init", []), case.get("ballot_mults")]


def stats(cases, obs):
    keys = ["mixed", "tie", "lazy", "lazy_tie", "zero_cost", "unaffordable", "nonuniform_util", "mult2", "init"]
    d = {"n": 0, "by_ballot": {}, "by_sat": {}, "multi": 0, "iterated": 0, "iterated_inflated": 0,
         "recorded_rounds_hist": {}, "validator_called": 0, "share": {}}
    cnt = {k: 0 for k in keys}
    for c, o in zip(cases, obs):
        if not isinstance(o, dict) or "iters" not in o:
            continue
        d["n"] += 1
        d["by_ballot"][c["ballot"]] = d["by_ballot"].get(c["ballot"], 0) + 1
        d["by_sat"][c["sat"]] = d["by_sat"].get(c["sat"], 0) + 1
        d["multi"] += bool(c["multi"])
        d["stale_state_stream"] = d.get("stale_state_stream", 0) + (c.get("stream") == "stale")
        d["boundary_stream"] = d.get("boundary_stream", 0) + (c.get("stream") == "boundary")
        d["near_boundary_stream"] = d.get("near_boundary_stream", 0) + (c.get("stream") == "near")
        for k_ in ("near_poor", "near_rich", "exact_boundary", "near_tie", "near_afford", "bigmult"):
            d["cases_" + k_] = d.get("cases_" + k_, 0) + bool(o["flags"].get(k_))
        d["appscore_tie_stream"] = d.get("appscore_tie_stream", 0) + (c.get("stream") == "appscore")
        d["zero_budget"] = d.get("zero_budget", 0) + (pb.F(c["budget"]) == 0)
        d["negative_scores"] = d.get("negative_scores", 0) + any(
            isinstance(b, dict) and any(pb.F(v) < 0 for v in b.values()) for b in c["ballots"])
        d["big_integers"] = d.get("big_integers", 0) + any(abs(pb.F(x)) > 2 ** 53 for x in c["costs"])
        f = c.get("init_form", "none")
        d.setdefault("init_form", {})[f] = d.setdefault("init_form", {}).get(f, 0) + 1
        d["iterated"] += c["inc"] is not None
        if c["inc"] is not None and pb.F(o["final_budget"]) > pb.F(c["budget"]):
            d["iterated_inflated"] += 1
        r = str(len(o["iters"]) - 1)
        d["recorded_rounds_hist"][r] = d["recorded_rounds_hist"].get(r, 0) + 1
        d["validator_called"] += o.get("valid") is not None
        for k in keys:
            cnt[k] += bool(o["flags"][k])
    n = max(d["n"], 1)
    d["share"] = {"round_with_poor_and_rich_supporters": round(cnt["mixed"] / n, 3),
                  "tie_at_argmin": round(cnt["tie"] / n, 3),
                  "lazy_cutoff_fired": round(cnt["lazy"] / n, 3),
                  "zero_cost_supported_project": round(cnt["zero_cost"] / n, 3),
                  "unaffordable_project": round(cnt["unaffordable"] / n, 3),
                  "supporters_with_different_utilities": round(cnt["nonuniform_util"] / n, 3),
                  "multiplicity_ge_2": round(cnt["mult2"] / n, 3),
                  "nonempty_initial_allocation": round(cnt["init"] / n, 3)}
    return d


def shrink(case):
    from . import c02
    for c in c02.shrink(case):
        if c.get("resolute", True):
            yield c
