"""C03 -- the greedy welfare rule follows its definition and exhausts the budget."""
from __future__ import annotations

from fractions import Fraction

from .. import core
from ..core import q, lst, natl, boolc
from .. import pb

NAMING = True
ID = "C03"
ORACLE = "Oracle.C03"
PROPS = ["Props/C03.v", "Props/TieGen.v", "Props/C03gen.v"]
LEVEL = "proof"
SHARD = 40
MAX_DISCARD = 0.05
CODES = {
    1: ("oracle", "a returned allocation is not exhaustive (another project of the instance still fits)"),
    2: ("oracle", "the resolute outcome is not the outcome of the greedy run of the definition "
                  "(largest marginal satisfaction per cost among the projects that fit, ties by the tie-breaking rule)"),
    3: ("model", "the resolute outcome differs (as a set) from the Gallina model of the scheme that ran"),
    4: ("model", "the irresolute outcomes differ (as a set of sets) from the Gallina model"),
    5: ("model", "malformed observation"),
    7: ("oracle", "refuse_tie_breaking: TieBreakingException raised although no round of the greedy definition has two "
                  "tied best candidates, or an outcome returned although some round has"),
    6: ("oracle", "a repeated identical call on the same (unchanged) objects returned a different outcome"),
    core.RAISED: ("oracle", "the call raised / the interpreter died outside the solver"),
}
RULE = ("two streams.  (a) single calls; (b) HISTORIES (a third of the cases): a first call with a satisfaction-profile "
        "object, then voters are added in place to that object and to the profile (append / extend_from_(multi)profile / "
        "+= / profile.extend; equal ballots raise multiplicities in a multiprofile) or the object is re-used with another "
        "tie-breaking rule / initial allocation / resoluteness, then the observed call with the same objects (and a "
        "repeated identical call, which must return the identical outcome); the model is fed the FINAL election rebuilt "
        "from scratch.  (c) EXACT-TIE stream (1/6): an integer-cost and a fractional-cost project (int vs mpq inside the "
        "library) with exactly equal satisfaction per cost, the common value not representable in binary (thirds, "
        "fifths, sevenths, ...), random ranks and tie-breaking rule, budget fitting only one of the two; (d) NEAR-TIE "
        "stream (1/12): densities built from 6..9-digit integers with sA*cB - sB*cA = 1 (relative gap 1e-12..1e-18), "
        "the denser project must win; (e) DEGENERATE stream (1/12): no ballots, only empty ballots, only unaffordable "
        "projects supported, exhaustive initial allocation, all costs zero.  Every call also draws a CALL STYLE: initial "
        "allocation as list / tuple / set / generator expression / iter() / map / filter / BudgetAllocation / None, default vs "
        "explicit lexicographic tie-breaking, sat_class= vs prebuilt sat_profile=, positional vs keyword arguments, "
        "analytics.  About 8 % of the calls use refuse_tie_breaking, judged on every election (must raise iff some round of "
        "the definition has two tied best candidates); the fast path's raise without a tie is the recorded finding "
        "c03_fast_path_refuse_consulted_up_front.  (a) elections with 0..6 voters and 1..7 projects (<=6 when irresolute); all four ballot types x every shipped "
        "satisfaction measure accepted by the ballot type x Profile/MultiProfile x every shipped tie-breaking rule "
        "accepted x is_sat_additive in {default, forced True, forced False} x resolute/irresolute x feasible initial "
        "allocations; costs from tie-rich pools (zeros, equal costs, halves/thirds), budgets on boundaries; "
        "non-trivial = distinct election in which at least one project is selected beyond the initial allocation "
        "and at least one project of the instance is left out")
ASSUMPTIONS = [
    "hand-written Gallina model of greedywelfare_rule.py tied to the code by differential execution only",
    "satisfaction values are inputs: total_satisfaction of every subset and total_satisfaction_project are read "
    "exactly (mpq; floats as their exact binary value) from the implementation's own satisfaction profile",
    "tie-breaking keys are read from the implementation's TieBreakingRule.func; stable sorted() = insertion sort",
    "non-negative utilities (the quantifier of the property)",
    "Relative_Cost_Sat / Additive_Cardinal_Relative_Sat reach CBC while building the satisfaction profile: answers "
    "re-validated, faults discarded",
]
TRUSTED = ["Model/GreedyRule.v mirrors pabutools/rules/greedywelfare/greedywelfare_rule.py (modelled, not verified)"]
EXPLANATION = ("Theorems (unbounded): the general scheme's run is a run of the declarative spec (which is deterministic); "
               "every outcome of either scheme, resolute or irresolute, is feasible, contains the initial allocation "
               "and is exhaustive; for additive non-negative satisfaction the sort-once fast path selects the same set "
               "as the general scheme.  Tie: returned allocations are checked in Coq for exhaustiveness, replayed "
               "against the spec along the returned order, and compared as sets (sets of sets) with the model.")

APPROVAL_SATS = ["Cost_Sat", "Cardinality_Sat", "Effort_Sat", "Relative_Cardinality_Sat",
                 "Relative_Cost_Approx_Normaliser_Sat", "Additive_Cost_Sqrt_Sat", "Additive_Cost_Log_Sat",
                 "CC_Sat", "Cost_Sqrt_Sat", "Cost_Log_Sat", "Relative_Cost_Sat"]
CARDINAL_SATS = ["Additive_Cardinal_Sat", "CC_Sat", "Cost_Sat", "Cardinality_Sat", "Effort_Sat",
                 "Relative_Cardinality_Sat", "Relative_Cost_Approx_Normaliser_Sat", "Relative_Cost_Sat",
                 "Additive_Cardinal_Relative_Sat"]
ORDINAL_SATS = ["Additive_Borda_Sat", "Cost_Sat", "Cardinality_Sat", "Effort_Sat", "Relative_Cardinality_Sat",
                "Relative_Cost_Approx_Normaliser_Sat", "Relative_Cost_Sat"]
SATS = {"approval": APPROVAL_SATS, "cardinal": CARDINAL_SATS, "cumulative": CARDINAL_SATS, "ordinal": ORDINAL_SATS}
SOLVER_SATS = {"Relative_Cost_Sat", "Additive_Cardinal_Relative_Sat"}
NON_ADDITIVE = {"CC_Sat", "Cost_Sqrt_Sat", "Cost_Log_Sat"}
# measures the library itself treats as additive (subclasses of AdditiveSatisfaction): default flag = True
LIB_ADDITIVE = {"Cost_Sat", "Cardinality_Sat", "Effort_Sat", "Relative_Cardinality_Sat",
                "Relative_Cost_Approx_Normaliser_Sat", "Additive_Cost_Sqrt_Sat", "Additive_Cost_Log_Sat",
                "Relative_Cost_Sat", "Additive_Cardinal_Sat", "Additive_Cardinal_Relative_Sat"}

# measures whose per-voter value depends on the OTHER voters (read through the profile object): their per-ballot score
# caches are defined only for a fixed electorate, so they are kept out of the in-place-mutation histories
HISTORY_EXCLUDED = {"Effort_Sat"}

POOLS = [
    [0, 1, 1, 2, 2, 3],
    [1, 2, 3, 4, 5],
    ["1/2", "1/3", "3/4", "2/3", "1/7", 1],
    [2, 2, 2, 2],
    [0, 0, 1],
    ["5/2", "7/3", 5, 10, "1/10"],
    [1, 1, 1, 2],
    [1, 2, 2, 4, 4],
]


def budget(tier):
    return 3600 if tier == "quick" else 48000


def _gen_ballots(rng, kind, n, nv):
    ballots = []
    for _ in range(nv):
        if ballots and rng.random() < 0.35:
            ballots.append(rng.choice(ballots))          # duplicates -> multiplicities >= 2
            continue
        mode = rng.randrange(6)
        if mode == 0:
            sup = []
        elif mode == 1:
            sup = list(range(n))
        else:
            sup = sorted(rng.sample(range(n), rng.randrange(0, n + 1)))
        if kind == "approval":
            ballots.append(sup)
        elif kind == "ordinal":
            sup = list(sup)
            rng.shuffle(sup)
            ballots.append(sup)
        else:
            pool = [0, 1, 1, 2, 3, "1/2"] if kind == "cardinal" else [0, 1, 1, 2, 3]
            ballots.append({str(j): pb.qs(rng.choice(pool)) for j in sup})
    return ballots


def _gen_general(rng, i, tier):
    kind = rng.choice(["approval"] * 9 + ["cardinal"] * 4 + ["cumulative"] * 3 + ["ordinal"] * 4)
    resolute = rng.random() < 0.7
    n = rng.choice([1, 2, 3, 3, 4, 4, 5, 5, 6, 6, 7]) if resolute else rng.choice([1, 2, 3, 3, 4, 4, 5, 5, 6])
    pool = rng.choice(POOLS)
    costs = [pb.F(rng.choice(pool)) for _ in range(n)]
    tot = sum(costs, Fraction(0))
    mode = rng.choice([0, 1, 2, 3, 3, 3, 4, 4, 4, 5, 6, 6, 6, 7, 7])
    if mode == 0:
        b = tot
    elif mode == 1:
        b = tot + rng.choice([1, Fraction(1, 2)])
    elif mode == 2:
        b = min(costs)
    elif mode == 3:
        b = sum(rng.sample(costs, rng.randrange(1, n + 1)), Fraction(0))
    elif mode == 4:
        b = tot * Fraction(rng.randrange(1, 8), 8)
    elif mode == 5:
        b = max(Fraction(0), min(costs) - Fraction(1, 3))
    elif mode == 6:
        b = tot / 2
    else:
        b = Fraction(rng.choice([1, 2, 3, 4, 5]))
    if b <= 0 and rng.random() < 0.8:
        b = Fraction(rng.choice([1, 2, 3]))
    nv = rng.choice([0, 1, 2, 3, 3, 4, 4, 5, 5, 6, 6])
    ballots = _gen_ballots(rng, kind, n, nv)
    sat = rng.choice(SATS[kind])
    if sat in SOLVER_SATS and rng.random() < 0.5:      # keep the solver-reaching share small
        sat = rng.choice([s for s in SATS[kind] if s not in SOLVER_SATS])
    solver = sat in SOLVER_SATS
    tbs = ["lexico", "min_cost", "max_cost"] + (["app_score"] if kind == "approval" else [])
    tb = rng.choice(tbs)
    additive = rng.choice([None, True, True, False] if sat in NON_ADDITIVE else [None, None, True, False])
    # initial allocation: a feasible subset
    init = []
    if rng.random() < 0.4:
        order = list(range(n))
        rng.shuffle(order)
        c = Fraction(0)
        for j in order[: rng.randrange(0, n + 1)]:
            if c + costs[j] <= b:
                init.append(j)
                c += costs[j]
    via = "profile" if (solver or rng.random() < 0.25) else "class"
    case = {"kind": kind, "costs": [pb.qs(c) for c in costs], "budget": pb.qs(b), "ballots": ballots,
            "multi": rng.random() < 0.45, "sat": sat, "tb": tb, "additive": additive, "resolute": resolute,
            "init": init, "via": via, "solver": solver}
    # HISTORY stream (about a third of the cases): the observed call is the LAST of a sequence of calls that share
    # one satisfaction-profile object (and one profile object) which is mutated in place in between -- voters are
    # added / multiplicities raised -- or re-used with another tie-breaking rule / initial allocation.  The case
    # carries the FINAL election; the observed outcome must be the greedy run of the final election.
    if i % 3 == 2 and not solver and sat not in HISTORY_EXCLUDED:
        if rng.random() < 0.6:                      # favour the general scheme: that is where totals of sets are used
            case["additive"] = additive = False if sat not in NON_ADDITIVE else rng.choice([None, False])
        if len(ballots) < 2:
            ballots = case["ballots"] = ballots + _gen_ballots(rng, kind, n, rng.choice([1, 2, 3]))
        nvf = len(ballots)
        k = rng.randrange(0, nvf) if rng.random() < 0.8 else nvf           # ballots[:k] present at the first call
        init1 = []
        if rng.random() < 0.3:
            j = rng.randrange(n)
            if costs[j] <= b:
                init1 = [j]
        case["via"] = "profile"
        case["hist"] = {"k": k, "mode": rng.choice(["append", "extend", "iadd", "profile_extend"]),
                        "tb1": rng.choice(tbs) if rng.random() < 0.4 else tb,
                        "init1": init1 if rng.random() < 0.4 else init,
                        "resolute1": resolute if rng.random() < 0.8 else (not resolute),
                        "repeat": rng.random() < 0.5}
    return case


def _sat_ballots(rng, kind, sats, n):
    """ballots whose TOTAL satisfaction per project is exactly the integer sats[p]:
    cardinal/cumulative + Additive_Cardinal_Sat (scores split over 1..3 voters) or approval + Cardinality_Sat
    (sats[p] approvers among max(sats) voters)"""
    if kind == "approval":
        nv = max(sats + [1])
        ballots = [[] for _ in range(nv)]
        for p, sp in enumerate(sats):
            for v in rng.sample(range(nv), sp):
                ballots[v].append(p)
        return [sorted(b) for b in ballots], "Cardinality_Sat"
    nv = rng.choice([1, 2, 3])
    ballots = [dict() for _ in range(nv)]
    for p, sp in enumerate(sats):
        rest = sp
        for v in range(nv):
            x = rest if v == nv - 1 else rng.randrange(0, rest + 1)
            rest -= x
            if x or rng.random() < 0.3:
                ballots[v][str(p)] = "%d/1" % x
    return ballots, "Additive_Cardinal_Sat"


def _targeted(rng, kind, costs, sats, b, stream):
    n = len(costs)
    order = list(range(n))
    rng.shuffle(order)                                   # random ranks: name order prefers either side
    costs = [costs[j] for j in order]
    sats = [sats[j] for j in order]
    ballots, sat = _sat_ballots(rng, kind, sats, n)
    tbs = ["lexico", "min_cost", "max_cost"] + (["app_score"] if kind == "approval" else [])
    return {"kind": kind, "costs": [pb.qs(c) for c in costs], "budget": pb.qs(b), "ballots": ballots,
            "multi": rng.random() < 0.4, "sat": sat, "tb": rng.choice(tbs),
            "additive": rng.choice([None, None, True, False]), "resolute": rng.random() < 0.85,
            "init": [], "via": "profile" if rng.random() < 0.25 else "class", "solver": False, "stream": stream}


def _gen_exact_tie(rng, i, tier):
    """an integer-cost and a fractional-cost project (ints and mpq inside the library) with EXACTLY equal
    satisfaction per cost, the common value not representable in binary; the budget fits only one of them"""
    from math import gcd

    kind = rng.choice(["approval", "approval", "cardinal", "cumulative"])
    top = 6 if kind == "approval" else 12
    while True:
        den = rng.choice([3, 5, 6, 7, 9, 11, 12, 13])
        num = rng.randrange(2, top + 1)
        if gcd(num, den) != 1:
            continue
        k = rng.choice([1, 1, 2])
        if num * k > top:
            continue
        sB = rng.randrange(1, top + 1)
        if (sB * den) % num == 0:
            continue
        break
    cA, sA = Fraction(den * k), num * k                  # density num/den, integer cost
    cB = Fraction(sB * den, num)                         # same density, fractional cost
    costs, sats = [cA, cB], [sA, sB]
    for _ in range(rng.choice([0, 0, 1, 2])):            # fillers: never denser than the tied pair
        c = pb.F(rng.choice([1, 2, 3, "3/2", "5/2", "7/3", 4]))
        smax = int(c * num / den)
        costs.append(c)
        sats.append(rng.randrange(0, min(top, smax) + 1))
    lo, hi = max(cA, cB), cA + cB
    b = rng.choice([lo, lo + (hi - lo) / 2, lo + (hi - lo) / 3, hi - Fraction(1, 7)])
    if rng.random() < 0.15:
        b = hi + rng.choice([0, 1])                      # sometimes both fit
    return _targeted(rng, kind, costs, sats, b, "exact_tie")


def _gen_near_tie(rng, i, tier):
    """two projects whose densities differ by a relative 1e-12 .. 1e-18 (large integers with
    sA*cB - sB*cA = +-1): the denser one must win whatever the tie-breaking rule says"""
    from math import gcd

    kind = rng.choice(["cardinal", "cardinal", "cumulative"])
    e = rng.choice([6, 7, 8, 9])
    while True:
        cA = rng.randrange(10 ** (e - 1), 10 ** e)
        cB = rng.randrange(10 ** (e - 1), 10 ** e)
        if cA != cB and gcd(cA, cB) == 1:
            break
    sA = pow(cB, -1, cA)                                 # sA*cB = 1 (mod cA)
    sB = (sA * cB - 1) // cA                             # sA*cB - sB*cA = 1  -> A is denser by 1/(cA*cB)
    costs, sats = [Fraction(cA), Fraction(cB)], [sA, sB]
    if rng.random() < 0.5:                               # a common rescaling keeps the order of the densities and
        g = rng.choice([2, 3, 7, Fraction(3, 2)])        # turns one or both costs into an mpq inside the library
        costs = [c / g for c in costs]
    if rng.random() < 0.3:
        costs.append(Fraction(rng.randrange(1, 10 ** (e - 2) + 2)))
        sats.append(0)
    lo, hi = max(costs[0], costs[1]), costs[0] + costs[1]
    b = rng.choice([lo, lo + (hi - lo) / 2, hi - 1])
    return _targeted(rng, kind, costs, sats, b, "near_tie")


def _gen_degenerate(rng, i, tier):
    """elections in which 'nothing to gain' short-cuts would be tempting: no ballot at all, only empty ballots, only
    unaffordable projects supported, everything affordable already in the initial allocation, all costs zero"""
    case = _gen_general(rng, i, tier)
    while case["solver"]:
        case = _gen_general(rng, i, tier)
    n = len(case["costs"])
    costs = [pb.F(c) for c in case["costs"]]
    b = pb.F(case["budget"])
    v = rng.randrange(6)
    empty = [] if case["kind"] in ("approval", "ordinal") else {}
    if v == 0:
        case["ballots"] = []
    elif v == 1:
        case["ballots"] = [empty for _ in range(rng.choice([1, 2, 3]))]
    elif v == 2:                                         # support only what cannot be afforded
        dear = [j for j in range(n) if costs[j] > b]
        if not dear:
            costs[0] = b + 1
            case["costs"][0] = pb.qs(costs[0])
            dear = [0]
        if case["kind"] in ("approval", "ordinal"):
            case["ballots"] = [list(dear) for _ in range(rng.choice([1, 2, 3]))]
        else:
            case["ballots"] = [{str(j): "2/1" for j in dear} for _ in range(rng.choice([1, 2, 3]))]
        case["init"] = [j for j in case["init"] if j not in dear and costs[j] <= b][:1]
        if sum((costs[j] for j in case["init"]), Fraction(0)) > b:
            case["init"] = []
    elif v == 3:                                         # initial allocation already exhaustive
        order = sorted(range(n), key=lambda j: costs[j])
        init, c = [], Fraction(0)
        for j in order:
            if c + costs[j] <= b:
                init.append(j)
                c += costs[j]
        case["init"] = init
    elif v == 4:
        case["costs"] = ["0/1"] * n
        case["init"] = case["init"][:1]
    else:
        case["ballots"] = []
        case["init"] = []
        case["multi"] = rng.random() < 0.5
    case["stream"] = "degenerate"
    return case


def gen(rng, i, tier):
    """stream dispatch + the CALL STYLE: the form in which the initial allocation is handed over (list, tuple, set,
    generator expression, iter(), map, filter, BudgetAllocation, None when empty), default vs explicit lexicographic
    tie-breaking, positional vs keyword arguments, None arguments passed vs omitted, analytics"""
    case = _gen0(rng, i, tier)
    if rng.random() < 0.5 and not case["init"] and case["stream"] in ("general", "degenerate", "exact_tie"):
        # more non-empty initial allocations: one affordable project
        costs = [pb.F(c) for c in case["costs"]]
        j = rng.randrange(len(costs))
        if costs[j] <= pb.F(case["budget"]) and case["stream"] != "exact_tie":
            case["init"] = [j]
    if case["stream"] not in ("near_tie", "history") and not case["solver"] and rng.random() < 0.14:
        case["tb"] = "refuse"
        if case["sat"] in NON_ADDITIVE and case["additive"]:
            case["additive"] = None                      # the definition is only claimed for the scheme of the measure
        if case["resolute"] and eff_additive(case) and rng.random() < 0.8:
            # keep the share of fast-path calls (recorded finding) small: most refuse calls exercise the general scheme
            if rng.random() < 0.6:
                case["additive"] = False
            else:
                case["resolute"] = False
        v = rng.random()
        if v < 0.25 and case["ballots"]:
            case["ballots"] = case["ballots"][:1]        # few voters: many equal densities
        elif v < 0.35:
            case["init"] = list(range(len(case["costs"]))) if sum(
                (pb.F(c) for c in case["costs"]), Fraction(0)) <= pb.F(case["budget"]) else case["init"]
    case["style"] = {"init_form": rng.choice(INIT_FORMS), "default_tb": rng.random() < 0.5,
                     "positional": rng.random() < 0.3, "omit_none": rng.random() < 0.5,
                     "analytics": rng.random() < 0.15}
    return case


def _gen0(rng, i, tier):
    r = i % 12
    if r in (1, 7):
        return _gen_exact_tie(rng, i, tier)
    if r == 4:
        return _gen_near_tie(rng, i, tier)
    if r == 10:
        return _gen_degenerate(rng, i, tier)
    case = _gen_general(rng, i, tier)
    case["stream"] = "history" if case.get("hist") else "general"
    return case


def eff_additive(case):
    a = case["additive"]
    if a is None:
        return case["sat"] in LIB_ADDITIVE
    return bool(a)


def claim_run(case):
    """does the property claim 'outcome of the greedy run of total_satisfaction'?"""
    return (not eff_additive(case)) or (not case["resolute"]) or case["sat"] not in NON_ADDITIVE


def _tie(name):
    from pabutools import tiebreaking as T

    return {"lexico": T.lexico_tie_breaking, "min_cost": T.min_cost_tie_breaking,
            "max_cost": T.max_cost_tie_breaking, "app_score": T.app_score_tie_breaking,
            "refuse": T.refuse_tie_breaking}[name]


def impl(case):
    """CBC occasionally dead-locks inside the C library: for solver-reaching cases a watchdog thread kills the worker
    (the case is then discarded as a solver fault and the remaining cases are resumed)"""
    import faulthandler

    if case.get("solver"):
        faulthandler.dump_traceback_later(20, exit=True)
    try:
        return _impl(case)
    finally:
        if case.get("solver"):
            faulthandler.cancel_dump_traceback_later()


# refuse_tie_breaking is judged on every election: "raises TieBreakingException iff some round of the greedy definition
# has two or more tied best candidates, otherwise the outcome" (Oracle.C03.refuse_run).  The general scheme satisfies
# it (repaired in /repo 6b1091c).  The additive fast path asks tie_breaking.order() for all projects outside the initial
# allocation up front and therefore raises without any tie: recorded finding c03_fast_path_refuse_consulted_up_front
# (harness/vharness/sig_c03.py); only that shape is suppressed.
REFUSE_JUDGE_EVERYWHERE = True

INIT_FORMS = ["list", "tuple", "set", "genexpr", "iter", "map", "filter", "budgetallocation", "none_if_empty"]


def _init_arg(form, projs, init):
    """the initial allocation in one of the forms the signature (Collection / Iterable of projects) allows;
    one-shot iterables are rebuilt for every call"""
    from pabutools.rules import BudgetAllocation

    items = [projs[j] for j in init]
    if form == "tuple":
        return tuple(items)
    if form == "set":
        return set(items)
    if form == "genexpr":
        return (p for p in items)
    if form == "iter":
        return iter(items)
    if form == "map":
        return map(lambda p: p, items)
    if form == "filter":
        return filter(lambda p: True, items)
    if form == "budgetallocation":
        return BudgetAllocation(items)
    if form == "none_if_empty" and not items:
        return None
    return items


def _call(inst, prof, projs, case, cls, satp, tb, init, resolute):
    from pabutools.rules import greedy_utilitarian_welfare

    st = case.get("style", {})
    init_arg = _init_arg(st.get("init_form", "list"), projs, init)
    tie = None if (tb == "lexico" and st.get("default_tb")) else _tie(tb)
    if case["via"] == "profile":
        a_cls, a_prof, a_add = None, satp, eff_additive(case)
    else:
        a_cls, a_prof, a_add = cls, None, case["additive"]
    analytics = bool(st.get("analytics"))
    if st.get("positional"):
        # (instance, profile, sat_class, sat_profile, is_sat_additive, tie_breaking, resoluteness,
        #  initial_budget_allocation, analytics)
        res = greedy_utilitarian_welfare(inst, prof, a_cls, a_prof, a_add, tie, resolute, init_arg, analytics)
    else:
        kw = {"resoluteness": resolute, "is_sat_additive": a_add}
        if a_cls is not None:
            kw["sat_class"] = a_cls
        if a_prof is not None:
            kw["sat_profile"] = a_prof
        if tie is not None or not st.get("omit_none"):
            kw["tie_breaking"] = tie
        if init_arg is not None or not st.get("omit_none"):
            kw["initial_budget_allocation"] = init_arg
        if analytics:
            kw["analytics"] = True
        res = greedy_utilitarian_welfare(inst, prof, **kw)
    return [pb.ranks(res)] if resolute else [pb.ranks(r) for r in res]


def _grow(case, inst, projs, prof, satp, cls, new_ballots, mode):
    """add the voters [new_ballots] IN PLACE to the profile object and to the satisfaction-profile object"""
    if not new_ballots:
        return
    multi = case["multi"]
    fresh = pb.make_profile(case["kind"], inst, projs, new_ballots, False)     # the new ballot objects
    items = [b.frozen() if multi else b for b in fresh]
    if mode == "profile_extend":
        prof.extend(items)
    else:
        for b in items:
            prof.append(b)
    if mode == "append":
        for b in items:
            satp.append(cls(inst, prof, b))
    elif mode == "iadd":
        from pabutools.election.satisfaction import SatisfactionProfile, SatisfactionMultiProfile

        if multi:
            other = SatisfactionMultiProfile(instance=inst)
            for b in items:
                other.append(cls(inst, prof, b))
        else:
            other = SatisfactionProfile([cls(inst, prof, b) for b in items], instance=inst)
        before = satp
        satp += other
        assert satp is before
    else:  # extend / profile_extend
        if multi:
            satp.extend_from_multiprofile(fresh.as_multiprofile(), cls)
        else:
            satp.extend_from_profile(fresh, cls)


def _impl(case):
    from pabutools.election import satisfaction as S

    if case.get("solver"):
        pb.install_solver_guard()
        pb.solver_reset()
    n = len(case["costs"])
    cls = getattr(S, case["sat"])
    hist = case.get("hist")
    inst, projs = pb.make_instance(case["costs"], case["budget"])
    out = {}
    if hist:
        k = hist["k"]
        prof = pb.make_profile(case["kind"], inst, projs, case["ballots"][:k], case["multi"])
        satp = prof.as_sat_profile(cls)
        out["first"] = _call(inst, prof, projs, case, cls, satp, hist["tb1"], hist["init1"], hist["resolute1"])
        _grow(case, inst, projs, prof, satp, cls, case["ballots"][k:], hist["mode"])
    else:
        prof = pb.make_profile(case["kind"], inst, projs, case["ballots"], case["multi"])
        satp = prof.as_sat_profile(cls)
    if case["tb"] == "refuse":
        from pabutools.tiebreaking import TieBreakingException

        try:
            out["out"] = _call(inst, prof, projs, case, cls, satp, case["tb"], case["init"], case["resolute"])
            out["raised"] = False
        except TieBreakingException:
            out["out"] = []
            out["raised"] = True
    else:
        out["out"] = _call(inst, prof, projs, case, cls, satp, case["tb"], case["init"], case["resolute"])
    if hist and hist.get("repeat"):
        out["again"] = _call(inst, prof, projs, case, cls, satp, case["tb"], case["init"], case["resolute"])
    # what the model is fed: the FINAL election, rebuilt from scratch (fresh profile, fresh satisfaction profile)
    inst2, projs2 = pb.make_instance(case["costs"], case["budget"])
    ref_prof = pb.make_profile(case["kind"], inst2, projs2, case["ballots"], case["multi"])
    ref = ref_prof.as_sat_profile(cls)
    out["tab"] = [core.qj(ref.total_satisfaction([projs2[j] for j in range(n) if (m >> j) & 1])) for m in range(2 ** n)]
    out["sp"] = [core.qj(ref.total_satisfaction_project(p)) for p in projs2]
    tie = _tie("lexico" if case["tb"] == "refuse" else case["tb"])     # refuse has no key: never consulted by the spec
    keys = []
    for p in projs2:
        kk = tie.func(inst2, ref_prof, p)
        keys.append(core.qj(pb.rank(p)) if isinstance(kk, str) else core.qj(kk))
    out["keys"] = keys
    out["mult"] = sorted(int(ref.multiplicity(s_)) for s_ in ref)
    if case.get("solver"):
        st = pb.solver_state()
        if st["faults"]:
            out["solver_fault"] = st["last_fault"]
    return out


REPEAT_DIFFERS = 6


def post(cases, obs):
    """python-side oracle: a repeated identical call on the same objects must return the identical outcome"""
    cases, obs = core.default_post(cases, obs)
    for o in obs:
        if isinstance(o, dict) and "again" in o and "py_fail" not in o and not o.get("discard"):
            if o["again"] != o["out"]:
                o["py_fail"] = REPEAT_DIFFERS
    return cases, obs


def coq_case(case, o):
    refuse = "None"
    if case["tb"] == "refuse":
        refuse = "(Some (%s, %s))" % (boolc(o.get("raised")), boolc(REFUSE_JUDGE_EVERYWHERE))
    return "(mkCase %s %s %s %s %s %s %s %s %s %s %s)" % (
        core.qlist(case["costs"]), q(case["budget"]), core.qlist(o["tab"]), core.qlist(o["sp"]),
        core.qlist(o["keys"]), natl(case["init"]), boolc(eff_additive(case)), boolc(case["resolute"]),
        boolc(claim_run(case)), lst([natl(w) for w in o["out"]]), refuse)


# ---- python reference of the general scheme: used for the evidence statistics only -------------------------------
def _trace(case, o):
    """replay the resolute general scheme on the observed tables; returns (rounds, rounds with >= 2 tied maximisers,
    rounds where the tie-breaking key did not separate them)"""
    costs = [pb.F(c) for c in case["costs"]]
    B = pb.F(case["budget"])
    tab = [Fraction(x) for x in o["tab"]]
    keys = [Fraction(x) for x in o["keys"]]
    n = len(costs)
    alloc = list(case["init"])
    rounds = tied = keytied = 0
    while True:
        c = sum((costs[j] for j in alloc), Fraction(0))
        feas = [p for p in range(n) if p not in alloc and c + costs[p] <= B]
        if not feas:
            break
        m0 = sum(1 << j for j in alloc)

        def dens(p):
            if costs[p] > 0:
                return (0, (tab[m0 | (1 << p)] - tab[m0]) / costs[p])
            return (1, Fraction(0))
        best = max(dens(p) for p in feas)
        arg = [p for p in feas if dens(p) == best]
        rounds += 1
        if len(arg) > 1:
            tied += 1
            kmin = min(keys[p] for p in arg)
            if sum(1 for p in arg if keys[p] == kmin) > 1:
                keytied += 1
        arg.sort(key=lambda p: (keys[p], p))
        alloc.append(arg[0])
    return rounds, tied, keytied


def _refuse_view(case, o):
    """(definition says raise, judged at present) for a refuse_tie_breaking case -- statistics only"""
    costs = [pb.F(c) for c in case["costs"]]
    B = pb.F(case["budget"])
    tab = [Fraction(x) for x in o["tab"]]
    n = len(costs)
    alloc = list(case["init"])
    first = True
    region = all(p in alloc for p in range(n))
    while True:
        c = sum((costs[j] for j in alloc), Fraction(0))
        feas = [p for p in range(n) if p not in alloc and c + costs[p] <= B]
        if not feas:
            return False, region
        m0 = sum(1 << j for j in alloc)
        dens = {p: ((0, (tab[m0 | (1 << p)] - tab[m0]) / costs[p]) if costs[p] > 0 else (1, Fraction(0))) for p in feas}
        best = max(dens.values())
        arg = [p for p in feas if dens[p] == best]
        if len(arg) >= 2:
            return True, region or first
        first = False
        alloc.append(arg[0])


def nontrivial(case, o):
    if not isinstance(o, dict) or "out" not in o:
        return None
    n = len(case["costs"])
    if case["tb"] == "refuse" and o.get("raised"):
        return ["refuse", case["kind"], case["costs"], case["budget"], case["ballots"], case["sat"],
                case["additive"], case["resolute"], case["init"], case["multi"]]
    if any(len(w) > len(case["init"]) and len(w) < n for w in o["out"]):
        return [case["kind"], case["costs"], case["budget"], case["ballots"], case["sat"], case["tb"],
                case["additive"], case["resolute"], case["init"], case["multi"], case.get("hist")]
    return None


def stats(cases, obs):
    d = {"ballot_type": {}, "sat": {}, "tb": {}, "scheme": {"fast": 0, "general_resolute": 0, "irresolute": 0},
         "additive_flag": {"default": 0, "forced_true": 0, "forced_false": 0},
         "fast_path_on_non_additive_measure": 0, "general_path_on_additive_measure": 0,
         "multiprofile": 0, "multiplicity_ge_2": 0, "nonempty_init": 0, "zero_cost": 0, "fractional_cost": 0,
         "equal_costs": 0, "no_voters": 0, "nproj_hist": {}, "nvoters_hist": {},
         "runs_with_tied_round": 0, "runs_with_tie_left_to_name_order": 0, "irresolute_with_several_outcomes": 0,
         "nothing_selected": 0, "everything_selected": 0, "float_valued_sat": 0, "sat_profile_passed": 0,
         "refuse_tie_breaking": {"cases": 0, "raised": 0, "judged": 0, "judged_must_raise": 0,
                                 "judged_must_not_raise": 0, "definition_says_no_tie_but_raised": 0,
                                 "fast_path": 0, "general_resolute": 0, "irresolute": 0},
         "solver_reaching": 0, "stream": {}, "init_form": {}, "init_form_with_nonempty_init": {},
         "one_shot_iterable_nonempty_init_by_scheme": {"fast": 0, "general_resolute": 0, "irresolute": 0},
         "default_tie_breaking": 0, "positional_arguments": 0, "analytics": 0,
         "exact_cross_kind_density_tie_non_dyadic": 0, "exact_tie_only_one_fits_fast_path": 0,
         "near_tie_rel_gap_below_1e-12": 0, "near_tie_only_one_fits": 0,
         "history": {"cases": 0, "voters_added_in_place": 0, "general_scheme": 0, "general_scheme_and_voters_added": 0,
                     "outcome_differs_from_first_call": 0, "general_voters_added_outcome_changed": 0,
                     "multiplicity_raised_in_place": 0, "reused_with_other_tb_or_init": 0, "repeated_call": 0,
                     "mode": {}}}

    def inc(h, k):
        h[str(k)] = h.get(str(k), 0) + 1
    for c, o in zip(cases, obs):
        if not isinstance(o, dict) or "out" not in o:
            continue
        inc(d["ballot_type"], c["kind"])
        inc(d["sat"], c["sat"])
        inc(d["tb"], c["tb"])
        inc(d["nproj_hist"], len(c["costs"]))
        inc(d["nvoters_hist"], len(c["ballots"]))
        ea = eff_additive(c)
        if not c["resolute"]:
            d["scheme"]["irresolute"] += 1
        elif ea:
            d["scheme"]["fast"] += 1
        else:
            d["scheme"]["general_resolute"] += 1
        d["additive_flag"]["default" if c["additive"] is None else ("forced_true" if c["additive"] else "forced_false")] += 1
        d["fast_path_on_non_additive_measure"] += bool(ea and c["resolute"] and c["sat"] in NON_ADDITIVE)
        d["general_path_on_additive_measure"] += bool((not ea) and c["sat"] not in NON_ADDITIVE)
        d["multiprofile"] += bool(c["multi"])
        d["multiplicity_ge_2"] += bool(c["multi"] and any(m >= 2 for m in o.get("mult", [])))
        d["nonempty_init"] += bool(c["init"])
        cs = [pb.F(x) for x in c["costs"]]
        d["zero_cost"] += any(x == 0 for x in cs)
        d["fractional_cost"] += any(x.denominator != 1 for x in cs)
        d["equal_costs"] += len(set(cs)) < len(cs)
        d["no_voters"] += not c["ballots"]
        d["float_valued_sat"] += c["sat"] in ("Cost_Sqrt_Sat", "Cost_Log_Sat", "Additive_Cost_Sqrt_Sat", "Additive_Cost_Log_Sat")
        d["sat_profile_passed"] += c["via"] == "profile"
        d["solver_reaching"] += bool(c.get("solver"))
        inc(d["stream"], c.get("stream", "corpus"))
        if c["tb"] == "refuse":
            RF = d["refuse_tie_breaking"]
            RF["cases"] += 1
            RF["raised"] += bool(o.get("raised"))
            RF["irresolute" if not c["resolute"] else ("fast_path" if ea else "general_resolute")] += 1
            try:
                must, judged = _refuse_view(c, o)
                judged = judged or REFUSE_JUDGE_EVERYWHERE
                RF["judged"] += judged
                RF["judged_must_raise"] += bool(judged and must)
                RF["judged_must_not_raise"] += bool(judged and not must)
                RF["definition_says_no_tie_but_raised"] += bool((not must) and o.get("raised"))
            except Exception:
                pass
        st_ = c.get("style", {})
        inc(d["init_form"], st_.get("init_form", "list"))
        if c["init"]:
            inc(d["init_form_with_nonempty_init"], st_.get("init_form", "list"))
            if st_.get("init_form") in ("genexpr", "iter", "map", "filter"):
                d["one_shot_iterable_nonempty_init_by_scheme"][
                    "irresolute" if not c["resolute"] else ("fast" if ea else "general_resolute")] += 1
        d["default_tie_breaking"] += bool(st_.get("default_tb") and c["tb"] == "lexico")
        d["positional_arguments"] += bool(st_.get("positional"))
        d["analytics"] += bool(st_.get("analytics"))
        try:
            spq = [Fraction(x) for x in o["sp"]]
            B = pb.F(c["budget"])
            pos = [j for j in range(len(cs)) if cs[j] > 0 and spq[j] > 0]
            xt = nt = False
            for a_ in pos:
                for b_ in pos:
                    if a_ < b_:
                        da, db = spq[a_] / cs[a_], spq[b_] / cs[b_]
                        one = max(cs[a_], cs[b_]) <= B < cs[a_] + cs[b_]
                        if da == db and (cs[a_].denominator == 1) != (cs[b_].denominator == 1):
                            dd = da.denominator
                            while dd % 2 == 0:
                                dd //= 2
                            if dd != 1:
                                d["exact_cross_kind_density_tie_non_dyadic"] += not xt
                                xt = True
                                if one and ea and c["resolute"]:
                                    d["exact_tie_only_one_fits_fast_path"] += 1
                        elif da != db and abs(da - db) / max(da, db) < Fraction(1, 10 ** 12):
                            d["near_tie_rel_gap_below_1e-12"] += not nt
                            nt = True
                            d["near_tie_only_one_fits"] += bool(one)
        except Exception:
            pass
        h = c.get("hist")
        if h:
            H = d["history"]
            H["cases"] += 1
            added = len(c["ballots"]) - h["k"]
            gen_path = (not ea) or (not c["resolute"])
            changed = sorted(map(sorted, o.get("first", []))) != sorted(map(sorted, o["out"]))
            H["voters_added_in_place"] += added > 0
            H["general_scheme"] += gen_path
            H["general_scheme_and_voters_added"] += bool(gen_path and added > 0)
            H["outcome_differs_from_first_call"] += changed
            H["general_voters_added_outcome_changed"] += bool(gen_path and added > 0 and changed)
            H["multiplicity_raised_in_place"] += bool(c["multi"] and any(x in c["ballots"][:h["k"]] for x in c["ballots"][h["k"]:]))
            H["reused_with_other_tb_or_init"] += bool(h["tb1"] != c["tb"] or h["init1"] != c["init"])
            H["repeated_call"] += bool(h.get("repeat"))
            if added > 0:
                inc(H["mode"], h["mode"])
        try:
            r, t, kt = _trace(c, o)
            d["runs_with_tied_round"] += t > 0
            d["runs_with_tie_left_to_name_order"] += kt > 0
        except Exception:
            pass
        if not c["resolute"] and len(o["out"]) > 1:
            d["irresolute_with_several_outcomes"] += 1
        d["nothing_selected"] += all(len(w) == len(c["init"]) for w in o["out"])
        d["everything_selected"] += all(len(w) == len(c["costs"]) for w in o["out"])
    return d


def shrink(case):
    n = len(case["costs"])
    for j in range(n):                                    # drop a project
        if n <= 1:
            break
        c = dict(case)
        c["costs"] = case["costs"][:j] + case["costs"][j + 1:]
        ren = lambda W: [x - (x > j) for x in W if x != j]
        c["init"] = ren(case["init"])
        if case["kind"] in ("approval", "ordinal"):
            c["ballots"] = [ren(b) for b in case["ballots"]]
        else:
            c["ballots"] = [{str(int(k) - (int(k) > j)): v for k, v in b.items() if int(k) != j} for b in case["ballots"]]
        yield c
    for j in range(len(case["ballots"])):                 # drop a voter
        c = dict(case)
        c["ballots"] = case["ballots"][:j] + case["ballots"][j + 1:]
        if case.get("hist") and j < case["hist"]["k"]:
            c["hist"] = dict(case["hist"], k=case["hist"]["k"] - 1)
        yield c
    if case.get("hist"):
        h = case["hist"]
        if h.get("repeat"):
            c = dict(case)
            c["hist"] = dict(h, repeat=False)
            yield c
        if h["tb1"] != case["tb"] or h["init1"] != case["init"] or h["resolute1"] != case["resolute"]:
            c = dict(case)
            c["hist"] = dict(h, tb1=case["tb"], init1=case["init"], resolute1=case["resolute"])
            yield c
    if case["init"]:
        c = dict(case)
        c["init"] = []
        yield c
    if case["multi"]:
        c = dict(case)
        c["multi"] = False
        yield c
    if case["tb"] != "lexico":
        c = dict(case)
        c["tb"] = "lexico"
        yield c


def describe(case, o, code):
    return {"scheme": ("irresolute/general" if not case["resolute"] else ("additive fast path" if eff_additive(case) else "general")),
            "returned": o.get("out") if isinstance(o, dict) else None}
