"""C03 -- the greedy welfare rule follows its definition and exhausts the budget."""
from __future__ import annotations

from fractions import Fraction

from .. import core
from ..core import q, lst, natl, boolc
from .. import pb

ID = "C03"
ORACLE = "Oracle.C03"
PROPS = "Props/C03.v"
LEVEL = "proof"
SHARD = 40
MAX_DISCARD = 0.05
CODES = {
    1: ("oracle", "a returned allocation is not exhaustive (another project of the instance still fits)"),
    2: ("oracle", "the resolute outcome is not the outcome of the greedy run of the definition "
                  "(largest marginal satisfaction per cost among the projects that fit, ties by the tie-breaking rule)"),
    3: ("model", "the resolute outcome differs (as a set) from the Gallina model of the scheme that ran"),
    4: ("model", "the irresolute outcomes differ (as a set of sets) from the Gallina model"),
    5: ("model", "malformed observation"),
    core.RAISED: ("oracle", "the call raised / the interpreter died outside the solver"),
}
RULE = ("elections with 0..6 voters and 1..7 projects (<=6 when irresolute); all four ballot types x every shipped "
        "satisfaction measure accepted by the ballot type x Profile/MultiProfile x every shipped tie-breaking rule "
        "accepted x is_sat_additive in {default, forced True, forced False} x resolute/irresolute x feasible initial "
        "allocations; costs from tie-rich pools (zeros, equal costs, halves/thirds), budgets on boundaries; "
        "non-trivial = distinct election in which at least one project is selected beyond the initial allocation "
        "and at least one project of the instance is left out")
ASSUMPTIONS = [
    "hand-written Gallina model of greedywelfare_rule.py tied to the code by differential execution only",
    "satisfaction values are inputs: total_satisfaction of every subset and total_satisfaction_project are read "
    "exactly (mpq; floats as their exact binary value) from the implementation's own satisfaction profile",
    "tie-breaking keys are read from the implementation's TieBreakingRule.func; stable sorted() = insertion sort",
    "non-negative utilities (the quantifier of the property)",
    "Relative_Cost_Sat / Additive_Cardinal_Relative_Sat reach CBC while building the satisfaction profile: answers "
    "re-validated, faults discarded",
]
TRUSTED = ["Model/GreedyRule.v mirrors pabutools/rules/greedywelfare/greedywelfare_rule.py (modelled, not verified)"]
EXPLANATION = ("Theorems (unbounded): the general scheme's run is a run of the declarative spec (which is deterministic); "
               "every outcome of either scheme, resolute or irresolute, is feasible, contains the initial allocation "
               "and is exhaustive; for additive non-negative satisfaction the sort-once fast path selects the same set "
               "as the general scheme.  Tie: returned allocations are checked in Coq for exhaustiveness, replayed "
               "against the spec along the returned order, and compared as sets (sets of sets) with the model.")

APPROVAL_SATS = ["Cost_Sat", "Cardinality_Sat", "Effort_Sat", "Relative_Cardinality_Sat",
                 "Relative_Cost_Approx_Normaliser_Sat", "Additive_Cost_Sqrt_Sat", "Additive_Cost_Log_Sat",
                 "CC_Sat", "Cost_Sqrt_Sat", "Cost_Log_Sat", "Relative_Cost_Sat"]
CARDINAL_SATS = ["Additive_Cardinal_Sat", "CC_Sat", "Cost_Sat", "Cardinality_Sat", "Effort_Sat",
                 "Relative_Cardinality_Sat", "Relative_Cost_Approx_Normaliser_Sat", "Relative_Cost_Sat",
                 "Additive_Cardinal_Relative_Sat"]
ORDINAL_SATS = ["Additive_Borda_Sat", "Cost_Sat", "Cardinality_Sat", "Effort_Sat", "Relative_Cardinality_Sat",
                "Relative_Cost_Approx_Normaliser_Sat", "Relative_Cost_Sat"]
SATS = {"approval": APPROVAL_SATS, "cardinal": CARDINAL_SATS, "cumulative": CARDINAL_SATS, "ordinal": ORDINAL_SATS}
SOLVER_SATS = {"Relative_Cost_Sat", "Additive_Cardinal_Relative_Sat"}
NON_ADDITIVE = {"CC_Sat", "Cost_Sqrt_Sat", "Cost_Log_Sat"}
# measures the library itself treats as additive (subclasses of AdditiveSatisfaction): default flag = True
LIB_ADDITIVE = {"Cost_Sat", "Cardinality_Sat", "Effort_Sat", "Relative_Cardinality_Sat",
                "Relative_Cost_Approx_Normaliser_Sat", "Additive_Cost_Sqrt_Sat", "Additive_Cost_Log_Sat",
                "Relative_Cost_Sat", "Additive_Cardinal_Sat", "Additive_Cardinal_Relative_Sat"}

POOLS = [
    [0, 1, 1, 2, 2, 3],
    [1, 2, 3, 4, 5],
    ["1/2", "1/3", "3/4", "2/3", "1/7", 1],
    [2, 2, 2, 2],
    [0, 0, 1],
    ["5/2", "7/3", 5, 10, "1/10"],
    [1, 1, 1, 2],
    [1, 2, 2, 4, 4],
]


def budget(tier):
    return 3000 if tier == "quick" else 40000


def _gen_ballots(rng, kind, n, nv):
    ballots = []
    for _ in range(nv):
        if ballots and rng.random() < 0.35:
            ballots.append(rng.choice(ballots))          # duplicates -> multiplicities >= 2
            continue
        mode = rng.randrange(6)
        if mode == 0:
            sup = []
        elif mode == 1:
            sup = list(range(n))
        else:
            sup = sorted(rng.sample(range(n), rng.randrange(0, n + 1)))
        if kind == "approval":
            ballots.append(sup)
        elif kind == "ordinal":
            sup = list(sup)
            rng.shuffle(sup)
            ballots.append(sup)
        else:
            pool = [0, 1, 1, 2, 3, "1/2"] if kind == "cardinal" else [0, 1, 1, 2, 3]
            ballots.append({str(j): pb.qs(rng.choice(pool)) for j in sup})
    return ballots


def gen(rng, i, tier):
    kind = rng.choice(["approval"] * 9 + ["cardinal"] * 4 + ["cumulative"] * 3 + ["ordinal"] * 4)
    resolute = rng.random() < 0.7
    n = rng.choice([1, 2, 3, 3, 4, 4, 5, 5, 6, 6, 7]) if resolute else rng.choice([1, 2, 3, 3, 4, 4, 5, 5, 6])
    pool = rng.choice(POOLS)
    costs = [pb.F(rng.choice(pool)) for _ in range(n)]
    tot = sum(costs, Fraction(0))
    mode = rng.choice([0, 1, 2, 3, 3, 3, 4, 4, 4, 5, 6, 6, 6, 7, 7])
    if mode == 0:
        b = tot
    elif mode == 1:
        b = tot + rng.choice([1, Fraction(1, 2)])
    elif mode == 2:
        b = min(costs)
    elif mode == 3:
        b = sum(rng.sample(costs, rng.randrange(1, n + 1)), Fraction(0))
    elif mode == 4:
        b = tot * Fraction(rng.randrange(1, 8), 8)
    elif mode == 5:
        b = max(Fraction(0), min(costs) - Fraction(1, 3))
    elif mode == 6:
        b = tot / 2
    else:
        b = Fraction(rng.choice([1, 2, 3, 4, 5]))
    if b <= 0 and rng.random() < 0.8:
        b = Fraction(rng.choice([1, 2, 3]))
    nv = rng.choice([0, 1, 2, 3, 3, 4, 4, 5, 5, 6, 6])
    ballots = _gen_ballots(rng, kind, n, nv)
    sat = rng.choice(SATS[kind])
    if sat in SOLVER_SATS and rng.random() < 0.5:      # keep the solver-reaching share small
        sat = rng.choice([s for s in SATS[kind] if s not in SOLVER_SATS])
    solver = sat in SOLVER_SATS
    tbs = ["lexico", "min_cost", "max_cost"] + (["app_score"] if kind == "approval" else [])
    tb = rng.choice(tbs)
    additive = rng.choice([None, True, True, False] if sat in NON_ADDITIVE else [None, None, True, False])
    # initial allocation: a feasible subset
    init = []
    if rng.random() < 0.4:
        order = list(range(n))
        rng.shuffle(order)
        c = Fraction(0)
        for j in order[: rng.randrange(0, n + 1)]:
            if c + costs[j] <= b:
                init.append(j)
                c += costs[j]
    via = "profile" if (solver or rng.random() < 0.25) else "class"
    return {"kind": kind, "costs": [pb.qs(c) for c in costs], "budget": pb.qs(b), "ballots": ballots,
            "multi": rng.random() < 0.45, "sat": sat, "tb": tb, "additive": additive, "resolute": resolute,
            "init": init, "via": via, "solver": solver}


def eff_additive(case):
    a = case["additive"]
    if a is None:
        return case["sat"] in LIB_ADDITIVE
    return bool(a)


def claim_run(case):
    """does the property claim 'outcome of the greedy run of total_satisfaction'?"""
    return (not eff_additive(case)) or (not case["resolute"]) or case["sat"] not in NON_ADDITIVE


def _tie(name):
    from pabutools import tiebreaking as T

    return {"lexico": T.lexico_tie_breaking, "min_cost": T.min_cost_tie_breaking,
            "max_cost": T.max_cost_tie_breaking, "app_score": T.app_score_tie_breaking}[name]


def impl(case):
    """CBC occasionally dead-locks inside the C library: for solver-reaching cases a watchdog thread kills the worker
    (the case is then discarded as a solver fault and the remaining cases are resumed)"""
    import faulthandler

    if case.get("solver"):
        faulthandler.dump_traceback_later(20, exit=True)
    try:
        return _impl(case)
    finally:
        if case.get("solver"):
            faulthandler.cancel_dump_traceback_later()


def _impl(case):
    from pabutools.election import satisfaction as S
    from pabutools.rules import greedy_utilitarian_welfare

    if case.get("solver"):
        pb.install_solver_guard()
        pb.solver_reset()
    n = len(case["costs"])
    inst, projs = pb.make_instance(case["costs"], case["budget"])
    prof = pb.make_profile(case["kind"], inst, projs, case["ballots"], case["multi"])
    cls = getattr(S, case["sat"])
    satp = prof.as_sat_profile(cls)
    tab = [core.qj(satp.total_satisfaction([projs[j] for j in range(n) if (m >> j) & 1])) for m in range(2 ** n)]
    sp = [core.qj(satp.total_satisfaction_project(p)) for p in projs]
    tie = _tie(case["tb"])
    keys = []
    for p in projs:
        k = tie.func(inst, prof, p)
        keys.append(core.qj(pb.rank(p)) if isinstance(k, str) else core.qj(k))
    kw = {"tie_breaking": tie, "resoluteness": case["resolute"],
          "initial_budget_allocation": [projs[j] for j in case["init"]]}
    if case["via"] == "profile":
        kw["sat_profile"] = satp
        kw["is_sat_additive"] = eff_additive(case)
    else:
        kw["sat_class"] = cls
        kw["is_sat_additive"] = case["additive"]
    if case["tb"] == "lexico" and case.get("default_tb"):
        del kw["tie_breaking"]
    res = greedy_utilitarian_welfare(inst, prof, **kw)
    out = {"tab": tab, "sp": sp, "keys": keys,
           "mult": sorted(int(satp.multiplicity(s)) for s in satp)}
    if case["resolute"]:
        out["out"] = [pb.ranks(res)]
    else:
        out["out"] = [pb.ranks(r) for r in res]
    if case.get("solver"):
        st = pb.solver_state()
        if st["faults"]:
            out["solver_fault"] = st["last_fault"]
    return out


def coq_case(case, o):
    return "(mkCase %s %s %s %s %s %s %s %s %s %s)" % (
        core.qlist(case["costs"]), q(case["budget"]), core.qlist(o["tab"]), core.qlist(o["sp"]),
        core.qlist(o["keys"]), natl(case["init"]), boolc(eff_additive(case)), boolc(case["resolute"]),
        boolc(claim_run(case)), lst([natl(w) for w in o["out"]]))


# ---- python reference of the general scheme: used for the evidence statistics only -------------------------------
def _trace(case, o):
    """replay the resolute general scheme on the observed tables; returns (rounds, rounds with >= 2 tied maximisers,
    rounds where the tie-breaking key did not separate them)"""
    costs = [pb.F(c) for c in case["costs"]]
    B = pb.F(case["budget"])
    tab = [Fraction(x) for x in o["tab"]]
    keys = [Fraction(x) for x in o["keys"]]
    n = len(costs)
    alloc = list(case["init"])
    rounds = tied = keytied = 0
    while True:
        c = sum((costs[j] for j in alloc), Fraction(0))
        feas = [p for p in range(n) if p not in alloc and c + costs[p] <= B]
        if not feas:
            break
        m0 = sum(1 << j for j in alloc)

        def dens(p):
            if costs[p] > 0:
                return (0, (tab[m0 | (1 << p)] - tab[m0]) / costs[p])
            return (1, Fraction(0))
        best = max(dens(p) for p in feas)
        arg = [p for p in feas if dens(p) == best]
        rounds += 1
        if len(arg) > 1:
            tied += 1
            kmin = min(keys[p] for p in arg)
            if sum(1 for p in arg if keys[p] == kmin) > 1:
                keytied += 1
        arg.sort(key=lambda p: (keys[p], p))
        alloc.append(arg[0])
    return rounds, tied, keytied


def nontrivial(case, o):
    if not isinstance(o, dict) or "out" not in o:
        return None
    n = len(case["costs"])
    if any(len(w) > len(case["init"]) and len(w) < n for w in o["out"]):
        return [case["kind"], case["costs"], case["budget"], case["ballots"], case["sat"], case["tb"],
                case["additive"], case["resolute"], case["init"], case["multi"]]
    return None


def stats(cases, obs):
    d = {"ballot_type": {}, "sat": {}, "tb": {}, "scheme": {"fast": 0, "general_resolute": 0, "irresolute": 0},
         "additive_flag": {"default": 0, "forced_true": 0, "forced_false": 0},
         "fast_path_on_non_additive_measure": 0, "general_path_on_additive_measure": 0,
         "multiprofile": 0, "multiplicity_ge_2": 0, "nonempty_init": 0, "zero_cost": 0, "fractional_cost": 0,
         "equal_costs": 0, "no_voters": 0, "nproj_hist": {}, "nvoters_hist": {},
         "runs_with_tied_round": 0, "runs_with_tie_left_to_name_order": 0, "irresolute_with_several_outcomes": 0,
         "nothing_selected": 0, "everything_selected": 0, "float_valued_sat": 0, "sat_profile_passed": 0,
         "solver_reaching": 0}

    def inc(h, k):
        h[str(k)] = h.get(str(k), 0) + 1
    for c, o in zip(cases, obs):
        if not isinstance(o, dict) or "out" not in o:
            continue
        inc(d["ballot_type"], c["kind"])
        inc(d["sat"], c["sat"])
        inc(d["tb"], c["tb"])
        inc(d["nproj_hist"], len(c["costs"]))
        inc(d["nvoters_hist"], len(c["ballots"]))
        ea = eff_additive(c)
        if not c["resolute"]:
            d["scheme"]["irresolute"] += 1
        elif ea:
            d["scheme"]["fast"] += 1
        else:
            d["scheme"]["general_resolute"] += 1
        d["additive_flag"]["default" if c["additive"] is None else ("forced_true" if c["additive"] else "forced_false")] += 1
        d["fast_path_on_non_additive_measure"] += bool(ea and c["resolute"] and c["sat"] in NON_ADDITIVE)
        d["general_path_on_additive_measure"] += bool((not ea) and c["sat"] not in NON_ADDITIVE)
        d["multiprofile"] += bool(c["multi"])
        d["multiplicity_ge_2"] += bool(c["multi"] and any(m >= 2 for m in o.get("mult", [])))
        d["nonempty_init"] += bool(c["init"])
        cs = [pb.F(x) for x in c["costs"]]
        d["zero_cost"] += any(x == 0 for x in cs)
        d["fractional_cost"] += any(x.denominator != 1 for x in cs)
        d["equal_costs"] += len(set(cs)) < len(cs)
        d["no_voters"] += not c["ballots"]
        d["float_valued_sat"] += c["sat"] in ("Cost_Sqrt_Sat", "Cost_Log_Sat", "Additive_Cost_Sqrt_Sat", "Additive_Cost_Log_Sat")
        d["sat_profile_passed"] += c["via"] == "profile"
        d["solver_reaching"] += bool(c.get("solver"))
        try:
            r, t, kt = _trace(c, o)
            d["runs_with_tied_round"] += t > 0
            d["runs_with_tie_left_to_name_order"] += kt > 0
        except Exception:
            pass
        if not c["resolute"] and len(o["out"]) > 1:
            d["irresolute_with_several_outcomes"] += 1
        d["nothing_selected"] += all(len(w) == len(c["init"]) for w in o["out"])
        d["everything_selected"] += all(len(w) == len(c["costs"]) for w in o["out"])
    return d


def shrink(case):
    n = len(case["costs"])
    for j in range(n):                                    # drop a project
        if n <= 1:
            break
        c = dict(case)
        c["costs"] = case["costs"][:j] + case["costs"][j + 1:]
        ren = lambda W: [x - (x > j) for x in W if x != j]
        c["init"] = ren(case["init"])
        if case["kind"] in ("approval", "ordinal"):
            c["ballots"] = [ren(b) for b in case["ballots"]]
        else:
            c["ballots"] = [{str(int(k) - (int(k) > j)): v for k, v in b.items() if int(k) != j} for b in case["ballots"]]
        yield c
    for j in range(len(case["ballots"])):                 # drop a voter
        c = dict(case)
        c["ballots"] = case["ballots"][:j] + case["ballots"][j + 1:]
        yield c
    if case["init"]:
        c = dict(case)
        c["init"] = []
        yield c
    if case["multi"]:
        c = dict(case)
        c["multi"] = False
        yield c
    if case["tb"] != "lexico":
        c = dict(case)
        c["tb"] = "lexico"
        yield c


def describe(case, o, code):
    return {"scheme": ("irresolute/general" if not case["resolute"] else ("additive fast path" if eff_additive(case) else "general")),
            "returned": o.get("out") if isinstance(o, dict) else None}
