"""C16 -- multiprofiles are faithful multisets of ballots."""
from __future__ import annotations

import atexit
import json
import os
import subprocess
from fractions import Fraction

from .. import core
from ..core import q, lst, natl, boolc, pair

ID = "C16"
ORACLE = "Oracle.C16"
PROPS = "Props/C16.v"
LEVEL = "proof"
SHARD = 60
SEEDS = {"quick": (0, 1, 4242), "thorough": (0, 1, 4242, 31337, 987654321)}
CODES = {
    1: ("oracle", "num_ballots() differs from the number of ballots inserted"),
    2: ("oracle", "len(multiprofile) differs from the number of distinct ballot contents"),
    3: ("oracle", "multiplicity(ballot.frozen()) differs from the number of voters who cast an equal ballot"),
    4: ("oracle", "== between frozen ballots differs from 'same content'"),
    5: ("oracle", "equal frozen ballots have different hashes"),
    6: ("oracle", "frozen() does not preserve the content / name / meta of the ballot"),
    7: ("oracle", "the observables differ between PYTHONHASHSEED values"),
    8: ("model", "content of a mutable ballot differs from the model of its insertion history"),
    9: ("model", "entries of the multiprofile (keys, order, counts) differ from Model/Profiles.v"),
    10: ("model", "items of a frozen ballot differ from Model/Ballots.v"),
    11: ("oracle", "multiplicity(frozen ballot) differs from the number of inserted ballots that are == to it "
                   "(counting by the implementation's own ==)"),
    14: ("model", "== between directly constructed FrozenApprovalBallots differs from tuple equality (Model/Ballots.v)"),
    core.RAISED: ("oracle", "building the ballots / multiprofile raised"),
}
RULE = ("1..7 ballots of one of the four types over 2..6 projects, drawn from 1..3 content templates and built by "
        "different insertion histories (shuffled order, constructor vs incremental insertion, overwritten scores, "
        "delete + re-insert, duplicates, distinct-but-equal Project objects, int/mpq/Fraction/float scores incl. thirds, "
        "sevenths, scores differing only beyond the 9th decimal (1e-10..1e-15), 0.1+0.2 vs 0.3, integers beyond 2**53, "
        "negative scores, empty ballots); "
        "multiprofile built by conversion (as_multiprofile / profile=), from frozen ballots, or incrementally by "
        "append/extend/update/second conversion, the ballots being handed over as list, tuple, generator expression, "
        "map(), iter(list), Profile objects of mutable ballots (built by constructor, extend, +=, slice, copy, +), Profile "
        "objects of FROZEN ballots (ballot_type = the frozen class or validation off; grown, sliced, copied, added, or a "
        "generator over them), other MultiProfiles, Counters and dicts {ballot: count}, through init= / the positional "
        "argument / profile= / update() / extend() / +=, with shared objects or with "
        "TEMPORARIES built on the fly; in 60 % of the cases ballots that were already frozen / inserted are EDITED IN "
        "PLACE (same Python object, every mutator of the class: add/update/|=/discard/remove/-=, b[p]=s/update/|=/"
        "setdefault/pop/del/popitem/clear, append) and frozen / extended / converted again, incl. edit-and-revert; "
        "every fifth case builds the Frozen* classes DIRECTLY (from lists / tuples / dicts given in different orders, from "
        "other frozen ballots, from mutable ballots) and mixes them with ordinary ballots; "
        "every case executed in separate interpreters under each PYTHONHASHSEED of the tier, project "
        "names re-drawn per case; non-trivial = some content inserted at least twice through different histories")
ASSUMPTIONS = [
    "hand-written Gallina model of the ballot classes and MultiProfile tied to the code by differential execution only",
    "CPython dict/Counter lookup = (hash equal and ==); dict keeps insertion order; set iteration order is some permutation",
    "scores are serialised in lowest terms, Python numeric == is equality of the reduced fractions",
]
TRUSTED = ["Model/Ballots.v, Model/Profiles.v mirror pabutools/election/ballot/*.py and profile/profile.py "
           "(modelled, not verified)", "harness/vharness/props/c16_helper.py (runs the library under each hash seed)"]
EXPLANATION = ("Theorems (unbounded, by induction over the history): a Counter keyed by frozen ballots under a lookup "
               "that agrees with 'same content' reports num_ballots = history length, one entry per distinct content and "
               "multiplicity = number of equal ballots; the four repaired classes freeze canonically and hash "
               "consistently for every set iteration order / hash function, hence are faithful; freezing preserves "
               "content, name, meta; the pre-repair freeze/hash are refuted.  Tie: real objects under >=3 hash seeds "
               "compared in Coq with the restated property and with the model (entries, order, frozen items).")

KINDS = ["app", "card", "cum", "ord"]
KCOQ = {"app": "KApp", "card": "KCard", "cum": "KCum", "ord": "KOrd"}
SCORES = ["0/1", "1/1", "2/1", "1/2", "3/1", "3/2", "5/1",
          # full precision: thirds, sevenths, 9-decimal neighbours, offsets of 1e-10 .. 1e-15, integers beyond 2**53,
          # negative scores, and two exact binary floats (0.1 + 0.2 and 0.3)
          "1/3", "2/3", "1/7", "22/7", "333333333/1000000000", "333333334/1000000000",
          "1000000001/10000000000", "1/1000000000000000", "-1/1", "-1/3", "-5/2",
          "9007199254740992/1", "9007199254740993/1", "9007199254740991/1", "1152921504606846977/1",
          "1351079888211149/4503599627370496", "5404319552844595/18014398509481984"]
# pairs of scores that differ only far behind the decimal point (or by 1 beyond 2**53): distinct ballots
NEAR = [("1/3", "333333333/1000000000"), ("1/3", "3333333333333333/10000000000000000"),
        ("1/1", "1000000000001/1000000000000"), ("2/1", "2000000000000001/1000000000000000"),
        ("1/7", "142857143/1000000000"), ("9007199254740992/1", "9007199254740993/1"),
        ("1351079888211149/4503599627370496", "5404319552844595/18014398509481984"), ("0/1", "1/1000000000000000"), ("-1/3", "-333333333/1000000000"),
        ("1/2", "50000000001/100000000000")]



def budget(tier):
    return 520 if tier == "quick" else 6000


# ------------------------------------------------------------------------------------------------
# generation
# ------------------------------------------------------------------------------------------------
def _history_for(rng, kind, content):
    """a random insertion history that ends in `content` (list of [p, score] in dict order for ord;
    any order for the others)"""
    items = list(content)
    if kind != "ord":
        rng.shuffle(items)
    hist = []
    present = []
    for p, s in items:
        r = rng.random()
        if kind in ("card", "cum") and r < 0.2:
            hist.append(["+", p, rng.choice(SCORES)])     # overwritten below
        elif r < 0.3:
            hist.append(["+", p, s])                      # duplicate insertion
        elif kind != "ord" and r < 0.4:
            hist.append(["+", p, s])
            hist.append(["-", p])                         # delete and re-insert
        hist.append(["+", p, s])
        present.append(p)
    return hist


def _noise(rng, kind, hist, content, nproj):
    """insert a project outside the content and remove it again, at a random place"""
    outside = [p for p in range(nproj) if p not in [c[0] for c in content]]
    if outside and rng.random() < 0.25:
        p = rng.choice(outside)
        i = rng.randrange(len(hist) + 1)
        j = rng.randrange(i, len(hist) + 1)
        hist = hist[:i] + [["+", p, rng.choice(SCORES) if kind in ("card", "cum") else "0/1"]] + hist[i:j] + [["-", p]] + hist[j:]
    return hist


# FrozenApprovalBallot(approval_ballot) (not .frozen()) froze in SET-ITERATION order (hash-seed dependent, unequal to
# ballot.frozen()) before repair 48c2140 (found by this check); now it is the name-sorted tuple = ballot.frozen()
FROZEN_APP_FROM_SET_OK = True


def gen_direct(rng, i, tier):
    """frozen ballots that never went through Ballot.frozen(): every Frozen* class built directly from sequences /
    dicts given in different orders, from other frozen ballots and from mutable ballots, mixed with ordinary ballots"""
    kind = KINDS[i % 4]
    nproj = rng.choice([2, 3, 4, 5])
    temps = []
    for _ in range(rng.choice([1, 2, 2])):
        ps = rng.sample(range(nproj), rng.randrange(2, nproj + 1))
        temps.append([[p, rng.choice(SCORES) if kind in ("card", "cum") else "0/1"] for p in ps])
    if kind in ("card", "cum") and rng.random() < 0.6:
        a, b_ = rng.choice(NEAR)                    # two templates that differ only far behind the decimal point
        t = [list(x) for x in temps[0]]
        temps[0][0][1] = a
        t[0][1] = b_
        temps = [temps[0], t] + temps[2:]
    ballots = []
    for j in range(rng.choice([2, 3, 4, 5, 6])):
        content = list(rng.choice(temps))
        r = rng.random()
        if r < 0.3:
            pass                                   # the template's own order
        elif r < 0.6:
            content = sorted(content)              # name order (what ApprovalBallot.frozen() produces)
        else:
            rng.shuffle(content)
        hist = [["+", p, sc] for p, sc in content]
        b = {"hist": hist, "ctor": len(hist), "name": rng.choice([j + 1, j + 1, 0]), "meta": rng.choice([0, 0, 1, 2, 3]),
             "numrep": rng.choice(["int", "mpq", "frac", "float"])}
        if rng.random() < 0.75:
            modes = ["seq", "seq", "frozen"] + (["mutable"] if kind != "app" or FROZEN_APP_FROM_SET_OK else [])
            b["direct"] = rng.choice(modes)
            b["seqtype"] = rng.choice(["list", "tuple"])
        ballots.append(b)
    nb = len(ballots)
    pool = list(range(nb)) + [rng.randrange(nb) for _ in range(rng.choice([0, 1, 2, 4]))]
    rng.shuffle(pool)
    ops = []
    k = 0
    if rng.random() < 0.4:
        k = rng.randrange(0, len(pool) + 1)
        ops.append(["init", pool[:k]])
    while k < len(pool):
        t = rng.choice(["append", "extend", "extend_frozen", "update_frozen"])
        if t == "append":
            ops.append(["append", pool[k]])
            k += 1
        else:
            n = rng.randrange(1, len(pool) - k + 1)
            ops.append([t, pool[k:k + n]])
            k += n
    _decorate_ops(rng, ops)
    for op in ops:
        # plain 'extend' of a mix freezes the mutable ones and takes the frozen ones as they are; no temporaries of
        # another class here
        if op[0] == "extend" and len(op) > 2:
            op[2] = op[2].split("+")[0]
    return {"kind": kind, "nproj": nproj, "prefix": rng.choice(["p", "q", "zz", "Proj_"]), "ballots": ballots, "ops": ops,
            "fresh_projects": rng.random() < 0.5, "tier": tier, "direct_case": True}


def gen(rng, i, tier):
    if i % 5 == 4:
        return gen_direct(rng, i // 5, tier)
    kind = KINDS[i % 4]
    nproj = rng.choice([2, 3, 3, 4, 4, 5, 6])
    prefix = rng.choice(["p", "q", "proj", "x", "zz", "A", "b_", "k9", "Proj_"]) + rng.choice(["", "", "a", "7", "-"])
    ntemp = rng.choice([1, 2, 2, 3])
    temps = []
    for _ in range(ntemp):
        mode = rng.random()
        if mode < 0.1:
            ps = []
        elif mode < 0.2:
            ps = list(range(nproj))
        else:
            ps = rng.sample(range(nproj), rng.randrange(1, nproj + 1))
        if kind == "ord":
            rng.shuffle(ps)
        else:
            ps.sort()
        sc = rng.choice(SCORES)
        temps.append([[p, (rng.choice(SCORES) if rng.random() < 0.7 else sc) if kind in ("card", "cum") else "0/1"]
                      for p in ps])
    if kind in ("card", "cum", "ord") and len(temps) >= 2 and len(temps[0]) >= 2 \
            and rng.random() < (0.4 if kind == "ord" else 0.6):
        # a near-miss template: same keys, one score changed (card) / two projects swapped (ord)
        t = [list(x) for x in temps[0]]
        if kind == "ord":
            t[0], t[1] = t[1], t[0]
        else:
            if rng.random() < 0.6:
                a, b_ = rng.choice(NEAR)            # the two templates differ only beyond the 9th decimal / by 1 ulp
                temps[0][0][1] = a
                t[0][1] = b_
            else:
                t[0][1] = rng.choice([s for s in SCORES if s != t[0][1]])
        temps[1] = t
    nb = rng.choice([1, 2, 3, 3, 4, 4, 5, 6, 7])
    ballots = []
    for j in range(nb):
        content = rng.choice(temps)
        hist = _noise(rng, kind, _history_for(rng, kind, content), content, nproj)
        nplus = 0
        for h in hist:
            if h[0] != "+":
                break
            nplus += 1
        ctor = rng.choice([0, nplus, rng.randrange(0, nplus + 1)])
        ballots.append({"hist": hist, "ctor": ctor,
                        "name": rng.choice([j + 1, j + 1, j + 1, 0]), "meta": rng.choice([0, 0, 1, 2, 3]),
                        "numrep": rng.choice(["int", "mpq", "frac", "float"])})
    # insertion history
    pool = [rng.randrange(nb) for _ in range(rng.choice([0, 1, 2, 3, 4, 5, 6, 8]))]
    if rng.random() < 0.5:
        pool = list(range(nb)) + pool
        if rng.random() < 0.5:
            rng.shuffle(pool)
    ops = []
    first = rng.choice(["conv", "profile", "init", "empty", "conv"])
    k = 0
    if first != "empty":
        k = rng.randrange(0, len(pool) + 1)
        ops.append([first, pool[:k]])
    while k < len(pool):
        t = rng.choice(["append", "extend", "extend_frozen", "extend_profile"])
        if t == "append":
            ops.append(["append", pool[k]])
            k += 1
        else:
            n = rng.randrange(0, len(pool) - k + 1)
            ops.append([t, pool[k:k + n]])
            k += n
            if n == 0 and rng.random() < 0.5:
                break
    # every step goes through a randomly chosen mutator of the class (add/update/|=, b[p]=s/update/setdefault, ...)
    for b in ballots:
        b["hist"] = [h + [rng.randrange(0, 20)] if rng.random() < 0.6 else h for h in b["hist"]]
    case = {"kind": kind, "nproj": nproj, "prefix": prefix, "ballots": ballots, "ops": ops,
            "fresh_projects": rng.random() < 0.5, "tier": tier}
    if rng.random() < 0.6:
        _add_versions(rng, case)
    # some extends become Counter.update(iterable of frozen ballots)
    for op in case["ops"]:
        if op[0] == "extend_frozen" and rng.random() < 0.3:
            op[0] = "update_frozen"
    _decorate_ops(rng, case["ops"])
    return case


# iterable KINDS the ballots are handed over in ('+fresh': temporaries built on the fly)
KINDS_IT = ["list", "tuple", "gen", "map", "iter", "list+fresh", "gen+fresh", "map+fresh", "gen+fresh", "iter+fresh"]
ONE_SHOT = ("gen", "map", "iter")
# HEAD loses the ballots of a one-shot iterable in XMultiProfile(init=...) (validation loop exhausts it) and in
# Profile.extend(...) (reported); these two combinations are generated only once they are repaired
ONE_SHOT_INIT_OK = True
ONE_SHOT_EXTEND_OK = True


# container OBJECTS holding frozen ballots that a multiprofile can be built from / updated with
OBJ_SEQ = ["fprofile", "fprofile_voff", "fprofile_grown", "fprofile_slice", "fprofile_copy", "fprofile_add",
           "gen_over_fprofile"]
OBJ_MAP = ["multi", "multi_grown", "counter", "dict"]


def _decorate_ops(rng, ops):
    """give every multi-ballot op an iterable kind and, where a list profile is built, the way it is built"""
    for op in ops:
        if op[0] == "append":
            continue
        kind = rng.choice(KINDS_IT)
        if op[0] == "extend" and len(set(op[1])) >= 2 and rng.random() < 0.5:
            kind = rng.choice(["gen+fresh", "map+fresh"])      # temporaries handed straight to MultiProfile.extend
        one_shot = kind.split("+")[0] in ONE_SHOT
        if op[0] == "init" and one_shot and not ONE_SHOT_INIT_OK:
            kind = rng.choice(["list", "tuple", "list+fresh"])
        if op[0] in ("init", "extend_frozen", "update_frozen") and rng.random() < 0.55:
            # the frozen ballots arrive inside a container object: a Profile of frozen ballots (validation off or
            # ballot_type = the frozen class; grown, sliced, copied, added), another MultiProfile, a Counter / dict
            pool = OBJ_SEQ + (OBJ_MAP if op[0] != "extend_frozen" else [])
            kind = rng.choice(pool) + ("+fresh" if rng.random() < 0.2 else "")
            if op[0] == "update_frozen" and kind.split("+")[0] in OBJ_MAP and rng.random() < 0.5:
                op[0] = "iadd_frozen"
        del op[2:]
        op.append(kind)
        if op[0] == "init":
            op.append(rng.choice(["kw", "pos"]))
        if op[0] in ("conv", "profile", "extend_profile", "extend_conv"):
            pmode = rng.choice(["ctor", "ctor", "extend", "iadd", "slice", "copy", "add"])
            if pmode == "extend" and one_shot and not ONE_SHOT_EXTEND_OK:
                pmode = rng.choice(["ctor", "iadd"])
            op.append(pmode)


def _keys_of(kind, hist):
    d = {}
    for h in hist:
        if h[0] == "+":
            d[h[1]] = h[2]
        else:
            d.pop(h[1], None)
    return d


def _add_versions(rng, case):
    """freeze -> edit the SAME mutable ballot object -> freeze / extend / convert again.
    A version is a new entry of case['ballots'] with 'base' (the version it continues) and 'edit_at' (the edits are
    applied just before ops[edit_at]); ops before edit_at use the base version, later ops the new one."""
    kind, nproj = case["kind"], case["nproj"]
    ballots, ops = case["ballots"], case["ops"]
    for _ in range(rng.choice([1, 1, 2, 3])):
        live = [j for j in range(len(ballots)) if not any(b.get("base") == j for b in ballots)]
        i = rng.choice(live)
        base = ballots[i]
        lo = base.get("edit_at", 0)
        t = rng.randrange(lo, len(ops) + 2)
        d = _keys_of(kind, base["hist"])
        extra = []
        mode = rng.random()
        nsteps = rng.choice([1, 1, 2, 3])
        for k in range(nsteps):
            present = list(d)
            absent = [p for p in range(nproj) if p not in d]
            r = rng.random()
            if present and (r < 0.4 or not absent):
                p_ = rng.choice(present)
                if kind in ("card", "cum") and rng.random() < 0.5:
                    sc = rng.choice([x for x in SCORES if x != d[p_]])
                    extra.append(["+", p_, sc])
                    d[p_] = sc
                else:
                    extra.append(["-", p_])
                    d.pop(p_)
            else:
                p_ = rng.choice(absent)
                sc = rng.choice(SCORES) if kind in ("card", "cum") else "0/1"
                extra.append(["+", p_, sc])
                d[p_] = sc
        if mode < 0.25:
            # edit and revert: the content (for rankings: up to order) is the base's again
            d0 = _keys_of(kind, base["hist"])
            for p_ in list(d):
                if p_ not in d0:
                    extra.append(["-", p_])
            for p_, sc in d0.items():
                if d.get(p_) != sc or p_ not in d:
                    extra.append(["+", p_, sc])
        extra = [h + [rng.randrange(0, 20)] for h in extra]
        j = len(ballots)
        ballots.append({"hist": base["hist"] + extra, "ctor": base["ctor"], "name": base["name"], "meta": base["meta"],
                        "numrep": rng.choice(["int", "mpq", "frac", "float"]), "base": i, "edit_at": t})
        # later uses of the object see the new version
        for k in range(t, len(ops)):
            op = ops[k]
            if op[0] == "append":
                if op[1] == i:
                    op[1] = j
            else:
                op[1] = [j if x == i else x for x in op[1]]
        # and it is frozen / extended / converted again
        if t <= len(ops):
            r = rng.random()
            if r < 0.8:
                k = len(ops)          # index of the op about to be appended: which versions exist at that time?
                others = [x for x in range(len(ballots)) if x != j and x != i
                          and (ballots[x].get("base") is None or ballots[x]["edit_at"] <= k)
                          and not any(b.get("base") == x and b["edit_at"] <= k for b in ballots)]
                sel = [j] + ([rng.choice(others)] if others and rng.random() < 0.4 else [])
                rng.shuffle(sel)
                kindop = rng.choice(["append", "extend", "extend_frozen", "extend_profile", "extend_conv"])
                ops.append(["append", j] if kindop == "append" else [kindop, sel])


# ------------------------------------------------------------------------------------------------
# implementation side: one persistent helper interpreter per hash seed
# ------------------------------------------------------------------------------------------------
_HELPERS: dict = {}


def _helper(seed):
    p = _HELPERS.get(seed)
    if p is None or p.poll() is not None:
        env = dict(os.environ)
        env["PYTHONHASHSEED"] = str(seed)
        p = subprocess.Popen([core.PY, "-m", "vharness.props.c16_helper"], env=env, stdin=subprocess.PIPE,
                             stdout=subprocess.PIPE, stderr=subprocess.DEVNULL, text=True, bufsize=1)
        _HELPERS[seed] = p
    return p


@atexit.register
def _close_helpers():
    for p in _HELPERS.values():
        try:
            p.stdin.close()
            p.wait(timeout=5)
        except Exception:
            try:
                p.kill()
            except Exception:
                pass


def impl(case):
    seeds = SEEDS.get(case.get("tier", "quick"), SEEDS["quick"])
    out = []
    line = json.dumps(case) + "\n"
    for s in seeds:
        p = _helper(s)
        p.stdin.write(line)
        p.stdin.flush()
        ans = p.stdout.readline()
        if not ans:
            raise RuntimeError("helper interpreter (PYTHONHASHSEED=%s) died" % s)
        o = json.loads(ans)
        if "exc" in o:
            raise RuntimeError("seed %s: %s" % (s, o["exc"]))
        o["seed"] = s
        out.append(o)
    return {"per_seed": out}


# ------------------------------------------------------------------------------------------------
# Gallina rendering
# ------------------------------------------------------------------------------------------------
def _item(it):
    return "(%s, %s)" % (core.nat(it[0]), q(it[1]))


def _dict(items):
    return lst(items, _item)


def _step(h):
    if h[0] == "+":
        return "HSet %s %s" % (core.nat(h[1]), q(h[2]))
    return "HDel %s" % core.nat(h[1])


def _op(op):
    if op[0] == "append":
        return "OpAppend %s" % core.nat(op[1])
    return "OpExtend %s" % natl(op[1])


def _as_tuples(case, o):
    """An approval case that contains DIRECTLY constructed FrozenApprovalBallots is rendered with the tuple semantics
    of the class (KOrd in the model: a tuple of projects compared position by position, hashed as a tuple): a direct
    ballot is its sequence, a mutable ballot is the name-sorted tuple that ApprovalBallot.frozen() produces."""
    import copy as _copy
    case = _copy.deepcopy(case)
    o = _copy.deepcopy(o)
    case["kind"] = "ord"
    for j, b in enumerate(case["ballots"]):
        if b.get("direct") != "seq" and b.get("direct") != "frozen":
            # a mutable ballot, or a frozen ballot built by the constructor FROM the mutable ballot (a set): name-sorted
            d = {}
            for h in b["hist"]:
                if h[0] == "+":
                    d[h[1]] = 1
                else:
                    d.pop(h[1], None)
            b["hist"] = [["+", p_, "0/1"] for p_ in sorted(d)]
            if not b.get("direct"):
                for s in o["per_seed"]:
                    s["iter"][j] = sorted(s["iter"][j])
    return case, o


def coq_case(case, o):
    direct = case["kind"] == "app" and any(b.get("direct") for b in case["ballots"])
    if direct:
        case, o = _as_tuples(case, o)
    ballots = lst(["mkB %s %s %s" % (lst(b["hist"], _step), core.nat(b["name"]), core.nat(b["meta"]))
                   for b in case["ballots"]])
    obs = []
    for s in o["per_seed"]:
        obs.append("mkObs %s %s %s %s %s %s %s %s" % (
            lst(s["iter"], _dict), core.nat(s["len"]), core.nat(s["num"]), natl(s["mult"]),
            lst([pair(_dict(k), core.nat(c)) for k, c in s["entries"]]),
            lst([lst(r, boolc) for r in s["eq"]]), lst([lst(r, boolc) for r in s["heq"]]),
            lst([pair(_dict(f[0]), core.nat(f[1] if s["frozen_type_ok"] else 998), core.nat(f[2])) for f in s["frozen"]])))
    return "(mkCase %s %s %s %s %s)" % (KCOQ[case["kind"]], ballots, lst(case["ops"], _op), lst(obs), boolc(direct))


# ------------------------------------------------------------------------------------------------
# evidence
# ------------------------------------------------------------------------------------------------
def _content_of(case, b):
    if b.get("direct") in ("seq", "frozen") and case["kind"] == "app":
        return ("t", tuple(h[1] for h in b["hist"]))
    if b.get("direct") == "mutable" and case["kind"] == "app":
        return ("t", tuple(sorted(h[1] for h in b["hist"])))
    return _content(case["kind"], b["hist"])


def _content(kind, hist):
    d = {}
    for h in hist:
        if h[0] == "+":
            d[h[1]] = Fraction(h[2])
        else:
            d.pop(h[1], None)
    if kind == "app":
        return ("s", tuple(sorted(d)))
    if kind == "ord":
        return ("o", tuple(d))
    return ("d", tuple(sorted(d.items())))


def _inserted(case):
    h = []
    for op in case["ops"]:
        h += [op[1]] if op[0] == "append" else list(op[1])
    return h


def _merged(case):
    """some content inserted >= 2 times through different histories"""
    seen = {}
    for i in _inserted(case):
        b = case["ballots"][i]
        c = _content_of(case, b)
        key = json.dumps([b["hist"], b["ctor"], b.get("direct")])
        seen.setdefault(c, set()).add(key)
    return any(len(v) >= 2 for v in seen.values())


def nontrivial(case, o):
    if _merged(case):
        return [case["kind"], [b["hist"] for b in case["ballots"]], case["ops"]]
    return None


def stats(cases, obs):
    d = {"kind": {}, "first_op": {}, "merged_different_histories": 0, "len_lt_num": 0, "has_empty_ballot": 0,
         "has_deletion": 0, "history_len_hist": {}, "max_multiplicity_ge3": 0, "uninserted_ballot_queried": 0,
         "seeds": list(SEEDS["quick"]), "set_iteration_differs_between_seeds": 0,
         "iterable_kind": {}, "direct_frozen_construction_cases": 0, "direct_frozen_ballots": {},
         "direct_approval_same_set_different_order": 0, "cases_with_edit_after_freeze": 0, "edited_versions": 0, "edit_then_refreeze_same_content": 0,
         "set_iteration_differs_between_equal_ballots": 0}
    for c, o in zip(cases, obs):
        if not isinstance(o, dict) or "per_seed" not in o:
            continue
        d["kind"][c["kind"]] = d["kind"].get(c["kind"], 0) + 1
        f = c["ops"][0][0] if c["ops"] else "none"
        d["first_op"][f] = d["first_op"].get(f, 0) + 1
        d["merged_different_histories"] += _merged(c)
        s0 = o["per_seed"][0]
        d["len_lt_num"] += s0["len"] < s0["num"]
        d["max_multiplicity_ge3"] += max(s0["mult"] + [0]) >= 3
        d["has_empty_ballot"] += any(not it for it in s0["iter"])
        d["has_deletion"] += any(h[0] == "-" for b in c["ballots"] for h in b["hist"])
        for op in c["ops"]:
            if op[0] != "append" and len(op) > 2:
                d["iterable_kind"][op[2]] = d["iterable_kind"].get(op[2], 0) + 1
        dl = [b for b in c["ballots"] if b.get("direct")]
        d["direct_frozen_construction_cases"] += bool(dl)
        for b in dl:
            d["direct_frozen_ballots"][b["direct"]] = d["direct_frozen_ballots"].get(b["direct"], 0) + 1
        if c["kind"] == "app" and dl:
            seqs = [tuple(h[1] for h in b["hist"]) for b in dl]
            d["direct_approval_same_set_different_order"] += any(
                a != b_ and sorted(a) == sorted(b_) for a in seqs for b_ in seqs)
        vs = [b for b in c["ballots"] if b.get("base") is not None]
        d["cases_with_edit_after_freeze"] += bool(vs)
        d["edited_versions"] += len(vs)
        d["edit_then_refreeze_same_content"] += any(
            _content(c["kind"], b["hist"]) == _content(c["kind"], c["ballots"][b["base"]]["hist"]) for b in vs)
        n = len(_inserted(c))
        d["history_len_hist"][str(n)] = d["history_len_hist"].get(str(n), 0) + 1
        d["uninserted_ballot_queried"] += len(set(_inserted(c))) < len(c["ballots"])
        if c["kind"] == "app":
            d["set_iteration_differs_between_seeds"] += any(s["iter"] != s0["iter"] for s in o["per_seed"])
            diff = False
            for s in o["per_seed"]:
                for a in range(len(s["iter"])):
                    for b in range(a):
                        if sorted(s["iter"][a]) == sorted(s["iter"][b]) and s["iter"][a] != s["iter"][b]:
                            diff = True
            d["set_iteration_differs_between_equal_ballots"] += diff
    return d


def shrink(case):
    if any(b.get("base") is not None for b in case["ballots"]):
        yield from _shrink_versions(case)
        return
    nb = len(case["ballots"])
    # fewer ops / shorter ops
    for j in range(len(case["ops"])):
        c = dict(case)
        c["ops"] = case["ops"][:j] + case["ops"][j + 1:]
        yield c
    for j, op in enumerate(case["ops"]):
        if op[0] != "append" and len(op[1]) > 1:
            for t in range(len(op[1])):
                c = dict(case)
                c["ops"] = case["ops"][:j] + [[op[0], op[1][:t] + op[1][t + 1:]] + op[2:]] + case["ops"][j + 1:]
                yield c
    # drop a ballot
    for j in range(nb):
        ren = lambda i: i - (i > j)
        c = dict(case)
        c["ballots"] = case["ballots"][:j] + case["ballots"][j + 1:]
        ops = []
        for op in case["ops"]:
            if op[0] == "append":
                if op[1] != j:
                    ops.append(["append", ren(op[1])])
            else:
                ops.append([op[0], [ren(i) for i in op[1] if i != j]] + op[2:])
        c["ops"] = ops
        yield c
    # shorter histories
    for j, b in enumerate(case["ballots"]):
        for t in range(len(b["hist"])):
            c = dict(case)
            b2 = dict(b)
            b2["hist"] = b["hist"][:t] + b["hist"][t + 1:]
            b2["ctor"] = 0
            c["ballots"] = case["ballots"][:j] + [b2] + case["ballots"][j + 1:]
            yield c


def _shrink_versions(case):
    """cases with edited versions: drop whole ops, drop unreferenced base-free ballots, drop single extra edit steps"""
    import copy as _copy
    ops, ballots = case["ops"], case["ballots"]
    for j in range(len(ops) - 1, -1, -1):
        c = _copy.deepcopy(case)
        del c["ops"][j]
        for b in c["ballots"]:
            if b.get("base") is not None and b["edit_at"] > j:
                b["edit_at"] -= 1
        yield c
    used = set()
    for op in ops:
        used.update([op[1]] if op[0] == "append" else op[1])
    for j in range(len(ballots) - 1, -1, -1):
        if j in used or any(b.get("base") == j for b in ballots):
            continue
        c = _copy.deepcopy(case)
        del c["ballots"][j]
        for b in c["ballots"]:
            if b.get("base") is not None and b["base"] > j:
                b["base"] -= 1
        for op in c["ops"]:
            if op[0] == "append":
                op[1] -= op[1] > j
            else:
                op[1] = [x - (x > j) for x in op[1]]
        yield c
    for j, b in enumerate(ballots):
        if b.get("base") is None or any(x.get("base") == j for x in ballots):
            continue
        n0 = len(ballots[b["base"]]["hist"])
        for t in range(n0, len(b["hist"])):
            c = _copy.deepcopy(case)
            del c["ballots"][j]["hist"][t]
            yield c
