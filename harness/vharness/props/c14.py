"""C14 -- proportionality checkers match their definitions; Equal Shares passes them."""
from __future__ import annotations

import itertools
from fractions import Fraction

from .. import core
from ..core import q, lst, natl, boolc, pair
from .. import pb

ID = "C14"
ORACLE = "Oracle.C14"
PROPS = ["Props/C14.v", "Props/C14mes.v", "Props/C14gen.v"]
LEVEL = "proof"
SHARD = 4

CHECKERS = ["core", "core-any", "core-one", "strong-EJR", "EJR", "EJR-any", "EJR-one", "PJR", "PJR-any", "PJR-one"]
CODES = {}
for _k, _n in enumerate(CHECKERS):
    CODES[10 + _k] = ("oracle", "the %s checker answers differently from the brute-force evaluation of its definition" % _n)
    CODES[30 + _k] = ("model", "the %s checker answers differently from the Gallina model of the code" % _n)
CODES.update({
    50: ("oracle", "the checkers' own answers break  core => EJR  (same measure, same relaxation)"),
    51: ("oracle", "the checkers' own answers break  EJR => PJR  (same measure, same relaxation)"),
    52: ("oracle", "the checkers' own answers break  strong-EJR => EJR"),
    53: ("oracle", "the checkers' own answers break  plain => up-to-any"),
    54: ("oracle", "the checkers' own answers break  up-to-any => up-to-one"),
    60: ("oracle", "the implementation's checker rejects the implementation's Equal Shares outcome "
                   "(EJR-up-to-any for Cost_Sat / EJR-up-to-one for Cardinality_Sat)"),
    61: ("oracle", "the implementation's Equal Shares outcome fails the brute-force definition of "
                   "EJR-up-to-any (Cost_Sat) / EJR-up-to-one (Cardinality_Sat)"),
    70: ("model", "hypotheses of the theorems fail on the case: utilities read from the implementation are "
                  "negative or are not those of the named measure, or the case is malformed"),
    71: ("model", "a candidate allocation / the Equal Shares outcome is not a feasible duplicate-free set"),
    110: ("model", "answer vector of the wrong length"),
    130: ("model", "answer vector of the wrong length"),
    core.RAISED: ("oracle", "a checker or Equal Shares raised"),
})
RULE = ("approval elections and cardinal elections whose ballots score every project (scores >= 0, zeros included); "
        "quick: 1..4 voters x 1..4 positive-cost projects; thorough: the exhaustive tiny universe (<=3 voters x <=2 "
        "projects, costs in {1,2}, budgets 1..4, every approval profile / every score profile over {0,1,2}) plus "
        "sampled elections up to 5x5; costs from tie-rich pools (equal costs, halves/thirds), budgets on the "
        "boundary cost(T)*n = |S|*B of a random (S,T) in half of the cases; ballots from {empty, full, nested, "
        "party lists, duplicates, random}; EVERY feasible allocation is a candidate; measures Cost_Sat and "
        "Cardinality_Sat (approval), Additive_Cardinal_Sat (cardinal); the ten checkers (core with "
        "up_to_func None/min/max, strong-EJR, EJR/-any/-one, PJR/-any/-one) on each; Equal Shares outcome under "
        "each approval measure; every 4th sampled case is a HISTORY: one or two earlier states (one or two ballots "
        "toggled/rescored/redrawn, and/or another budget; same voters count) are queried on the same objects "
        "before the final state is reached by in-place edits or item replacement; every 5th sampled case is a "
        "cardinal DISAGREEMENT election (voters agree on most projects, one project is scored high by one "
        "member and 0 by another, budget = total cost or just around it so that large groups have nested "
        "cohesive sets) aimed at the up-to-one / up-to-any surplus of the cardinal EJR/PJR checkers. non-trivial = distinct election on which some checker answers True for one "
        "candidate and False for another")
ASSUMPTIONS = [
    "hand-written Gallina model of cohesiveness.py / justifiedrepresentation.py tied to the code by differential execution only",
    "per-voter utilities (sat_project) are read from the implementation and passed exactly; that they are the "
    "named measure's formula and non-negative is re-checked in Coq on every case (code 70); the measures themselves "
    "are property C10",
    "gmpy2 mpq arithmetic = exact Q",
    "list profiles only (the source states that cohesive_groups ignores multiplicities)",
    "'up to' relaxations in the weak form sat(W) + surplus >= threshold (module docstrings; DESIGN.md C14)",
]
TRUSTED = ["Model/Cohesive.v mirrors pabutools/analysis/cohesiveness.py and justifiedrepresentation.py (modelled, not verified)",
           "Spec/JR.v transcribes the published definitions (weak 'up to' form)"]
EXPLANATION = ("Theorems (unbounded, any number of voters/projects, any additive non-negative utilities): each model "
               "checker = true iff the definition of Spec/JR.v holds, independently of the iteration order of the "
               "instance; the brute-force oracle = true iff the same definition; the implication lattice core => EJR "
               "=> PJR and strong => plain => up-to-any => up-to-one proved on the definitions.  Tie: on every "
               "generated election and EVERY feasible allocation the implementation's ten answers per measure are "
               "compared inside Coq with the brute-force oracle (property) and with the model (correspondence); the "
               "lattice is asserted on the implementation's answers; the implementation's Equal Shares outcomes must "
               "pass EJR-up-to-any (Cost_Sat) / EJR-up-to-one (Cardinality_Sat) for both the implementation's checker "
               "and the oracle (the guarantee itself is proved on the rule's model in Props/C14mes.v).  HISTORY stream: "
               "a quarter of the sampled cases first query every checker on an earlier state of the election, "
               "then edit ballots in place / replace profile[i] / change the budget on the SAME instance and "
               "profile objects; the case file carries the final election, so any answer remembered from the "
               "earlier state disagrees with the oracle.")
EXHAUSTIVE = {"thorough": True}

F = Fraction

COST_POOLS = [
    [1, 1, 2, 2, 3],
    [1, 2, 3, 4, 5],
    ["1/2", "1/3", "3/2", 1, "2/3"],
    [2, 2, 2],
    [1, 1, 1, 3],
    ["5/2", 5, 1, "1/10"],
]
SCORE_POOLS = [
    [0, 1, 1, 2, 3],
    [0, 0, 1],
    [0, "1/2", 1, "3/2", 2],
    [1, 2, 3, 4, 5],
    [0, 5, 10],
]


# ----------------------------------------------------------------------------------------------
# exhaustive tiny universe (thorough)
# ----------------------------------------------------------------------------------------------
def _universe():
    out = []
    for m in (1, 2):
        subsets = [list(s) for r in range(m + 1) for s in itertools.combinations(range(m), r)]
        for costs in itertools.product((1, 2), repeat=m):
            for b in (1, 2, 3, 4):
                for n in (1, 2, 3):
                    for prof in itertools.product(subsets, repeat=n):
                        out.append(("approval", list(costs), b, [list(x) for x in prof]))
                for n in (1, 2):
                    for prof in itertools.product(itertools.product((0, 1, 2), repeat=m), repeat=n):
                        out.append(("cardinal", list(costs), b, [list(x) for x in prof]))
    return out


_UNIV = None


def universe():
    global _UNIV
    if _UNIV is None:
        _UNIV = _universe()
    return _UNIV


def budget(tier):
    if tier == "quick":
        return 360
    return len(universe()) + 600


def _mk(kind, costs, b, ballots, order=None, tag="random"):
    m = len(costs)
    return {"kind": kind, "costs": [pb.qs(c) for c in costs], "budget": pb.qs(b),
            "ballots": ballots if kind == "approval" else [[pb.qs(x) for x in bl] for bl in ballots],
            "order": order if order is not None else list(range(m)), "tag": tag,
            "measures": ["Cost_Sat", "Cardinality_Sat"] if kind == "approval" else ["Additive_Cardinal_Sat"]}


def _gen_disagree(rng, big):
    """Targeted stream for the cardinal up-to-one / up-to-any checkers: the voters agree on most projects
    and disagree strongly on one project q (one scores it high, one 0, the rest anything in between), so that
    for a group the surplus of a set containing q (the group's MAXIMUM score of a missing project) is far
    above what q adds to the threshold (the group's MINIMUM score); nested cohesive sets T' < T for the same
    group (the budget lets the large groups afford everything, the small ones little); the candidate
    allocations (all feasible ones) include the empty one and those missing most of T."""
    n = rng.choice([3, 4, 5] if big else [2, 3, 3, 3, 4])
    m = rng.choice([3, 4, 5] if big else [3, 3, 3, 4])
    costs = [F(rng.choice([1, 1, 1, 2, 2, F(1, 2), 3])) for _ in range(m)]
    tot = sum(costs, F(0))
    q_ = rng.randrange(m)
    agreed = [F(rng.choice([1, 1, 2, 2, 3, F(1, 2)])) for _ in range(m)]
    ballots = [list(agreed) for _ in range(n)]
    rest = sum((agreed[j] for j in range(m) if j != q_), F(0))
    high = rest + rng.choice([0, 0, 0, 1, -1, F(1, 2)])
    if high < 0:
        high = F(0)
    order = list(range(n))
    rng.shuffle(order)
    ballots[order[0]][q_] = high
    ballots[order[-1]][q_] = F(0)
    for v in order[1:-1]:
        ballots[v][q_] = rng.choice([F(0), F(1), high, high / 2, max(F(0), high - 1), agreed[q_]])
    for _ in range(rng.choice([0, 0, 1, 2])):          # a little noise on the agreed part
        v, j = rng.randrange(n), rng.randrange(m)
        if j != q_:
            ballots[v][j] = F(rng.choice([0, 1, 2, 3]))
    mode = rng.randrange(6)
    if mode <= 2:
        b = tot                                       # the whole electorate affords everything
    elif mode == 3:
        b = tot * n / max(1, n - 1)                    # so does every group of n-1 voters
    elif mode == 4:
        b = tot + rng.choice([1, F(1, 2)])
    else:
        b = tot - min(costs) if tot > min(costs) else tot
    po = list(range(m))
    rng.shuffle(po)
    return _mk("cardinal", costs, b, ballots, po, tag="disagree" + ("-5x5" if big else ""))


def gen(rng, i, tier):
    if tier != "quick":
        U = universe()
        if i < len(U):
            kind, costs, b, ballots = U[i]
            return _mk(kind, costs, b, ballots, tag="universe")
        big = True
    else:
        big = False
    if i % 5 == 4:
        return _gen_disagree(rng, big)
    kind = "cardinal" if i % 3 == 2 else "approval"
    if big:
        n = rng.choice([3, 4, 4, 5, 5])
        m = rng.choice([3, 4, 4, 5]) if n == 5 else rng.choice([3, 4, 5, 5])
    else:
        n = rng.choice([1, 2, 2, 3, 3, 3, 4, 4, 4, 4, 4, 4])
        m = rng.choice([1, 2, 2, 3, 3, 3, 4, 4, 4, 4, 4, 4])
    pool = rng.choice(COST_POOLS)
    costs = [F(rng.choice(pool)) for _ in range(m)]
    tot = sum(costs, F(0))
    # ballots
    if kind == "approval":
        style = rng.randrange(6)
        ballots = []
        if style == 0:      # party lists
            k = rng.randrange(1, m + 1)
            parties = [sorted(range(m))[:k], sorted(range(m))[k:]]
            ballots = [list(rng.choice(parties)) for _ in range(n)]
        elif style == 1:    # nested chain
            ballots = [list(range(rng.randrange(0, m + 1))) for _ in range(n)]
        elif style == 2:    # duplicates of one ballot plus noise
            base = sorted(rng.sample(range(m), rng.randrange(1, m + 1)))
            ballots = [list(base) if rng.random() < 0.7 else sorted(rng.sample(range(m), rng.randrange(0, m + 1)))
                       for _ in range(n)]
        else:
            ballots = [sorted(rng.sample(range(m), rng.randrange(0, m + 1))) for _ in range(n)]
        if rng.random() < 0.15:
            ballots[rng.randrange(n)] = []
        if rng.random() < 0.15:
            ballots[rng.randrange(n)] = list(range(m))
    else:
        sp = rng.choice(SCORE_POOLS)
        style = rng.randrange(4)
        if style == 0:      # a shared base vector with local deviations
            base = [F(rng.choice(sp)) for _ in range(m)]
            ballots = [[(x if rng.random() < 0.7 else F(rng.choice(sp))) for x in base] for _ in range(n)]
        elif style == 1:    # 0/1 scores (approval-like)
            ballots = [[F(rng.choice([0, 1])) for _ in range(m)] for _ in range(n)]
        else:
            ballots = [[F(rng.choice(sp)) for _ in range(m)] for _ in range(n)]
        if rng.random() < 0.1:
            ballots[rng.randrange(n)] = [F(0)] * m
    # budget: on the boundary of "large enough" for a random (S,T) in half of the cases
    mode = rng.randrange(8)
    if mode <= 3:
        k = rng.randrange(1, n + 1)
        T = rng.sample(range(m), rng.randrange(1, m + 1))
        b = sum((costs[j] for j in T), F(0)) * n / k
    elif mode == 4:
        b = tot
    elif mode == 5:
        b = max(costs)
    elif mode == 6:
        b = tot * F(rng.randrange(2, 8), 8)
    else:
        b = tot / 2 + F(1, 3)
    if b <= 0:
        b = F(1)
    if not big and b > tot:
        b = tot                      # keep the number of feasible allocations (<= 2^m) as is; nothing new beyond tot
    order = list(range(m))
    rng.shuffle(order)
    case = _mk(kind, costs, b, ballots, order, tag="5x5" if big else "small")
    if i % 4 == 1:
        # HISTORY stream: the election above is the FINAL state; one or two earlier states differ from
        # their successor in some ballots (same number of voters) and/or in the budget
        hist = []
        cur_b, cur_budget = [list(x) for x in ballots], b
        for _ in range(rng.choice([1, 1, 2])):
            prev_b = [list(x) for x in cur_b]
            prev_budget = cur_budget
            what = rng.choice(["ballot", "ballot", "ballot", "two", "budget", "both"])
            if what in ("ballot", "two", "both"):
                for v in rng.sample(range(n), min(n, 2 if what == "two" else 1)):
                    if kind == "approval":
                        if rng.random() < 0.6:
                            bl = set(prev_b[v])
                            for j in rng.sample(range(m), rng.choice([1, 1, 2]) if m > 1 else 1):
                                bl ^= {j}
                            prev_b[v] = sorted(bl)
                        else:
                            prev_b[v] = sorted(rng.sample(range(m), rng.randrange(0, m + 1)))
                    else:
                        if rng.random() < 0.6:
                            for j in rng.sample(range(m), rng.choice([1, 1, 2]) if m > 1 else 1):
                                prev_b[v][j] = F(rng.choice(sp))
                        else:
                            prev_b[v] = [F(rng.choice(sp)) for _ in range(m)]
            if what in ("budget", "both"):
                prev_budget = rng.choice([tot, max(costs), cur_budget * 2, cur_budget / 2, cur_budget + 1])
            hist.insert(0, {"ballots": prev_b if kind == "approval" else [[pb.qs(x) for x in bl] for bl in prev_b],
                            "budget": pb.qs(prev_budget), "how": rng.choice(["edit", "replace"])})
            cur_b, cur_budget = prev_b, prev_budget
        case["history"] = hist
        case["tag"] += "+history"
    return case


# ----------------------------------------------------------------------------------------------
# implementation side
# ----------------------------------------------------------------------------------------------
def candidates(case):
    m = len(case["costs"])
    cs = [pb.F(c) for c in case["costs"]]
    B = pb.F(case["budget"])
    res = []
    for r in range(m + 1):
        for s in itertools.combinations(range(m), r):
            if sum((cs[j] for j in s), F(0)) <= B:
                res.append(list(s))
    if case.get("only_candidates") is not None:
        res = [W for W in res if W in case["only_candidates"]]
    return res


def impl(case):
    import pabutools.analysis.justifiedrepresentation as jr
    from pabutools.election import ApprovalBallot, Cost_Sat, Cardinality_Sat, Additive_Cardinal_Sat
    from pabutools.rules import method_of_equal_shares

    from pabutools.election import CardinalBallot

    # a HISTORY case lists the states the election went through before the final one (the one the case
    # file carries): the objects are built for the first state, queried, and then edited IN PLACE / by
    # item assignment, so that anything remembered on the instance / profile / ballot objects is exposed
    states = list(case.get("history") or []) + [{"ballots": case["ballots"], "budget": case["budget"], "how": "final"}]
    first = states[0]
    inst, projs = pb.make_instance(case["costs"], first["budget"], case["order"])
    m = len(projs)
    approval = case["kind"] == "approval"
    if approval:
        prof = pb.make_approval_profile(inst, projs, first["ballots"])
    else:
        prof = pb.make_cardinal_profile(inst, projs, [{str(j): v for j, v in enumerate(bl)} for bl in first["ballots"]])
    classes = {"Cost_Sat": Cost_Sat, "Cardinality_Sat": Cardinality_Sat, "Additive_Cardinal_Sat": Additive_Cardinal_Sat}
    any_f = lambda x: min(x, default=0)   # noqa: E731  -- the functions the module itself passes
    one_f = lambda x: max(x, default=0)   # noqa: E731

    def ten(sc, Wp):
        a = [jr.is_in_core(inst, prof, sc, Wp),
             jr.is_in_core(inst, prof, sc, Wp, any_f),
             jr.is_in_core(inst, prof, sc, Wp, one_f)]
        if approval:
            a += [jr.is_strong_EJR_approval(inst, prof, sc, Wp),
                  jr.is_EJR_approval(inst, prof, sc, Wp),
                  jr.is_EJR_any_approval(inst, prof, sc, Wp),
                  jr.is_EJR_one_approval(inst, prof, sc, Wp),
                  jr.is_PJR_approval(inst, prof, sc, Wp),
                  jr.is_PJR_any_approval(inst, prof, sc, Wp),
                  jr.is_PJR_one_approval(inst, prof, sc, Wp)]
        else:
            a += [jr.is_strong_EJR_cardinal(inst, prof, Wp),
                  jr.is_EJR_cardinal(inst, prof, Wp),
                  jr.is_EJR_any_cardinal(inst, prof, Wp),
                  jr.is_EJR_one_cardinal(inst, prof, Wp),
                  jr.is_PJR_cardinal(inst, prof, Wp),
                  jr.is_PJR_any_cardinal(inst, prof, Wp),
                  jr.is_PJR_one_cardinal(inst, prof, Wp)]
        return [bool(x) for x in a]

    for k in range(len(states) - 1):
        cur, nxt = states[k], states[k + 1]
        # query the election as it is now (every checker, every measure, two allocations) ...
        for mname in case["measures"]:
            for W in ([], [0]):
                ten(classes[mname], [projs[j] for j in W])
        if approval and not case.get("no_mes"):
            method_of_equal_shares(inst, prof, sat_class=classes[case["measures"][0]])
        # ... then move to the next state on the same objects
        how = cur.get("how", "edit")     # how the voters that change get their next ballot
        for v, (b0, b1) in enumerate(zip(cur["ballots"], nxt["ballots"])):
            if b0 == b1:
                continue
            if how == "replace":
                if approval:
                    prof[v] = ApprovalBallot([projs[j] for j in b1])
                else:
                    prof[v] = CardinalBallot({projs[j]: pb.num(x) for j, x in enumerate(b1)})
            elif approval:
                for j in b0:
                    if j not in b1:
                        prof[v].discard(projs[j])
                for j in b1:
                    if j not in b0:
                        prof[v].add(projs[j])
            else:
                for j, x in enumerate(b1):
                    if b0[j] != x:
                        prof[v][projs[j]] = pb.num(x)
        if pb.F(cur["budget"]) != pb.F(nxt["budget"]):
            inst.budget_limit = pb.num(nxt["budget"])
    out = {"enum": pb.ranks(list(inst)), "measures": []}
    cands = candidates(case)
    for mname in case["measures"]:
        sc = classes[mname]
        rec = {"name": mname}
        rec["ut"] = [[pb.qs(sc(inst, prof, b).sat_project(p)) for p in projs] for b in prof]
        if approval:
            full = sc(inst, prof, ApprovalBallot(inst))
            rec["pv"] = [pb.qs(full.sat_project(p)) for p in projs]
        else:
            rec["pv"] = []
        answers = []
        for W in cands:
            answers.append([W, ten(sc, [projs[j] for j in W])])
        rec["answers"] = answers
        rec["mes"] = None
        if approval and not case.get("no_mes"):
            Wm = method_of_equal_shares(inst, prof, sat_class=sc)
            Wl = [projs[j] for j in sorted(pb.ranks(Wm))]
            if mname == "Cost_Sat":
                ok = jr.is_EJR_any_approval(inst, prof, sc, Wl)
            else:
                ok = jr.is_EJR_one_approval(inst, prof, sc, Wl)
            rec["mes"] = [sorted(pb.ranks(Wm)), bool(ok)]
        out["measures"].append(rec)
    return out


KIND = {"Cost_Sat": 0, "Cardinality_Sat": 1, "Additive_Cardinal_Sat": 2}


def coq_case(case, o):
    approval = case["kind"] == "approval"
    meas = []
    for rec in o["measures"]:
        ans = lst([pair(natl(W), lst([boolc(x) for x in a])) for W, a in rec["answers"]])
        mes = "None" if rec["mes"] is None else "(Some %s)" % pair(natl(rec["mes"][0]), boolc(rec["mes"][1]))
        meas.append("(mkM %s %s %s %s %s)" % (
            core.nat(KIND[rec["name"]]), lst([core.qlist(u) for u in rec["ut"]]), core.qlist(rec["pv"]), ans, mes))
    if approval:
        app = lst([natl(b) for b in case["ballots"]])
        sco = "[]"
    else:
        app = "[]"
        sco = lst([core.qlist(b) for b in case["ballots"]])
    return "(mkCase %s %s %s %s %s %s %s)" % (
        core.qlist(case["costs"]), q(case["budget"]), natl(o["enum"]), boolc(not approval), app, sco, lst(meas))


def _discriminating(o):
    """checker names that answered both True and False over the candidates of some measure"""
    names = set()
    for rec in o["measures"]:
        cols = list(zip(*[a for _, a in rec["answers"]])) if rec["answers"] else []
        for k, col in enumerate(cols):
            if True in col and False in col:
                names.add(CHECKERS[k])
    return names


def nontrivial(case, o):
    if not isinstance(o, dict) or "measures" not in o:
        return None
    if _discriminating(o):
        return [case["kind"], case["costs"], case["budget"], case["ballots"], case.get("history")]
    return None


def _has_boundary(case):
    n = len(case["ballots"])
    cs = [pb.F(c) for c in case["costs"]]
    B = pb.F(case["budget"])
    m = len(cs)
    for r in range(1, m + 1):
        for s in itertools.combinations(range(m), r):
            c = sum((cs[j] for j in s), F(0)) * n
            for k in range(1, n + 1):
                if c == k * B:
                    return True
    return False


def stats(cases, obs):
    d = {"approval": 0, "cardinal": 0, "tag": {}, "voters_hist": {}, "projects_hist": {}, "candidates_total": 0,
         "checker_calls": 0, "fractional_costs": 0, "equal_costs": 0, "large_enough_boundary": 0,
         "empty_ballot": 0, "duplicate_ballots": 0, "zero_scores": 0,
         "discriminating_elections_by_checker": {c: 0 for c in CHECKERS},
         "false_answers_by_checker": {c: 0 for c in CHECKERS},
         "relaxation_matters": 0, "mes_outcomes": 0, "mes_nonempty": 0,
         "history_cases": 0, "history_states": 0, "history_in_place_edits": 0, "history_replacements": 0,
         "history_budget_changes": 0}
    for c, o in zip(cases, obs):
        if not isinstance(o, dict) or "measures" not in o:
            continue
        d[c["kind"]] += 1
        if c.get("history"):
            d["history_cases"] += 1
            sts = c["history"] + [{"ballots": c["ballots"], "budget": c["budget"]}]
            d["history_states"] += len(sts)
            for a_, b_ in zip(sts, sts[1:]):
                ch = sum(1 for x, y in zip(a_["ballots"], b_["ballots"]) if x != y)
                d["history_replacements" if a_.get("how") == "replace" else "history_in_place_edits"] += ch
                d["history_budget_changes"] += pb.F(a_["budget"]) != pb.F(b_["budget"])
        d["tag"][c.get("tag", "?")] = d["tag"].get(c.get("tag", "?"), 0) + 1
        n, m = len(c["ballots"]), len(c["costs"])
        d["voters_hist"][str(n)] = d["voters_hist"].get(str(n), 0) + 1
        d["projects_hist"][str(m)] = d["projects_hist"].get(str(m), 0) + 1
        cs = [pb.F(x) for x in c["costs"]]
        d["fractional_costs"] += any(x.denominator != 1 for x in cs)
        d["equal_costs"] += len(set(cs)) < len(cs)
        d["large_enough_boundary"] += _has_boundary(c)
        if c["kind"] == "approval":
            d["empty_ballot"] += any(len(b) == 0 for b in c["ballots"])
        else:
            d["zero_scores"] += any(pb.F(x) == 0 for b in c["ballots"] for x in b)
        d["duplicate_ballots"] += len({tuple(b) for b in c["ballots"]}) < n
        for name in _discriminating(o):
            d["discriminating_elections_by_checker"][name] += 1
        rm = False
        for rec in o["measures"]:
            d["candidates_total"] += len(rec["answers"])
            d["checker_calls"] += 10 * len(rec["answers"])
            for _, a in rec["answers"]:
                for k, x in enumerate(a):
                    if not x:
                        d["false_answers_by_checker"][CHECKERS[k]] += 1
                if a[4] != a[5] or a[5] != a[6] or a[7] != a[8] or a[8] != a[9] or a[0] != a[1] or a[1] != a[2]:
                    rm = True
            if rec["mes"] is not None:
                d["mes_outcomes"] += 1
                d["mes_nonempty"] += bool(rec["mes"][0])
        d["relaxation_matters"] += rm
    return d


def shrink(case):
    n, m = len(case["ballots"]), len(case["costs"])
    approval = case["kind"] == "approval"
    hist = case.get("history") or []
    # shorter history
    if hist:
        c = dict(case)
        c.pop("history")
        yield c
        if len(hist) > 1:
            for k in range(len(hist)):
                c = dict(case)
                c["history"] = hist[:k] + hist[k + 1:]
                yield c
        for k in range(len(hist)):       # a state that differs from its successor in the budget only / ballots only
            nxt = hist[k + 1] if k + 1 < len(hist) else case
            for key in ("budget", "ballots"):
                if hist[k][key] != nxt[key]:
                    c = dict(case)
                    c["history"] = [dict(h) for h in hist]
                    c["history"][k][key] = nxt[key]
                    yield c
    # fewer measures / no Equal Shares call / a single candidate
    if len(case["measures"]) > 1:
        for mn in case["measures"]:
            c = dict(case)
            c["measures"] = [mn]
            yield c
    if approval and not case.get("no_mes"):
        c = dict(case)
        c["no_mes"] = True
        yield c
    cands = candidates(case)
    if len(cands) > 1:
        for W in cands:
            c = dict(case)
            c["only_candidates"] = [W]
            yield c
    # drop a voter
    if n > 1:
        for v in range(n):
            c = dict(case)
            c["ballots"] = case["ballots"][:v] + case["ballots"][v + 1:]
            if hist:
                c["history"] = [dict(h, ballots=h["ballots"][:v] + h["ballots"][v + 1:]) for h in hist]
            yield c
    # drop a project
    if m > 1:
        for j in range(m):
            ren = lambda W: [x - (x > j) for x in W if x != j]   # noqa: E731
            c = dict(case)
            c["costs"] = case["costs"][:j] + case["costs"][j + 1:]
            c["order"] = ren(case["order"])
            if approval:
                c["ballots"] = [ren(b) for b in case["ballots"]]
            else:
                c["ballots"] = [b[:j] + b[j + 1:] for b in case["ballots"]]
            if hist:
                c["history"] = [dict(h, ballots=[ren(b) for b in h["ballots"]] if approval
                                     else [b[:j] + b[j + 1:] for b in h["ballots"]]) for h in hist]
            if case.get("only_candidates") is not None:
                oc = []
                for W in case["only_candidates"]:
                    if ren(W) not in oc:
                        oc.append(ren(W))
                c["only_candidates"] = oc
            yield c
    # simpler numbers
    for j in range(m):
        if pb.F(case["costs"][j]) != 1:
            c = dict(case)
            c["costs"] = list(case["costs"])
            c["costs"][j] = "1/1"
            yield c
    if not approval:
        for v in range(n):
            for j in range(m):
                x = pb.F(case["ballots"][v][j])
                if x not in (0, 1):
                    c = dict(case)
                    c["ballots"] = [list(b) for b in case["ballots"]]
                    c["ballots"][v][j] = "1/1" if x > 1 else "0/1"
                    yield c


def describe(case, o, code):
    d = {"checkers_in_answer_order": CHECKERS}
    if 10 <= code < 20 or 30 <= code < 40:
        d["checker"] = CHECKERS[code % 10 if code < 20 else code - 30]
    return d


# ----------------------------------------------------------------------------------------------
# python-side brute-force reading of the definitions: used by the driver only when the Coq side cannot
# be evaluated (so that a failing input can still be searched for); never the source of a verdict when
# the verified oracle runs
# ----------------------------------------------------------------------------------------------
def _definitions(case, rec, W):
    n, m = len(case["ballots"]), len(case["costs"])
    cs = [pb.F(c) for c in case["costs"]]
    B = pb.F(case["budget"])
    approval = case["kind"] == "approval"
    ut = [[pb.F(x) for x in row] for row in rec["ut"]]
    pv = [pb.F(x) for x in rec["pv"]]
    sc = None if approval else [[pb.F(x) for x in b] for b in case["ballots"]]
    groups = [s for r in range(1, n + 1) for s in itertools.combinations(range(n), r)]
    psets = [t for r in range(m + 1) for t in itertools.combinations(range(m), r)]
    Ws = set(W)

    def large(S, T):
        return sum((cs[p] for p in T), F(0)) * n <= len(S) * B

    def upto(r, uf, T, sW, thr):
        out = [p for p in T if p not in Ws]
        if r == 0:
            return thr <= sW
        if r == 1:
            return all(thr <= sW + uf[p] for p in out)
        return thr <= sW or any(thr <= sW + uf[p] for p in out)

    def sat(i, X):
        return sum((ut[i][p] for p in X), F(0))

    res = []
    for r in range(3):
        res.append(all((not large(S, T)) or any(upto(r, ut[i], T, sat(i, W), sat(i, T)) for i in S)
                       for S in groups for T in psets))
    if approval:
        coh = [(S, T) for S in groups for T in psets if T and large(S, T)
               and all(p in case["ballots"][i] for i in S for p in T)]
        res.append(all(sat(i, T) <= sat(i, W) for S, T in coh for i in S))
        for r in range(3):
            res.append(all(any(upto(r, ut[i], T, sat(i, W), sat(i, T)) for i in S) for S, T in coh))
        for r in range(3):
            res.append(all(upto(r, pv, T,
                                sum((pv[p] for p in W if any(p in case["ballots"][i] for i in S)), F(0)),
                                sum((pv[p] for p in T), F(0))) for S, T in coh))
    else:
        coh = [(S, T) for S in groups for T in psets if T and large(S, T)]
        thr = lambda S, T: sum((min(sc[i][p] for i in S) for p in T), F(0))   # noqa: E731 (largest alpha)
        res.append(all(thr(S, T) <= sat(i, W) for S, T in coh for i in S))
        for r in range(3):
            res.append(all(any(upto(r, ut[i], T, sat(i, W), thr(S, T)) for i in S) for S, T in coh))
        for r in range(3):
            def gs(S):
                return [max(sc[i][p] for i in S) for p in range(m)]
            res.append(all(upto(r, gs(S), T, sum((gs(S)[p] for p in W), F(0)), thr(S, T)) for S, T in coh))
    return res


def py_oracle(case, o):
    if not isinstance(o, dict) or "measures" not in o:
        return None
    for rec in o["measures"]:
        for W, a in rec["answers"]:
            d = _definitions(case, rec, W)
            for k in range(10):
                if bool(a[k]) != bool(d[k]):
                    return 10 + k
            imp = lambda x, y: (not x) or y   # noqa: E731
            if not (imp(a[0], a[4]) and imp(a[1], a[5]) and imp(a[2], a[6])):
                return 50
            if not (imp(a[4], a[7]) and imp(a[5], a[8]) and imp(a[6], a[9])):
                return 51
            if not imp(a[3], a[4]):
                return 52
            if not (imp(a[4], a[5]) and imp(a[7], a[8]) and imp(a[0], a[1])):
                return 53
            if not (imp(a[5], a[6]) and imp(a[8], a[9]) and imp(a[1], a[2])):
                return 54
        if rec["mes"] is not None:
            if not rec["mes"][1]:
                return 60
            d = _definitions(case, rec, rec["mes"][0])
            if not d[5 if rec["name"] == "Cost_Sat" else 6]:
                return 61
    return None
