"""C05 -- sequential Phragmen selects exactly what the continuous-money process buys."""
from __future__ import annotations

from fractions import Fraction

from .. import core
from ..core import q, lst, natl, boolc, pair
from .. import pb

NAMING = True
ID = "C05"
ORACLE = "Oracle.C05"
PROPS = ["Props/C05.v", "Props/TieGen.v"]
LEVEL = "proof"
SHARD = 110
CODES = {
    1: ("oracle", "sequential_phragmen's allocation(s) differ from what the continuous-money process buys "
                  "(one voter per ballot copy, stop as soon as some due project would overshoot)"),
    2: ("model", "sequential_phragmen's allocation(s) differ from the Gallina mirror Model/Phragmen.v"),
    3: ("oracle", "a returned allocation is not a feasible duplicate-free superset of the initial allocation"),
    4: ("model", "Gallina model and money process disagree with each other (outside the theorems' hypotheses?)"),
    5: ("oracle", "refuse_tie_breaking: TieBreakingException although no tie had to be broken, or an outcome was "
                  "returned although >=2 projects were due together at a purchase"),
    6: ("model", "refuse_tie_breaking: raise/return differs from the Gallina mirror Model/Phragmen.v"),
    7: ("oracle", "TieBreakingException under a tie-breaking rule other than refuse_tie_breaking"),
    core.RAISED: ("oracle", "sequential_phragmen raised / the interpreter died"),
}
RULE = ("three streams.  (A, 13/16) approval elections, 1..6 voters (ballot copies), 0..7 projects, Profile and MultiProfile (also profiles with "
        "repeated ballots), cost pools with zeros / equal costs / halves and thirds / one project dearer than the budget, "
        "budgets on subset sums and boundaries, party-list elections built so that several projects fall due at the same "
        "moment, initial_loads None / equal / unequal, feasible initial allocations, lexico / app_score / min_cost / "
        "max_cost tie-breaking and random strict orders, resolute and irresolute.  In ~9% of the cases of every stream (more "
        "in party-list elections) the rule is the shipped refuse_tie_breaking: the call must raise TieBreakingException "
        "iff some purchase round has >=2 due projects (a round that stops, a near-tie, a single due project must not).  (B, 1/16) NEAR-TIES: multiprofiles with "
        "classes of 10^4..10^5 voters and integer/fractional costs up to 10^11 whose purchase moments differ by a relative "
        "1e-10..1e-16 (the strictly earlier project must win whatever the names, keys, insertion order).  (C, 2/16) "
        "irresolute elections on a path/cycle of voters with equal costs in which tied projects share supporters and the "
        "order of purchase changes the loads and the later purchases (steered by rejection sampling).  non-trivial = distinct election in "
        "which at least one project is bought by the process and (a tie between >=2 due projects occurred, or the "
        "process stopped on an overshoot, or the unsupported tail was reached)")
ASSUMPTIONS = [
    "hand-written Gallina model of phragmen.py tied to the code by differential execution only",
    "gmpy2 mpq / int arithmetic = exact Q",
    "project names p00.. so that name order = rank order; tie-breaking keys are the shipped lambdas or a strict order",
]
TRUSTED = ["Model/Phragmen.v mirrors pabutools/rules/phragmen.py after repair R6 (modelled, not verified)",
           "Spec/PhragmenMoney.v is the reading of the property's prose (stop rule under ties: some due project overshoots; "
           "unsupported projects all due together at the end of time)"]
EXPLANATION = ("Theorems (unbounded, Props/C05.v): the load recursion of the model and the money process make the same "
               "purchases from related states (abs: balance = clock - load), so the model's output equals the money "
               "process's output, resolute and irresolute; a class of multiplicity k behaves as k voters; the stop rule; "
               "feasibility and extension of the initial allocation.  Tie: every returned allocation (set of sets when "
               "irresolute) is compared inside Coq with the executable money process on the expanded profile (oracle) and "
               "with the Gallina mirror (correspondence).")

POOLS = [
    [0, 1, 1, 2, 2, 3],
    [1, 1, 1, 2],
    [1, 2, 3, 4, 6],
    ["1/2", "1/3", "3/2", "2/3", 1, 2],
    [2, 2, 2, 2],
    [0, 0, 1, 2],
    ["5/2", "7/3", 5, 1, "1/2"],
    [3, 6, 9, 2, 4],
]
LOADPOOL = [0, 0, "1/2", 1, 1, 2, "1/3", 3, "3/2", 5]
TBS = ["lexico", "app_score", "min_cost", "max_cost", "custom"]


def budget(tier):
    return 3000 if tier == "quick" else 24000


# ----------------------------------------------------------------------------------------------
# generator
# ----------------------------------------------------------------------------------------------
def _budget_for(rng, costs):
    fs = [pb.F(c) for c in costs]
    tot = sum(fs, Fraction(0))
    n = len(fs)
    mode = rng.randrange(8)
    if n == 0:
        return Fraction(rng.choice([1, 2, 3]))
    if mode == 0:
        return tot
    if mode == 1:
        return tot + rng.choice([1, Fraction(1, 2)])
    if mode in (2, 3):
        k = rng.randrange(1, n + 1)
        return sum(rng.sample(fs, k), Fraction(0))
    if mode == 4:
        k = rng.randrange(1, n + 1)
        return max(Fraction(0), sum(rng.sample(fs, k), Fraction(0)) - rng.choice([Fraction(1, 2), Fraction(1, 3), 1]))
    if mode == 5:
        return tot * Fraction(rng.randrange(1, 8), 8)
    if mode == 6:
        return max(fs) if rng.random() < 0.7 else min(fs)
    return Fraction(rng.choice([1, 2, 3, 4, 5]))


def gen(rng, i, tier):
    """see _gen; on top of it the shipped refuse_tie_breaking rule replaces the tie-breaking rule in ~9% of the cases
    of every stream (the call must raise iff some purchase round has >=2 due projects)"""
    c = _gen(rng, i, tier)
    if rng.random() < 0.09:
        c["tb"] = "refuse"
    return c


def _gen(rng, i, tier):
    """rejection sampling on the python money trace: most cases buy something; a quarter is steered
    towards a stop at which only SOME of the due projects overshoot (the stop rule under ties);
    plus two dedicated streams: NEAR-TIES (city-sized multiprofiles whose purchase moments differ by a
    relative 1e-10..1e-16) and irresolute ties between projects with OVERLAPPING supporters in which the
    order of purchase changes the loads and thereby later purchases."""
    if i % 16 == 5:
        return _near_tie(rng)
    if i % 16 in (9, 13):
        return _overlap(rng)
    want = rng.random()
    best = None
    for attempt in range(8):
        c = _draw(rng, "party" if want < 0.25 and attempt < 7 else None)
        classes = [[sorted(b), 1] for b in c["ballots"]]
        loads = c["loads"] if c["loads"] is not None else ["0/1"] * len(classes)
        _, tr = money(c, classes, loads)
        if best is None:
            best = c
        if want < 0.25:
            if tr["stop_mixed"]:
                return c
            if tr["bought"]:
                best = c
        elif want < 0.9:
            if tr["bought"]:
                return c
        else:
            return c
    return best


def _near_tie(rng):
    """two projects with disjoint supporter classes of n1 < n2 voters and costs t*n_i + k: purchase moments
    t + k/n1 > t + k/n2, relative difference k(n2-n1)/(n1 n2 t) in 1e-10..1e-16.  The slightly later one is the
    cheaper one; which of the two has the smaller name / key is random; the budget usually fits only one."""
    n1 = rng.randrange(10 ** 4, 10 ** 5)
    n2 = n1 + rng.choice([1, 1, 1, 2, 3])
    t = rng.choice([5, 17, 1000, 10 ** 5, 10 ** 6, Fraction(7, 3), Fraction(10 ** 6, 7)])
    k = rng.choice([1, 1, 1, 2])
    scale = rng.choice([1, 1, 1, Fraction(1, 3), 7])
    c1, c2 = (t * n1 + k) * scale, (t * n2 + k) * scale
    m = rng.choice([2, 2, 3, 3, 4])
    pos = rng.sample(range(m), 2)          # ranks of the worse (n1) and the better (n2) project
    costs = [None] * m
    costs[pos[0]], costs[pos[1]] = c1, c2
    ballots, mults = [[pos[0]], [pos[1]]], [n1, n2]
    extra = [j for j in range(m) if j not in pos]
    for j in extra:
        kind = rng.randrange(3)
        if kind == 0:                      # an exact twin of the better project (same supporters, same cost)
            costs[j] = c2
            ballots[1] = ballots[1] + [j]
        elif kind == 1:                    # unsupported
            costs[j] = rng.choice([c1, 1, c2 * 2])
        else:                              # a small third party, due much later
            costs[j] = c1
            ballots.append([j])
            mults.append(rng.randrange(1, 50))
    bm = rng.randrange(4)
    b = [max(c1, c2), max(c1, c2), c1 + c2, max(c1, c2) + rng.choice([0, 1, c1 / 2])][bm]
    lm = rng.random()
    loads = None if lm < 0.7 else [pb.qs(rng.choice([0, 1, 3]))] * len(ballots)
    key = list(range(m))
    rng.shuffle(key)
    order = list(range(m))
    rng.shuffle(order)
    perm = list(range(len(ballots)))
    rng.shuffle(perm)
    return {"costs": [pb.qs(c) for c in costs], "budget": pb.qs(b), "ballots": [ballots[x] for x in perm],
            "mults": [mults[x] for x in perm], "multi": True, "loads": loads, "init": [], "tb": rng.choice(TBS),
            "key": key, "resolute": rng.random() < 0.6, "order": order}


def _overlap(rng):
    """irresolute; every project is approved by one voter or by two neighbouring voters of a path/cycle, equal
    costs, budget = a few purchases: tied projects share supporters, so the order in which they are bought
    changes the loads.  Steered (rejection sampling) towards elections in which an exploration that identifies
    states with the same SELECTION would lose outcomes."""
    best = None
    for attempt in range(12):
        nv = rng.randrange(3, 6)
        m = rng.randrange(4, 7)
        cyc = rng.random() < 0.3
        unit = pb.F(rng.choice([1, 1, 2, "1/2", "2/3"]))
        ballots = [[] for _ in range(nv)]
        pairs = [(v, v + 1) for v in range(nv - 1)] + ([(nv - 1, 0)] if cyc else [])
        rng.shuffle(pairs)
        singles = list(range(nv))
        rng.shuffle(singles)
        npair = rng.randrange(1, min(len(pairs), m - 1) + 1)
        for j in range(m):
            if j < npair:
                for v in pairs[j]:
                    ballots[v].append(j)
            elif rng.random() < 0.85:
                ballots[singles[(j - npair) % nv]].append(j)
        ren = list(range(m))
        rng.shuffle(ren)                    # random names for the roles
        ballots = [sorted(ren[j] for j in b) for b in ballots]
        costs = [pb.qs(unit)] * m
        if rng.random() < 0.2:
            j = rng.randrange(m)
            costs[j] = pb.qs(unit * 2)
        b = unit * rng.choice([2, 3, 3, 3, 4])
        key = list(range(m))
        rng.shuffle(key)
        order = list(range(m))
        rng.shuffle(order)
        rng.shuffle(ballots)
        c = {"costs": costs, "budget": pb.qs(b), "ballots": ballots, "multi": rng.random() < 0.5, "loads": None,
             "init": [], "tb": rng.choice(TBS), "key": key, "resolute": False, "order": order}
        _, tr = money(c, [[sorted(x), 1] for x in c["ballots"]], ["0/1"] * len(ballots))
        if tr["memo_loses"]:
            return c
        if best is None or tr["tie"]:
            best = c
    return best


def _draw(rng, shape=None):
    shape = shape or rng.choice(["random", "random", "party", "party", "dups", "dups"])
    m = rng.choice([0, 1, 2, 3, 3, 4, 4, 5, 5, 6, 7])
    resolute = rng.random() < 0.6
    if not resolute:
        m = min(m, 6)
    pool = rng.choice(POOLS)
    if shape == "party" and m >= 2:
        # disjoint groups of voters; a group of g voters gets projects of cost g*r: all due together
        nv = rng.randrange(2, 7)
        ngroups = rng.randrange(1, min(3, nv) + 1)
        cuts = sorted(rng.sample(range(1, nv), ngroups - 1)) if ngroups > 1 else []
        bounds = [0] + cuts + [nv]
        groups = [list(range(bounds[k], bounds[k + 1])) for k in range(ngroups)]
        r = pb.F(rng.choice([1, 1, 2, "1/2", "1/3", "3/2"]))
        ballots = [[] for _ in range(nv)]
        costs = []
        for j in range(m):
            kind = rng.random()
            if kind < 0.7:
                g = rng.choice(groups)
                mult = rng.choice([1, 1, 1, 2])
                costs.append(pb.qs(len(g) * r * mult))
                for v in g:
                    ballots[v].append(j)
            elif kind < 0.85:
                costs.append(pb.qs(rng.choice(pool)))      # unsupported
            else:
                costs.append(pb.qs(rng.choice(pool)))
                for v in rng.sample(range(nv), rng.randrange(1, nv + 1)):
                    ballots[v].append(j)
    elif shape == "dups":
        costs = [pb.qs(rng.choice(pool)) for _ in range(m)]
        nd = rng.randrange(1, 4)
        distinct = [sorted(rng.sample(range(m), rng.randrange(0, m + 1))) if m else [] for _ in range(nd)]
        ballots = []
        for b in distinct:
            ballots += [list(b)] * rng.choice([1, 2, 2, 3])
        ballots = ballots[:6]
        rng.shuffle(ballots)
    else:
        costs = [pb.qs(rng.choice(pool)) for _ in range(m)]
        nv = rng.randrange(1, 7)
        ballots = []
        dens = rng.choice([0.25, 0.5, 0.5, 0.75])
        for _ in range(nv):
            if rng.random() < 0.1:
                ballots.append([])
            else:
                ballots.append([j for j in range(m) if rng.random() < dens])
    b = _budget_for(rng, costs)
    if m and rng.random() < 0.2:
        # one project dearer than the whole budget
        j = rng.randrange(m)
        costs[j] = pb.qs(b + rng.choice([1, Fraction(1, 2), 3]))
    multi = rng.random() < 0.6
    lm = rng.random()
    if lm < 0.4:
        loads = None
    elif lm < 0.5:
        c = rng.choice(LOADPOOL)
        loads = [pb.qs(c)] * len(ballots)
    else:
        loads = [pb.qs(rng.choice(LOADPOOL)) for _ in ballots]
    init = []
    if m and rng.random() < 0.3:
        tot = Fraction(0)
        for j in rng.sample(range(m), rng.randrange(1, min(m, 3) + 1)):
            if tot + pb.F(costs[j]) <= b:
                init.append(j)
                tot += pb.F(costs[j])
    tb = rng.choice(TBS)
    key = list(range(m))
    rng.shuffle(key)
    order = list(range(m))
    rng.shuffle(order)
    if shape == "party" and rng.random() < 0.08:
        tb = "refuse"
    return {"costs": costs, "budget": pb.qs(b), "ballots": ballots, "multi": multi, "loads": loads,
            "init": sorted(init), "tb": tb, "key": key, "resolute": resolute, "order": order}


# ----------------------------------------------------------------------------------------------
# the implementation
# ----------------------------------------------------------------------------------------------
def _tie_breaking(case):
    from pabutools import tiebreaking as T

    tb = case["tb"]
    if tb == "lexico":
        return T.lexico_tie_breaking
    if tb == "app_score":
        return T.app_score_tie_breaking
    if tb == "min_cost":
        return T.min_cost_tie_breaking
    if tb == "max_cost":
        return T.max_cost_tie_breaking
    if tb == "refuse":
        return T.refuse_tie_breaking
    key = case["key"]
    return T.TieBreakingRule(lambda inst, prof, proj: key[pb.rank(proj)])


def impl(case):
    from pabutools.rules.phragmen import sequential_phragmen

    inst, projs = pb.make_instance(case["costs"], case["budget"], case["order"])
    if case.get("mults"):
        from pabutools.election import ApprovalMultiProfile, FrozenApprovalBallot

        prof = ApprovalMultiProfile(instance=inst)
        for b, k in zip(case["ballots"], case["mults"]):
            prof[FrozenApprovalBallot([projs[j] for j in b])] += int(k)
    else:
        prof = pb.make_approval_profile(inst, projs, case["ballots"], multi=case["multi"])
    classes = [[sorted(pb.ranks(b)), int(prof.multiplicity(b))] for b in prof]
    loads = None
    if case["loads"] is not None:
        loads = [pb.num(x) for x in case["loads"][:len(classes)]]
    from pabutools.tiebreaking import TieBreakingException

    try:
        res = sequential_phragmen(
            inst, prof,
            initial_loads=loads,
            initial_budget_allocation=[projs[j] for j in case["init"]],
            tie_breaking=_tie_breaking(case),
            resoluteness=case["resolute"],
        )
    except TieBreakingException:
        return {"classes": classes, "out": [], "raised": True}
    if case["resolute"]:
        out = [pb.ranks(res)]
    else:
        out = [pb.ranks(r) for r in res]
    return {"classes": classes, "out": out}


def _loads(case, o):
    n = len(o["classes"])
    if case["loads"] is None:
        return ["0/1"] * n
    return list(case["loads"][:n])


def coq_case(case, o):
    refuse = case["tb"] == "refuse"
    tbn = 0 if refuse else TBS.index(case["tb"])
    key = [Fraction(k) for k in case["key"]] if case["tb"] == "custom" else []
    return "(mkCase %s %s %s %s %s %s %s %s %s %s %s)" % (
        core.qlist(case["costs"]), q(case["budget"]),
        lst([pair(natl(s), core.nat(k)) for s, k in o["classes"]]),
        core.qlist(_loads(case, o)), natl(case["init"]), core.nat(tbn), core.qlist(key),
        boolc(case["resolute"]), lst([natl(W) for W in o["out"]]), boolc(refuse), boolc(bool(o.get("raised"))))


# ----------------------------------------------------------------------------------------------
# python re-statement of the money process (statistics, and fallback oracle when Coq is broken)
# ----------------------------------------------------------------------------------------------
def _key(case, costs, nsupp):
    tb = case["tb"]
    if tb in ("lexico", "refuse"):     # refuse: the key is never used (the process ends at the first tie)
        return lambda p: p
    if tb == "app_score":
        return lambda p: -nsupp[p]
    if tb == "min_cost":
        return lambda p: costs[p]
    if tb == "max_cost":
        return lambda p: -costs[p]
    return lambda p: case["key"][p]


def money(case, classes, loads):
    """returns (set of frozensets, trace dict).  Voters are expanded to one per copy when there are at
    most 64 copies; above that a class of multiplicity k enters every sum with weight k (same process)."""
    costs = [pb.F(c) for c in case["costs"]]
    B = pb.F(case["budget"])
    voters, bal0, wt = [], [], []
    expand = sum(k for _, k in classes) <= 64
    for (s, k), l in zip(classes, loads):
        for _ in range(k if expand else 1):
            voters.append(set(s))
            bal0.append(-pb.F(l))
            wt.append(1 if expand else k)
    m = len(costs)
    nsupp = [sum(w for v, w in zip(voters, wt) if p in v) for p in range(m)]
    key = _key(case, costs, nsupp)
    init = list(case["init"])
    rem0 = [p for p in range(m) if p not in init and costs[p] <= B]
    tr = {"rounds": 0, "tie": 0, "stop": 0, "stop_mixed": 0, "stop_first_fits": 0, "tail": 0, "backwards": 0,
          "dear": int(any(costs[p] > B for p in range(m))), "bought": 0, "tail_stop": 0, "debt": 0,
          "near_tie": 0, "near_tie_worse_preferred": 0, "memo_loses": 0, "tie_broken": 0}
    outs = set()
    outs_memo = set()       # what an exploration that memoises on the SELECTION (not the loads) would return
    seen = set()

    def go(now, bal, rem, alloc, first_branch, memo_alive):
        if not rem:
            outs.add(frozenset(alloc))
            if memo_alive:
                outs_memo.add(frozenset(alloc))
            return
        spent = sum((costs[p] for p in alloc), Fraction(0))
        sup = [p for p in rem if nsupp[p] > 0]
        if sup:
            def bt(p):
                hold = sum((w * bal[i] for i, (v, w) in enumerate(zip(voters, wt)) if p in v), Fraction(0))
                return now + (costs[p] - hold) / nsupp[p]
            times = {p: bt(p) for p in sup}
            t = min(times.values())
            due = [p for p in sup if times[p] == t]
            if first_branch:
                near = [p for p in sup if times[p] != t and abs(times[p] - t) <= abs(t) / 10 ** 9]
                if near:
                    tr["near_tie"] += 1
                    tr["near_tie_worse_preferred"] += any(
                        sorted(sorted([p, d]), key=key)[0] == p for p in near for d in due)
        else:
            t = None
            due = list(rem)
        order = sorted(sorted(due), key=key)
        over = [p for p in due if spent + costs[p] > B]
        if first_branch:
            tr["rounds"] += 1
            tr["tie"] += len(due) >= 2
            if t is None:
                tr["tail"] += 1
            elif t < now:
                tr["backwards"] += 1
            if any(x < 0 for x in bal):
                tr["debt"] += 1
        if over:
            if first_branch:
                tr["stop"] += 1
                tr["stop_mixed"] += len(over) < len(due)
                tr["stop_first_fits"] += order[0] not in over
                tr["tail_stop"] += t is None
            outs.add(frozenset(alloc))
            if memo_alive:
                outs_memo.add(frozenset(alloc))
            return
        if len(due) >= 2:
            tr["tie_broken"] += 1          # a purchase round with >=2 due projects: tie-breaking is consulted
            if case["tb"] == "refuse":
                return
        for k, p in enumerate(order if not case["resolute"] else order[:1]):
            if t is None:
                nb, nn = bal, now
            else:
                nb = [Fraction(0) if p in v else x + (t - now) for v, x in zip(voters, bal)]
                nn = t
            if first_branch and k == 0:
                tr["bought"] += 1
            alive = memo_alive
            if alive:
                st = frozenset(alloc) | {p}
                if st in seen:
                    alive = False
                else:
                    seen.add(st)
            go(nn, nb, [x for x in rem if x != p], alloc + [p], first_branch and k == 0, alive)

    go(Fraction(0), bal0, rem0, init, True, True)
    tr["memo_loses"] = int(outs_memo != outs)
    return outs, tr


def py_oracle(case, o):
    if not isinstance(o, dict) or "out" not in o:
        return None
    outs, tr = money(case, o["classes"], _loads(case, o))
    if case["tb"] == "refuse":
        if bool(o.get("raised")) != bool(tr["tie_broken"]):
            return 5
        if o.get("raised"):
            return None
    elif o.get("raised"):
        return 7
    got = set(frozenset(W) for W in o["out"])
    return 1 if got != outs else None


def nontrivial(case, o):
    if not isinstance(o, dict) or "out" not in o:
        return None
    _, tr = money(case, o["classes"], _loads(case, o))
    if tr["bought"] >= 1 and (tr["tie"] or tr["stop"] or tr["tail"]):
        return [case["costs"], case["budget"], o["classes"], _loads(case, o), case["init"], case["tb"],
                case["key"] if case["tb"] == "custom" else None, case["resolute"]]
    return None


def stats(cases, obs):
    d = {"cases": 0, "multiprofile": 0, "class_with_multiplicity_ge2": 0, "repeated_ballots_in_list_profile": 0,
         "initial_loads_none": 0, "initial_loads_unequal": 0, "initial_alloc_nonempty": 0,
         "irresolute": 0, "irresolute_with_ge2_outcomes": 0, "fractional_costs": 0, "has_zero_cost": 0,
         "has_project_dearer_than_budget": 0, "has_unsupported_project": 0, "empty_ballot": 0,
         "round_with_tie": 0, "stopped_on_overshoot": 0, "stop_with_mixed_tie": 0,
         "stop_although_tb_first_fits": 0, "unsupported_tail_reached": 0, "tail_stopped": 0,
         "clock_went_backwards": 0, "some_voter_in_debt": 0, "nothing_bought": 0,
         "class_with_multiplicity_ge_10000": 0, "near_tie_below_1e-9_relative": 0,
         "near_tie_and_tb_prefers_the_later_project": 0, "irresolute_order_changes_loads_and_outcomes": 0,
         "refuse_tie_breaking": 0, "refuse_raised": 0, "refuse_returned_after_purchases": 0,
         "refuse_stop_round_with_ge2_due_no_raise": 0, "refuse_near_tie_no_raise": 0,
         "tb_hist": {}, "nproj_hist": {}, "nvoter_copies_hist": {}, "rounds_hist": {}}
    for c, o in zip(cases, obs):
        if not isinstance(o, dict) or "out" not in o:
            continue
        d["cases"] += 1
        cl = o["classes"]
        loads = _loads(c, o)
        _, tr = money(c, cl, loads)
        d["multiprofile"] += bool(c["multi"])
        d["class_with_multiplicity_ge2"] += any(k >= 2 for _, k in cl)
        d["repeated_ballots_in_list_profile"] += (not c["multi"]) and len(set(map(tuple, c["ballots"]))) < len(c["ballots"])
        d["initial_loads_none"] += c["loads"] is None
        d["initial_loads_unequal"] += len(set(pb.F(x) for x in loads)) > 1
        d["initial_alloc_nonempty"] += bool(c["init"])
        d["irresolute"] += not c["resolute"]
        d["irresolute_with_ge2_outcomes"] += (not c["resolute"]) and len(o["out"]) >= 2
        if c["tb"] == "refuse":
            d["refuse_tie_breaking"] += 1
            d["refuse_raised"] += bool(o.get("raised"))
            d["refuse_returned_after_purchases"] += (not o.get("raised")) and tr["bought"] > 0
            d["refuse_stop_round_with_ge2_due_no_raise"] += (not o.get("raised")) and tr["tie"] > 0
            d["refuse_near_tie_no_raise"] += (not o.get("raised")) and tr["near_tie"] > 0
        cs = [pb.F(x) for x in c["costs"]]
        d["fractional_costs"] += any(x.denominator != 1 for x in cs)
        d["has_zero_cost"] += any(x == 0 for x in cs)
        d["has_project_dearer_than_budget"] += tr["dear"]
        sup = set(p for s, _ in cl for p in s)
        d["has_unsupported_project"] += any(p not in sup for p in range(len(cs)))
        d["empty_ballot"] += any(not s for s, _ in cl)
        d["round_with_tie"] += tr["tie"] > 0
        d["stopped_on_overshoot"] += tr["stop"] > 0
        d["stop_with_mixed_tie"] += tr["stop_mixed"] > 0
        d["stop_although_tb_first_fits"] += tr["stop_first_fits"] > 0
        d["unsupported_tail_reached"] += tr["tail"] > 0
        d["tail_stopped"] += tr["tail_stop"] > 0
        d["clock_went_backwards"] += tr["backwards"] > 0
        d["some_voter_in_debt"] += tr["debt"] > 0
        d["nothing_bought"] += tr["bought"] == 0
        d["class_with_multiplicity_ge_10000"] += any(k >= 10000 for _, k in cl)
        d["near_tie_below_1e-9_relative"] += tr["near_tie"] > 0
        d["near_tie_and_tb_prefers_the_later_project"] += tr["near_tie_worse_preferred"] > 0
        d["irresolute_order_changes_loads_and_outcomes"] += (not c["resolute"]) and tr["memo_loses"] > 0
        ncop = sum(k for _, k in cl)
        for k, v in (("tb_hist", c["tb"]), ("nproj_hist", len(cs)),
                     ("nvoter_copies_hist", ncop if ncop <= 64 else ">=10000"), ("rounds_hist", tr["rounds"])):
            d[k][str(v)] = d[k].get(str(v), 0) + 1
    return d


def describe(case, o, code):
    if not isinstance(o, dict) or "out" not in o:
        return {}
    outs, tr = money(case, o["classes"], _loads(case, o))
    return {"money_process_outcomes": sorted(sorted(W) for W in outs), "returned": o["out"], "trace": tr}


# ----------------------------------------------------------------------------------------------
# shrinking
# ----------------------------------------------------------------------------------------------
def shrink(case):
    m = len(case["costs"])
    nv = len(case["ballots"])
    for v in range(nv):
        c = dict(case)
        c["ballots"] = case["ballots"][:v] + case["ballots"][v + 1:]
        if case.get("mults"):
            c["mults"] = case["mults"][:v] + case["mults"][v + 1:]
        if case["loads"] is not None:
            c["loads"] = case["loads"][:v] + case["loads"][v + 1:]
        yield c
    for j in range(m):
        c = dict(case)
        ren = lambda W: [x - (x > j) for x in W if x != j]
        c["costs"] = case["costs"][:j] + case["costs"][j + 1:]
        c["ballots"] = [ren(b) for b in case["ballots"]]
        c["init"] = ren(case["init"])
        c["order"] = ren(case["order"])
        kk = [k for x, k in enumerate(case["key"]) if x != j]
        c["key"] = [sorted(kk).index(k) for k in kk]
        yield c
    if case["loads"] is not None:
        c = dict(case); c["loads"] = None; yield c
    if case["init"]:
        c = dict(case); c["init"] = []; yield c
    if case["tb"] != "lexico":
        c = dict(case); c["tb"] = "lexico"; yield c
    if not case["resolute"]:
        c = dict(case); c["resolute"] = True; yield c
    if case["multi"]:
        c = dict(case); c["multi"] = False; yield c
    for v in range(nv):
        for j in list(case["ballots"][v]):
            c = dict(case)
            c["ballots"] = [list(b) for b in case["ballots"]]
            c["ballots"][v].remove(j)
            yield c
