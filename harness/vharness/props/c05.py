"""C05 -- sequential Phragmen selects exactly what the continuous-money process buys."""
from __future__ import annotations

from fractions import Fraction

from .. import core
from ..core import q, lst, natl, boolc, pair
from .. import pb

NAMING = True
ID = "C05"
ORACLE = "Oracle.C05"
PROPS = "Props/C05.v"
LEVEL = "proof"
SHARD = 110
CODES = {
    1: ("oracle", "sequential_phragmen's allocation(s) differ from what the continuous-money process buys "
                  "(one voter per ballot copy, stop as soon as some due project would overshoot)"),
    2: ("model", "sequential_phragmen's allocation(s) differ from the Gallina mirror Model/Phragmen.v"),
    3: ("oracle", "a returned allocation is not a feasible duplicate-free superset of the initial allocation"),
    4: ("model", "Gallina model and money process disagree with each other (outside the theorems' hypotheses?)"),
    core.RAISED: ("oracle", "sequential_phragmen raised / the interpreter died"),
}
RULE = ("approval elections, 1..6 voters (ballot copies), 0..7 projects, Profile and MultiProfile (also profiles with "
        "repeated ballots), cost pools with zeros / equal costs / halves and thirds / one project dearer than the budget, "
        "budgets on subset sums and boundaries, party-list elections built so that several projects fall due at the same "
        "moment, initial_loads None / equal / unequal, feasible initial allocations, lexico / app_score / min_cost / "
        "max_cost tie-breaking and random strict orders, resolute and irresolute.  non-trivial = distinct election in "
        "which at least one project is bought by the process and (a tie between >=2 due projects occurred, or the "
        "process stopped on an overshoot, or the unsupported tail was reached)")
ASSUMPTIONS = [
    "hand-written Gallina model of phragmen.py tied to the code by differential execution only",
    "gmpy2 mpq / int arithmetic = exact Q",
    "project names p00.. so that name order = rank order; tie-breaking keys are the shipped lambdas or a strict order",
]
TRUSTED = ["Model/Phragmen.v mirrors pabutools/rules/phragmen.py after repair R6 (modelled, not verified)",
           "Spec/PhragmenMoney.v is the reading of the property's prose (stop rule under ties: some due project overshoots; "
           "unsupported projects all due together at the end of time)"]
EXPLANATION = ("Theorems (unbounded, Props/C05.v): the load recursion of the model and the money process make the same "
               "purchases from related states (abs: balance = clock - load), so the model's output equals the money "
               "process's output, resolute and irresolute; a class of multiplicity k behaves as k voters; the stop rule; "
               "feasibility and extension of the initial allocation.  Tie: every returned allocation (set of sets when "
               "irresolute) is compared inside Coq with the executable money process on the expanded profile (oracle) and "
               "with the Gallina mirror (correspondence).")

POOLS = [
    [0, 1, 1, 2, 2, 3],
    [1, 1, 1, 2],
    [1, 2, 3, 4, 6],
    ["1/2", "1/3", "3/2", "2/3", 1, 2],
    [2, 2, 2, 2],
    [0, 0, 1, 2],
    ["5/2", "7/3", 5, 1, "1/2"],
    [3, 6, 9, 2, 4],
]
LOADPOOL = [0, 0, "1/2", 1, 1, 2, "1/3", 3, "3/2", 5]
TBS = ["lexico", "app_score", "min_cost", "max_cost", "custom"]


def budget(tier):
    return 3000 if tier == "quick" else 24000


# ----------------------------------------------------------------------------------------------
# generator
# ----------------------------------------------------------------------------------------------
def _budget_for(rng, costs):
    fs = [pb.F(c) for c in costs]
    tot = sum(fs, Fraction(0))
    n = len(fs)
    mode = rng.randrange(8)
    if n == 0:
        return Fraction(rng.choice([1, 2, 3]))
    if mode == 0:
        return tot
    if mode == 1:
        return tot + rng.choice([1, Fraction(1, 2)])
    if mode in (2, 3):
        k = rng.randrange(1, n + 1)
        return sum(rng.sample(fs, k), Fraction(0))
    if mode == 4:
        k = rng.randrange(1, n + 1)
        return max(Fraction(0), sum(rng.sample(fs, k), Fraction(0)) - rng.choice([Fraction(1, 2), Fraction(1, 3), 1]))
    if mode == 5:
        return tot * Fraction(rng.randrange(1, 8), 8)
    if mode == 6:
        return max(fs) if rng.random() < 0.7 else min(fs)
    return Fraction(rng.choice([1, 2, 3, 4, 5]))


def gen(rng, i, tier):
    """rejection sampling on the python money trace: most cases buy something; a quarter is steered
    towards a stop at which only SOME of the due projects overshoot (the stop rule under ties)"""
    want = rng.random()
    best = None
    for attempt in range(8):
        c = _draw(rng, "party" if want < 0.25 and attempt < 7 else None)
        classes = [[sorted(b), 1] for b in c["ballots"]]
        loads = c["loads"] if c["loads"] is not None else ["0/1"] * len(classes)
        _, tr = money(c, classes, loads)
        if best is None:
            best = c
        if want < 0.25:
            if tr["stop_mixed"]:
                return c
            if tr["bought"]:
                best = c
        elif want < 0.9:
            if tr["bought"]:
                return c
        else:
            return c
    return best


def _draw(rng, shape=None):
    shape = shape or rng.choice(["random", "random", "party", "party", "dups", "dups"])
    m = rng.choice([0, 1, 2, 3, 3, 4, 4, 5, 5, 6, 7])
    resolute = rng.random() < 0.6
    if not resolute:
        m = min(m, 6)
    pool = rng.choice(POOLS)
    if shape == "party" and m >= 2:
        # disjoint groups of voters; a group of g voters gets projects of cost g*r: all due together
        nv = rng.randrange(2, 7)
        ngroups = rng.randrange(1, min(3, nv) + 1)
        cuts = sorted(rng.sample(range(1, nv), ngroups - 1)) if ngroups > 1 else []
        bounds = [0] + cuts + [nv]
        groups = [list(range(bounds[k], bounds[k + 1])) for k in range(ngroups)]
        r = pb.F(rng.choice([1, 1, 2, "1/2", "1/3", "3/2"]))
        ballots = [[] for _ in range(nv)]
        costs = []
        for j in range(m):
            kind = rng.random()
            if kind < 0.7:
                g = rng.choice(groups)
                mult = rng.choice([1, 1, 1, 2])
                costs.append(pb.qs(len(g) * r * mult))
                for v in g:
                    ballots[v].append(j)
            elif kind < 0.85:
                costs.append(pb.qs(rng.choice(pool)))      # unsupported
            else:
                costs.append(pb.qs(rng.choice(pool)))
                for v in rng.sample(range(nv), rng.randrange(1, nv + 1)):
                    ballots[v].append(j)
    elif shape == "dups":
        costs = [pb.qs(rng.choice(pool)) for _ in range(m)]
        nd = rng.randrange(1, 4)
        distinct = [sorted(rng.sample(range(m), rng.randrange(0, m + 1))) if m else [] for _ in range(nd)]
        ballots = []
        for b in distinct:
            ballots += [list(b)] * rng.choice([1, 2, 2, 3])
        ballots = ballots[:6]
        rng.shuffle(ballots)
    else:
        costs = [pb.qs(rng.choice(pool)) for _ in range(m)]
        nv = rng.randrange(1, 7)
        ballots = []
        dens = rng.choice([0.25, 0.5, 0.5, 0.75])
        for _ in range(nv):
            if rng.random() < 0.1:
                ballots.append([])
            else:
                ballots.append([j for j in range(m) if rng.random() < dens])
    b = _budget_for(rng, costs)
    if m and rng.random() < 0.2:
        # one project dearer than the whole budget
        j = rng.randrange(m)
        costs[j] = pb.qs(b + rng.choice([1, Fraction(1, 2), 3]))
    multi = rng.random() < 0.6
    lm = rng.random()
    if lm < 0.4:
        loads = None
    elif lm < 0.5:
        c = rng.choice(LOADPOOL)
        loads = [pb.qs(c)] * len(ballots)
    else:
        loads = [pb.qs(rng.choice(LOADPOOL)) for _ in ballots]
    init = []
    if m and rng.random() < 0.3:
        tot = Fraction(0)
        for j in rng.sample(range(m), rng.randrange(1, min(m, 3) + 1)):
            if tot + pb.F(costs[j]) <= b:
                init.append(j)
                tot += pb.F(costs[j])
    tb = rng.choice(TBS)
    key = list(range(m))
    rng.shuffle(key)
    order = list(range(m))
    rng.shuffle(order)
    return {"costs": costs, "budget": pb.qs(b), "ballots": ballots, "multi": multi, "loads": loads,
            "init": sorted(init), "tb": tb, "key": key, "resolute": resolute, "order": order}


# ----------------------------------------------------------------------------------------------
# the implementation
# ----------------------------------------------------------------------------------------------
def _tie_breaking(case):
    from pabutools import tiebreaking as T

    tb = case["tb"]
    if tb == "lexico":
        return T.lexico_tie_breaking
    if tb == "app_score":
        return T.app_score_tie_breaking
    if tb == "min_cost":
        return T.min_cost_tie_breaking
    if tb == "max_cost":
        return T.max_cost_tie_breaking
    key = case["key"]
    return T.TieBreakingRule(lambda inst, prof, proj: key[pb.rank(proj)])


def impl(case):
    from pabutools.rules.phragmen import sequential_phragmen

    inst, projs = pb.make_instance(case["costs"], case["budget"], case["order"])
    prof = pb.make_approval_profile(inst, projs, case["ballots"], multi=case["multi"])
    classes = [[sorted(pb.ranks(b)), int(prof.multiplicity(b))] for b in prof]
    loads = None
    if case["loads"] is not None:
        loads = [pb.num(x) for x in case["loads"][:len(classes)]]
    res = sequential_phragmen(
        inst, prof,
        initial_loads=loads,
        initial_budget_allocation=[projs[j] for j in case["init"]],
        tie_breaking=_tie_breaking(case),
        resoluteness=case["resolute"],
    )
    if case["resolute"]:
        out = [pb.ranks(res)]
    else:
        out = [pb.ranks(r) for r in res]
    return {"classes": classes, "out": out}


def _loads(case, o):
    n = len(o["classes"])
    if case["loads"] is None:
        return ["0/1"] * n
    return list(case["loads"][:n])


def coq_case(case, o):
    tbn = TBS.index(case["tb"])
    key = [Fraction(k) for k in case["key"]] if case["tb"] == "custom" else []
    return "(mkCase %s %s %s %s %s %s %s %s %s)" % (
        core.qlist(case["costs"]), q(case["budget"]),
        lst([pair(natl(s), core.nat(k)) for s, k in o["classes"]]),
        core.qlist(_loads(case, o)), natl(case["init"]), core.nat(tbn), core.qlist(key),
        boolc(case["resolute"]), lst([natl(W) for W in o["out"]]))


# ----------------------------------------------------------------------------------------------
# python re-statement of the money process (statistics, and fallback oracle when Coq is broken)
# ----------------------------------------------------------------------------------------------
def _key(case, costs, nsupp):
    tb = case["tb"]
    if tb == "lexico":
        return lambda p: p
    if tb == "app_score":
        return lambda p: -nsupp[p]
    if tb == "min_cost":
        return lambda p: costs[p]
    if tb == "max_cost":
        return lambda p: -costs[p]
    return lambda p: case["key"][p]


def money(case, classes, loads):
    """returns (set of frozensets, trace dict); voters are expanded to one per copy"""
    costs = [pb.F(c) for c in case["costs"]]
    B = pb.F(case["budget"])
    voters, bal0 = [], []
    for (s, k), l in zip(classes, loads):
        for _ in range(k):
            voters.append(set(s))
            bal0.append(-pb.F(l))
    m = len(costs)
    nsupp = [sum(1 for v in voters if p in v) for p in range(m)]
    key = _key(case, costs, nsupp)
    init = list(case["init"])
    rem0 = [p for p in range(m) if p not in init and costs[p] <= B]
    tr = {"rounds": 0, "tie": 0, "stop": 0, "stop_mixed": 0, "stop_first_fits": 0, "tail": 0, "backwards": 0,
          "dear": int(any(costs[p] > B for p in range(m))), "bought": 0, "tail_stop": 0, "debt": 0}
    outs = set()

    def go(now, bal, rem, alloc, first_branch):
        if not rem:
            outs.add(frozenset(alloc))
            return
        spent = sum((costs[p] for p in alloc), Fraction(0))
        sup = [p for p in rem if nsupp[p] > 0]
        if sup:
            def bt(p):
                hold = sum((bal[i] for i, v in enumerate(voters) if p in v), Fraction(0))
                return now + (costs[p] - hold) / nsupp[p]
            t = min(bt(p) for p in sup)
            due = [p for p in sup if bt(p) == t]
        else:
            t = None
            due = list(rem)
        order = sorted(sorted(due), key=key)
        over = [p for p in due if spent + costs[p] > B]
        if first_branch:
            tr["rounds"] += 1
            tr["tie"] += len(due) >= 2
            if t is None:
                tr["tail"] += 1
            elif t < now:
                tr["backwards"] += 1
            if any(x < 0 for x in bal):
                tr["debt"] += 1
        if over:
            if first_branch:
                tr["stop"] += 1
                tr["stop_mixed"] += len(over) < len(due)
                tr["stop_first_fits"] += order[0] not in over
                tr["tail_stop"] += t is None
            outs.add(frozenset(alloc))
            return
        for k, p in enumerate(order if not case["resolute"] else order[:1]):
            if t is None:
                nb, nn = bal, now
            else:
                nb = [Fraction(0) if p in v else x + (t - now) for v, x in zip(voters, bal)]
                nn = t
            if first_branch and k == 0:
                tr["bought"] += 1
            go(nn, nb, [x for x in rem if x != p], alloc + [p], first_branch and k == 0)

    go(Fraction(0), bal0, rem0, init, True)
    return outs, tr


def py_oracle(case, o):
    if not isinstance(o, dict) or "out" not in o:
        return None
    outs, _ = money(case, o["classes"], _loads(case, o))
    got = set(frozenset(W) for W in o["out"])
    return 1 if got != outs else None


def nontrivial(case, o):
    if not isinstance(o, dict) or "out" not in o:
        return None
    _, tr = money(case, o["classes"], _loads(case, o))
    if tr["bought"] >= 1 and (tr["tie"] or tr["stop"] or tr["tail"]):
        return [case["costs"], case["budget"], o["classes"], _loads(case, o), case["init"], case["tb"],
                case["key"] if case["tb"] == "custom" else None, case["resolute"]]
    return None


def stats(cases, obs):
    d = {"cases": 0, "multiprofile": 0, "class_with_multiplicity_ge2": 0, "repeated_ballots_in_list_profile": 0,
         "initial_loads_none": 0, "initial_loads_unequal": 0, "initial_alloc_nonempty": 0,
         "irresolute": 0, "irresolute_with_ge2_outcomes": 0, "fractional_costs": 0, "has_zero_cost": 0,
         "has_project_dearer_than_budget": 0, "has_unsupported_project": 0, "empty_ballot": 0,
         "round_with_tie": 0, "stopped_on_overshoot": 0, "stop_with_mixed_tie": 0,
         "stop_although_tb_first_fits": 0, "unsupported_tail_reached": 0, "tail_stopped": 0,
         "clock_went_backwards": 0, "some_voter_in_debt": 0, "nothing_bought": 0,
         "tb_hist": {}, "nproj_hist": {}, "nvoter_copies_hist": {}, "rounds_hist": {}}
    for c, o in zip(cases, obs):
        if not isinstance(o, dict) or "out" not in o:
            continue
        d["cases"] += 1
        cl = o["classes"]
        loads = _loads(c, o)
        _, tr = money(c, cl, loads)
        d["multiprofile"] += bool(c["multi"])
        d["class_with_multiplicity_ge2"] += any(k >= 2 for _, k in cl)
        d["repeated_ballots_in_list_profile"] += (not c["multi"]) and len(set(map(tuple, c["ballots"]))) < len(c["ballots"])
        d["initial_loads_none"] += c["loads"] is None
        d["initial_loads_unequal"] += len(set(pb.F(x) for x in loads)) > 1
        d["initial_alloc_nonempty"] += bool(c["init"])
        d["irresolute"] += not c["resolute"]
        d["irresolute_with_ge2_outcomes"] += (not c["resolute"]) and len(o["out"]) >= 2
        cs = [pb.F(x) for x in c["costs"]]
        d["fractional_costs"] += any(x.denominator != 1 for x in cs)
        d["has_zero_cost"] += any(x == 0 for x in cs)
        d["has_project_dearer_than_budget"] += tr["dear"]
        sup = set(p for s, _ in cl for p in s)
        d["has_unsupported_project"] += any(p not in sup for p in range(len(cs)))
        d["empty_ballot"] += any(not s for s, _ in cl)
        d["round_with_tie"] += tr["tie"] > 0
        d["stopped_on_overshoot"] += tr["stop"] > 0
        d["stop_with_mixed_tie"] += tr["stop_mixed"] > 0
        d["stop_although_tb_first_fits"] += tr["stop_first_fits"] > 0
        d["unsupported_tail_reached"] += tr["tail"] > 0
        d["tail_stopped"] += tr["tail_stop"] > 0
        d["clock_went_backwards"] += tr["backwards"] > 0
        d["some_voter_in_debt"] += tr["debt"] > 0
        d["nothing_bought"] += tr["bought"] == 0
        for k, v in (("tb_hist", c["tb"]), ("nproj_hist", len(cs)),
                     ("nvoter_copies_hist", sum(k for _, k in cl)), ("rounds_hist", tr["rounds"])):
            d[k][str(v)] = d[k].get(str(v), 0) + 1
    return d


def describe(case, o, code):
    if not isinstance(o, dict) or "out" not in o:
        return {}
    outs, tr = money(case, o["classes"], _loads(case, o))
    return {"money_process_outcomes": sorted(sorted(W) for W in outs), "returned": o["out"], "trace": tr}


# ----------------------------------------------------------------------------------------------
# shrinking
# ----------------------------------------------------------------------------------------------
def shrink(case):
    m = len(case["costs"])
    nv = len(case["ballots"])
    for v in range(nv):
        c = dict(case)
        c["ballots"] = case["ballots"][:v] + case["ballots"][v + 1:]
        if case["loads"] is not None:
            c["loads"] = case["loads"][:v] + case["loads"][v + 1:]
        yield c
    for j in range(m):
        c = dict(case)
        ren = lambda W: [x - (x > j) for x in W if x != j]
        c["costs"] = case["costs"][:j] + case["costs"][j + 1:]
        c["ballots"] = [ren(b) for b in case["ballots"]]
        c["init"] = ren(case["init"])
        c["order"] = ren(case["order"])
        kk = [k for x, k in enumerate(case["key"]) if x != j]
        c["key"] = [sorted(kk).index(k) for k in kk]
        yield c
    if case["loads"] is not None:
        c = dict(case); c["loads"] = None; yield c
    if case["init"]:
        c = dict(case); c["init"] = []; yield c
    if case["tb"] != "lexico":
        c = dict(case); c["tb"] = "lexico"; yield c
    if not case["resolute"]:
        c = dict(case); c["resolute"] = True; yield c
    if case["multi"]:
        c = dict(case); c["multi"] = False; yield c
    for v in range(nv):
        for j in list(case["ballots"][v]):
            c = dict(case)
            c["ballots"] = [list(b) for b in case["ballots"]]
            c["ballots"][v].remove(j)
            yield c
