"""C16 helper process: started once per (worker, PYTHONHASHSEED); reads one JSON case per line on stdin,
builds the ballots / multiprofile with the REAL library and prints one JSON observation per line."""
from __future__ import annotations

import json
import sys
import traceback
from fractions import Fraction

METAS = [None, {"district": "A"}, {"age": "30", "sex": "f"}, {"k": "v"}]


def _num(s, rep):
    fr = Fraction(s)
    if rep == "float":
        try:
            x = float(fr)
            if Fraction(x) == fr:          # only values a binary float represents exactly
                return x
        except OverflowError:
            pass
        rep = "mpq"
    if rep == "mpq":
        from pabutools.fractions import frac
        return frac(int(fr.numerator), int(fr.denominator))
    if rep == "frac":
        return fr
    if fr.denominator == 1:
        return int(fr.numerator)
    from pabutools.fractions import frac
    return frac(int(fr.numerator), int(fr.denominator))


def _qs(x):
    try:
        fr = Fraction(int(x.numerator), int(x.denominator))
    except AttributeError:
        fr = Fraction(x)
    return "%d/%d" % (fr.numerator, fr.denominator)


def classes(kind):
    from pabutools.election import ballot as B, profile as P
    return {
        "app": (B.ApprovalBallot, B.FrozenApprovalBallot, P.ApprovalProfile, P.ApprovalMultiProfile),
        "card": (B.CardinalBallot, B.FrozenCardinalBallot, P.CardinalProfile, P.CardinalMultiProfile),
        "cum": (B.CumulativeBallot, B.FrozenCumulativeBallot, P.CumulativeProfile, P.CumulativeMultiProfile),
        "ord": (B.OrdinalBallot, B.FrozenOrdinalBallot, P.OrdinalProfile, P.OrdinalMultiProfile),
    }[kind]


def run_case(case):
    from pabutools.election import Instance, Project

    kind = case["kind"]
    BallotC, FrozenC, ProfileC, MultiC = classes(kind)
    prefix = case.get("prefix", "p")
    nproj = case["nproj"]
    shared = [Project(prefix + "%02d" % i, 1) for i in range(nproj)]
    inst = Instance(shared, budget_limit=nproj)
    fresh = case.get("fresh_projects", False)

    def proj(i):
        return Project(prefix + "%02d" % i, 1) if fresh else shared[i]

    def rank(p):
        return int(str(p.name)[len(prefix):])

    def name_id(n):
        if n == "":
            return 0
        if isinstance(n, str) and n.startswith("v") and n[1:].isdigit():
            return int(n[1:])
        return 999

    def meta_id(m):
        if type(m) is not dict:
            return 999
        if m == {}:
            return 0
        for k in range(1, len(METAS)):
            if m == METAS[k]:
                return k
        return 999

    def items_of(b):
        if isinstance(b, dict) and kind in ("card", "cum"):
            return [[rank(p), _qs(s)] for p, s in b.items()]
        return [[rank(p), "0/1"] for p in b]

    def apply_step(b, h, rep):
        """one insertion / removal on the mutable ballot b, through the mutator selected by h[3] ("via")"""
        via = h[3] if len(h) > 3 else 0
        pr = proj(h[1])
        if h[0] == "+":
            if kind == "app":
                [lambda: b.add(pr), lambda: b.update([pr]), lambda: b.__ior__({pr}),
                 lambda: b.symmetric_difference_update([pr]) if pr not in b else b.add(pr)][via % 4]()
            elif kind == "ord":
                [lambda: b.append(pr), lambda: b.__setitem__(pr, None), lambda: b.update({pr: None}),
                 lambda: b.setdefault(pr), lambda: b.__ior__({pr: None})][via % 5]()
            else:
                v = _num(h[2], rep)
                [lambda: b.__setitem__(pr, v), lambda: b.update({pr: v}), lambda: b.__ior__({pr: v}),
                 lambda: b.setdefault(pr, v) if pr not in b else b.update([(pr, v)]),
                 lambda: b.update(**{}) or b.update(((pr, v),))][via % 5]()
        else:
            if kind == "app":
                [lambda: b.discard(pr), lambda: b.remove(pr) if pr in b else None, lambda: b.__isub__({pr}),
                 lambda: b.difference_update([pr]), lambda: b.intersection_update([x for x in b if x != pr])][via % 5]()
            else:
                def _popitem():
                    if len(b) and list(b)[-1] == pr:
                        b.popitem()
                    else:
                        b.pop(pr, None)

                def _clear():
                    if list(b) == [pr]:
                        b.clear()
                    else:
                        b.pop(pr, None)

                def _del():
                    if pr in b:
                        del b[pr]
                [lambda: b.pop(pr, None), _del, _popitem, _clear][via % 4]()

    specs = case["ballots"]
    ballots = [None] * len(specs)          # version index -> the (shared) Python object
    for j, spec in enumerate(specs):
        if spec.get("base") is not None:
            continue
        hist = spec["hist"]
        if spec.get("direct"):
            # a frozen ballot that never went through Ballot.frozen(): built from a sequence / dict in the given order,
            # from another frozen ballot, or from a mutable ballot
            kw = {}
            if spec["name"]:
                kw["name"] = "v%d" % spec["name"]
            if spec["meta"]:
                kw["meta"] = dict(METAS[spec["meta"]])
            rep = spec.get("numrep", "int")
            if kind in ("app", "ord"):
                seq = [proj(h[1]) for h in hist]
                seq = seq if spec.get("seqtype") != "tuple" else tuple(seq)
            else:
                seq = {}
                for h in hist:
                    seq[proj(h[1])] = _num(h[2], rep)
            if spec["direct"] == "seq":
                ballots[j] = FrozenC(seq, **kw)
            elif spec["direct"] == "frozen":
                ballots[j] = FrozenC(FrozenC(seq, **kw))
            else:
                ballots[j] = FrozenC(BallotC(seq, **kw))
            continue
        nc = spec.get("ctor", 0)
        rep = spec.get("numrep", "int")
        kw = {}
        if spec["name"]:
            kw["name"] = "v%d" % spec["name"]
        if spec["meta"]:
            kw["meta"] = dict(METAS[spec["meta"]])
        head = hist[:nc]
        if kind in ("app", "ord"):
            b = BallotC([proj(h[1]) for h in head], **kw)
        else:
            d = {}
            for h in head:
                d[proj(h[1])] = _num(h[2], rep)
            b = BallotC(d, **kw)
        for h in hist[nc:]:
            apply_step(b, h, rep)
        ballots[j] = b

    # a superseded version is observed (content, frozen form) at the moment just before the object is edited again
    snap = {}

    def edits_due(t):
        for j, spec in enumerate(specs):
            if spec.get("base") is not None and spec.get("edit_at", 0) == t and ballots[j] is None:
                i = spec["base"]
                b = ballots[i]
                if b is None:
                    raise ValueError("version %d edited before its base exists" % j)
                snap[i] = (items_of(b), b.frozen(), [name_id(b.name), meta_id(b.meta)])   # freezes: primes any cache
                for h in spec["hist"][len(specs[i]["hist"]):]:
                    apply_step(b, h, spec.get("numrep", "int"))
                ballots[j] = b

    from pabutools.election.ballot import FrozenBallot as _FB

    def fzof(b):
        return b if isinstance(b, _FB) else b.frozen()

    def feed(idxs, kind, frozen=False):
        """the ballots as an iterable of the requested KIND; '+fresh': every element is a temporary object built on
        the fly (a copy-constructed ballot resp. a newly frozen one) that dies as soon as the consumer drops it"""
        ikind = kind or "list"
        fresh = ikind.endswith("+fresh")
        k = ikind.split("+")[0]
        if frozen:
            f = (lambda i: FrozenC(fzof(ballots[i]))) if fresh else (lambda i: fzof(ballots[i]))
        else:
            f = (lambda i: (FrozenC(ballots[i]) if isinstance(ballots[i], _FB) else BallotC(ballots[i]))) if fresh \
                else (lambda i: ballots[i])
        if k == "list":
            return [f(i) for i in idxs]
        if k == "tuple":
            return tuple(f(i) for i in idxs)
        if k == "gen":
            return (f(i) for i in idxs)
        if k == "map":
            return map(f, idxs)
        if k == "iter":
            return iter([f(i) for i in idxs])
        # ---- container OBJECTS of the library / of collections holding the (frozen) ballots ------------------
        if frozen and k.startswith(("fprofile", "gen_over_fprofile", "multi", "counter", "dict")):
            from collections import Counter as _Counter
            seq = [f(i) for i in idxs]

            def fprofile(items, voff=False):
                if voff:
                    return ProfileC(items, instance=inst, ballot_validation=False)
                return ProfileC(items, instance=inst, ballot_type=FrozenC)
            if k == "fprofile":
                return fprofile(seq)
            if k == "fprofile_voff":
                return fprofile(seq, voff=True)
            if k == "fprofile_grown":
                pr = fprofile(seq[:1])
                for x in seq[1:2]:
                    pr.append(x)
                pr.extend(seq[2:])
                return pr
            if k == "fprofile_slice":
                return fprofile(seq + seq[:1])[0:len(seq)]
            if k == "fprofile_copy":
                return fprofile(seq).copy()
            if k == "fprofile_add":
                h = len(seq) // 2
                # (Profile.__add__ re-validates against the generic Ballot type when validation is on: a list profile
                #  whose ballot_type is a frozen class cannot be added on HEAD -- validation off on the left)
                return fprofile(seq[:h], voff=True) + fprofile(seq[h:])
            if k == "gen_over_fprofile":
                pr = fprofile(seq)
                return (b for b in pr)
            if k == "multi":
                return MultiC(seq, instance=inst)
            if k == "multi_grown":
                m2 = MultiC(instance=inst)
                m2.extend(seq)
                return m2
            if k == "counter":
                return _Counter(seq)
            if k == "dict":
                return dict(_Counter(seq))
        raise ValueError("unknown iterable kind " + ikind)

    def build_profile(idxs, kind, pmode):
        if pmode == "extend":
            pr = ProfileC(instance=inst)
            pr.extend(feed(idxs, kind))
            return pr
        if pmode == "iadd":
            pr = ProfileC(instance=inst)
            pr += feed(idxs, kind)
            return pr
        if pmode == "slice":
            items = list(feed(idxs, kind))
            return ProfileC(items + items[:1], instance=inst)[0:len(items)]
        if pmode == "copy":
            return ProfileC(feed(idxs, kind), instance=inst).copy()
        if pmode == "add":
            items = list(feed(idxs, kind))
            h = len(items) // 2
            return ProfileC(items[:h], instance=inst) + ProfileC(items[h:], instance=inst)
        return ProfileC(feed(idxs, kind), instance=inst)

    ops = case["ops"]
    mp = None
    rest = list(enumerate(ops))
    edits_due(0)
    if ops and ops[0][0] in ("conv", "profile", "init"):
        first = ops[0]
        rest = rest[1:]
        ikind = first[2] if len(first) > 2 else "list"
        pmode = first[3] if len(first) > 3 else "ctor"
        if first[0] == "conv":
            mp = build_profile(first[1], ikind, pmode).as_multiprofile()
        elif first[0] == "profile":
            mp = MultiC(profile=build_profile(first[1], ikind, pmode), instance=inst)
        elif pmode == "pos":
            mp = MultiC(feed(first[1], ikind, frozen=True), inst)            # positional arguments
        else:
            mp = MultiC(init=feed(first[1], ikind, frozen=True), instance=inst)
    if mp is None:
        mp = MultiC(instance=inst)
    for t, op in rest:
        edits_due(t)
        if op[0] == "append":
            mp.append(fzof(ballots[op[1]]))
        elif op[0] == "extend":
            mp.extend(feed(op[1], op[2] if len(op) > 2 else "list"))
        elif op[0] == "extend_frozen":
            mp.extend(feed(op[1], op[2] if len(op) > 2 else "list", frozen=True))
        elif op[0] == "update_frozen":
            mp.update(feed(op[1], op[2] if len(op) > 2 else "list", frozen=True))     # Counter.update(iterable)
        elif op[0] == "iadd_frozen":
            mp += feed(op[1], op[2] if len(op) > 2 else "counter", frozen=True)      # Counter.__iadd__(mapping)
        elif op[0] == "extend_profile":
            mp.extend(build_profile(op[1], op[2] if len(op) > 2 else "list", op[3] if len(op) > 3 else "ctor"))
        elif op[0] == "extend_conv":
            # a second conversion: the ballots go through as_multiprofile of a fresh profile, then in one by one
            for k, c in build_profile(op[1], op[2] if len(op) > 2 else "list",
                                      op[3] if len(op) > 3 else "ctor").as_multiprofile().items():
                for _ in range(c):
                    mp.append(k)
        else:
            raise ValueError("unknown op " + str(op))
    for t in range(len(ops), len(ops) + 2):
        edits_due(t)

    cur_items, fz, mids = [], [], []
    for j in range(len(specs)):
        if j in snap:
            cur_items.append(snap[j][0]); fz.append(snap[j][1]); mids.append(snap[j][2])
        else:
            b = ballots[j]
            cur_items.append(items_of(b)); fz.append(fzof(b)); mids.append([name_id(b.name), meta_id(b.meta)])
    out = {
        "mp_type": type(mp).__name__,
        "iter": cur_items,
        "len": len(mp),
        "num": int(mp.num_ballots()),
        "mult": [int(mp.multiplicity(f)) for f in fz],
        "entries": [[items_of(k), int(c)] for k, c in mp.items()],
        "eq": [[bool(x == y) for y in fz] for x in fz],
        "heq": [[hash(x) == hash(y) for y in fz] for x in fz],
        "frozen": [[items_of(f), name_id(f.name), meta_id(f.meta)] for f in fz],
        "frozen_type_ok": all(type(f) is FrozenC for f in fz),
        "mutable_ids": mids,
    }
    return out


def main():
    for line in sys.stdin:
        line = line.strip()
        if not line:
            continue
        try:
            obs = run_case(json.loads(line))
        except BaseException as e:  # noqa
            if isinstance(e, (KeyboardInterrupt, SystemExit)):
                raise
            obs = {"exc": type(e).__name__ + ": " + str(e)[:300], "tb": traceback.format_exc()[-1200:]}
        sys.stdout.write(json.dumps(obs) + "\n")
        sys.stdout.flush()


if __name__ == "__main__":
    main()
