"""C16 helper process: started once per (worker, PYTHONHASHSEED); reads one JSON case per line on stdin,
builds the ballots / multiprofile with the REAL library and prints one JSON observation per line."""
from __future__ import annotations

import json
import sys
import traceback
from fractions import Fraction

METAS = [None, {"district": "A"}, {"age": "30", "sex": "f"}, {"k": "v"}]


def _num(s, rep):
    fr = Fraction(s)
    if rep == "mpq":
        from pabutools.fractions import frac
        return frac(int(fr.numerator), int(fr.denominator))
    if rep == "frac":
        return fr
    if fr.denominator == 1:
        return int(fr.numerator)
    from pabutools.fractions import frac
    return frac(int(fr.numerator), int(fr.denominator))


def _qs(x):
    try:
        fr = Fraction(int(x.numerator), int(x.denominator))
    except AttributeError:
        fr = Fraction(x)
    return "%d/%d" % (fr.numerator, fr.denominator)


def classes(kind):
    from pabutools.election import ballot as B, profile as P
    return {
        "app": (B.ApprovalBallot, B.FrozenApprovalBallot, P.ApprovalProfile, P.ApprovalMultiProfile),
        "card": (B.CardinalBallot, B.FrozenCardinalBallot, P.CardinalProfile, P.CardinalMultiProfile),
        "cum": (B.CumulativeBallot, B.FrozenCumulativeBallot, P.CumulativeProfile, P.CumulativeMultiProfile),
        "ord": (B.OrdinalBallot, B.FrozenOrdinalBallot, P.OrdinalProfile, P.OrdinalMultiProfile),
    }[kind]


def run_case(case):
    from pabutools.election import Instance, Project

    kind = case["kind"]
    BallotC, FrozenC, ProfileC, MultiC = classes(kind)
    prefix = case.get("prefix", "p")
    nproj = case["nproj"]
    shared = [Project(prefix + "%02d" % i, 1) for i in range(nproj)]
    inst = Instance(shared, budget_limit=nproj)
    fresh = case.get("fresh_projects", False)

    def proj(i):
        return Project(prefix + "%02d" % i, 1) if fresh else shared[i]

    def rank(p):
        return int(str(p.name)[len(prefix):])

    def name_id(n):
        if n == "":
            return 0
        if isinstance(n, str) and n.startswith("v") and n[1:].isdigit():
            return int(n[1:])
        return 999

    def meta_id(m):
        if type(m) is not dict:
            return 999
        if m == {}:
            return 0
        for k in range(1, len(METAS)):
            if m == METAS[k]:
                return k
        return 999

    def items_of(b):
        if isinstance(b, dict) and kind in ("card", "cum"):
            return [[rank(p), _qs(s)] for p, s in b.items()]
        return [[rank(p), "0/1"] for p in b]

    ballots = []
    for spec in case["ballots"]:
        hist = spec["hist"]
        nc = spec.get("ctor", 0)
        rep = spec.get("numrep", "int")
        kw = {}
        if spec["name"]:
            kw["name"] = "v%d" % spec["name"]
        if spec["meta"]:
            kw["meta"] = dict(METAS[spec["meta"]])
        head = hist[:nc]
        if kind == "app":
            b = BallotC([proj(h[1]) for h in head], **kw)
        elif kind == "ord":
            b = BallotC([proj(h[1]) for h in head], **kw)
        else:
            d = {}
            for h in head:
                d[proj(h[1])] = _num(h[2], rep)
            b = BallotC(d, **kw)
        for h in hist[nc:]:
            if h[0] == "+":
                if kind == "app":
                    b.add(proj(h[1]))
                elif kind == "ord":
                    b.append(proj(h[1]))
                else:
                    b[proj(h[1])] = _num(h[2], rep)
            else:
                if kind == "app":
                    b.discard(proj(h[1]))
                else:
                    b.pop(proj(h[1]), None)
        ballots.append(b)

    ops = case["ops"]
    mp = None
    rest = ops
    if ops and ops[0][0] in ("conv", "profile", "init"):
        first, rest = ops[0], ops[1:]
        sel = [ballots[i] for i in first[1]]
        if first[0] == "conv":
            mp = ProfileC(sel, instance=inst).as_multiprofile()
        elif first[0] == "profile":
            mp = MultiC(profile=ProfileC(sel, instance=inst), instance=inst)
        else:
            mp = MultiC([b.frozen() for b in sel], instance=inst)
    if mp is None:
        mp = MultiC(instance=inst)
    for op in rest:
        if op[0] == "append":
            mp.append(ballots[op[1]].frozen())
        elif op[0] == "extend":
            mp.extend([ballots[i] for i in op[1]])
        elif op[0] == "extend_frozen":
            mp.extend([ballots[i].frozen() for i in op[1]])
        elif op[0] == "extend_profile":
            mp.extend(ProfileC([ballots[i] for i in op[1]], instance=inst))
        else:
            raise ValueError("unknown op " + str(op))

    fz = [b.frozen() for b in ballots]
    out = {
        "mp_type": type(mp).__name__,
        "iter": [items_of(b) for b in ballots],
        "len": len(mp),
        "num": int(mp.num_ballots()),
        "mult": [int(mp.multiplicity(b.frozen())) for b in ballots],
        "entries": [[items_of(k), int(c)] for k, c in mp.items()],
        "eq": [[bool(x == y) for y in fz] for x in fz],
        "heq": [[hash(x) == hash(y) for y in fz] for x in fz],
        "frozen": [[items_of(f), name_id(f.name), meta_id(f.meta)] for f in fz],
        "frozen_type_ok": all(type(f) is FrozenC for f in fz),
        "mutable_ids": [[name_id(b.name), meta_id(b.meta)] for b in ballots],
    }
    return out


def main():
    for line in sys.stdin:
        line = line.strip()
        if not line:
            continue
        try:
            obs = run_case(json.loads(line))
        except BaseException as e:  # noqa
            if isinstance(e, (KeyboardInterrupt, SystemExit)):
                raise
            obs = {"exc": type(e).__name__ + ": " + str(e)[:300], "tb": traceback.format_exc()[-1200:]}
        sys.stdout.write(json.dumps(obs) + "\n")
        sys.stdout.flush()


if __name__ == "__main__":
    main()
