"""C19 -- rule comparison returns exactly the best outcomes among the compared rules."""
from __future__ import annotations

from fractions import Fraction

from .. import core
from ..core import q, lst, natl, pair
from .. import pb
from . import c03

NAMING = True
ID = "C19"
ORACLE = "Oracle.C19"
PROPS = "Props/C19.v"
LEVEL = "proof"
SHARD = 150
MAX_DISCARD = 0.05
CODES = {
    1: ("oracle", "social_welfare_comparison does not return exactly the rule outcomes of maximal total satisfaction"),
    2: ("oracle", "popularity_comparison does not return exactly the rule outcomes supported (as a most-preferred "
                  "outcome, voters counted with multiplicity) by the largest number of voters"),
    3: ("oracle", "a returned allocation is not the unmodified output of one of the rules"),
    4: ("model", "social_welfare_comparison differs from the Gallina model (set of sets)"),
    5: ("model", "popularity_comparison differs from the Gallina model (set of sets)"),
    core.RAISED: ("oracle", "the call raised / the interpreter died outside the solver"),
}
RULE = ("elections with 1..6 voters, 2..6 projects, all four ballot types, Profile/MultiProfile (duplicated ballots), "
        "pairs/triples of rules from {greedy x measure, equal shares x additive measure, sequential Phragmen (approval), "
        "welfare maximiser PRIMAL_DUAL x additive measure}, comparison measure over every shipped measure accepted by "
        "the ballot type, optional initial allocation; non-trivial = distinct election in which the rules produced at "
        "least two different outcomes")
ASSUMPTIONS = [
    "hand-written Gallina model of composition.py tied to the code by differential execution only",
    "the model is fed the implementation's own rule outputs (recorded by wrapping the rule callables) and the "
    "satisfaction each element of the implementation's satisfaction profile derives from each output, with its "
    "multiplicity -- rules and measures are inputs here (C02-C05, C10 cover them)",
    "rules are deterministic: both comparisons see the same rule outputs (checked on every case)",
    "CBC is reached only through Relative_Cost_Sat / Additive_Cardinal_Relative_Sat profiles: answers re-validated, faults discarded",
]
TRUSTED = ["Model/Composition.v mirrors pabutools/rules/composition.py (modelled, not verified)"]
EXPLANATION = ("Theorems (unbounded): the argmax-with-ties scan returns exactly the maximisers in order of first "
               "occurrence without duplicates; social_welfare_comparison = outcomes of maximal total satisfaction "
               "(sum of multiplicity x satisfaction); the support of an outcome = sum of multiplicities of the voters "
               "for whom it attains their maximum (indifferent voters support all their top outcomes) and "
               "popularity_comparison = outcomes of maximal support; every returned allocation is one of the rule "
               "outputs.  Tie: a direct boolean restatement of the property and the model are evaluated in Coq on "
               "the implementation's own rule outputs and per-voter satisfactions.")

MES_SATS = {"approval": ["Cost_Sat", "Cardinality_Sat", "Effort_Sat", "Relative_Cardinality_Sat",
                         "Relative_Cost_Approx_Normaliser_Sat", "Additive_Cost_Sqrt_Sat"],
            "cardinal": ["Additive_Cardinal_Sat", "Cost_Sat", "Cardinality_Sat"],
            "cumulative": ["Additive_Cardinal_Sat", "Cost_Sat", "Cardinality_Sat"],
            "ordinal": ["Additive_Borda_Sat", "Cost_Sat", "Cardinality_Sat"]}


def budget(tier):
    return 1500 if tier == "quick" else 20000


def gen(rng, i, tier):
    kind = rng.choice(["approval"] * 9 + ["cardinal"] * 4 + ["cumulative"] * 3 + ["ordinal"] * 4)
    n = rng.choice([2, 3, 4, 4, 5, 5, 6, 6])
    pool = rng.choice(c03.POOLS)
    costs = [pb.F(rng.choice(pool)) for _ in range(n)]
    tot = sum(costs, Fraction(0))
    mode = rng.randrange(5)
    if mode == 0:
        b = sum(rng.sample(costs, rng.randrange(1, n + 1)), Fraction(0))
    elif mode == 1:
        b = tot * Fraction(rng.randrange(2, 7), 8)
    elif mode == 2:
        b = tot / 2
    elif mode == 3:
        b = Fraction(rng.choice([1, 2, 3, 4, 5]))
    else:
        b = max(costs)
    if b <= 0:
        b = Fraction(rng.choice([1, 2]))
    nv = rng.choice([1, 2, 3, 3, 4, 4, 5, 6])
    ballots = c03._gen_ballots(rng, kind, n, nv)
    nonsolver = [s for s in c03.SATS[kind] if s not in c03.SOLVER_SATS]
    rules = []
    nr = rng.choice([2, 2, 3])
    tries = 0
    while len(rules) < nr:
        tries += 1
        r = rng.choice(["greedy", "greedy", "mes", "mes", "maxw"] + (["phragmen"] if kind == "approval" else []))
        if r == "greedy":
            cand = {"rule": r, "sat": rng.choice(nonsolver), "tb": rng.choice(["lexico", "min_cost", "max_cost"])}
        elif r in ("mes", "maxw"):
            cand = {"rule": r, "sat": rng.choice(MES_SATS[kind])}
        else:
            cand = {"rule": r}
        if cand in rules and tries < 20 and rng.random() < 0.9:   # mostly different rules, sometimes the same twice
            continue
        rules.append(cand)
    cmp_sat = rng.choice(c03.SATS[kind])
    if cmp_sat in c03.SOLVER_SATS and rng.random() < 0.6:
        cmp_sat = rng.choice(nonsolver)
    init = []
    if rng.random() < 0.2:
        j = rng.randrange(n)
        if costs[j] <= b:
            init = [j]
    return {"kind": kind, "costs": [pb.qs(c) for c in costs], "budget": pb.qs(b), "ballots": ballots,
            "multi": rng.random() < 0.5, "rules": rules, "cmp": cmp_sat, "init": init,
            "solver": cmp_sat in c03.SOLVER_SATS}


def impl(case):
    """CBC occasionally dead-locks inside the C library: for solver-reaching cases a watchdog thread kills the worker
    (the case is then discarded as a solver fault and the remaining cases are resumed)"""
    import faulthandler

    if case.get("solver"):
        faulthandler.dump_traceback_later(20, exit=True)
    try:
        return _impl(case)
    finally:
        if case.get("solver"):
            faulthandler.cancel_dump_traceback_later()


def _impl(case):
    from pabutools.election import satisfaction as S
    from pabutools import rules as R

    if case.get("solver"):
        pb.install_solver_guard()
        pb.solver_reset()
    inst, projs = pb.make_instance(case["costs"], case["budget"])
    prof = pb.make_profile(case["kind"], inst, projs, case["ballots"], case["multi"])
    recorded = []

    def wrap(rule):
        def f(instance, profile, **kw):
            res = rule(instance, profile, **kw)
            recorded.append(res)
            return res
        return f
    seq, params = [], []
    for r in case["rules"]:
        if r["rule"] == "greedy":
            seq.append(wrap(R.greedy_utilitarian_welfare))
            params.append({"sat_class": getattr(S, r["sat"]), "tie_breaking": c03._tie(r["tb"])})
        elif r["rule"] == "mes":
            seq.append(wrap(R.method_of_equal_shares))
            params.append({"sat_class": getattr(S, r["sat"])})
        elif r["rule"] == "maxw":
            seq.append(wrap(R.max_additive_utilitarian_welfare))
            params.append({"sat_class": getattr(S, r["sat"]), "inner_algo": R.MaxAddUtilWelfareAlgo.PRIMAL_DUAL})
        else:
            seq.append(wrap(R.sequential_phragmen))
            params.append({})
    cmp_cls = getattr(S, case["cmp"])
    init = [projs[j] for j in case["init"]] if case["init"] else None
    swc = R.social_welfare_comparison(inst, prof, cmp_cls, seq, params, initial_budget_allocation=init)
    outs1 = [pb.ranks(r) for r in recorded]
    objs = list(recorded)
    del recorded[:]
    pop = R.popularity_comparison(inst, prof, cmp_cls, seq, params, initial_budget_allocation=init)
    outs2 = [pb.ranks(r) for r in recorded]
    if outs1 != outs2:
        raise RuntimeError("rules are not deterministic: %r vs %r" % (outs1, outs2))
    satp = prof.as_sat_profile(cmp_cls)
    elems = list(satp)
    out = {"outs": outs1,
           "vsat": [[core.qj(s.sat(o)) for s in elems] for o in objs],
           "mults": [int(satp.multiplicity(s)) for s in elems],
           "swc": [pb.ranks(r) for r in swc], "pop": [pb.ranks(r) for r in pop]}
    if case.get("solver"):
        st = pb.solver_state()
        if st["faults"]:
            out["solver_fault"] = st["last_fault"]
    return out


def coq_case(case, o):
    outs = lst([pair(natl(a), core.qlist(v)) for a, v in zip(o["outs"], o["vsat"])])
    return "(mkCase %s %s %s %s)" % (outs, natl(o["mults"]), lst([natl(w) for w in o["swc"]]),
                                     lst([natl(w) for w in o["pop"]]))


def _distinct(o):
    return len({tuple(sorted(a)) for a in o["outs"]})


def nontrivial(case, o):
    if not isinstance(o, dict) or "outs" not in o:
        return None
    if _distinct(o) >= 2:
        return [case["kind"], case["costs"], case["budget"], case["ballots"], case["rules"], case["cmp"],
                case["multi"], case["init"]]
    return None


def stats(cases, obs):
    d = {"ballot_type": {}, "cmp_measure": {}, "rule_kinds": {}, "n_rules": {}, "multiprofile": 0,
         "multiplicity_ge_2": 0, "distinct_outcomes_hist": {}, "same_set_different_order": 0,
         "swc_tie_between_distinct_outcomes": 0, "swc_single_winner_of_several": 0,
         "pop_tie_between_distinct_outcomes": 0, "pop_single_winner_of_several": 0,
         "some_voter_indifferent_between_distinct_outcomes": 0, "swc_and_pop_disagree": 0, "with_init": 0,
         "solver_reaching": 0}

    def inc(h, k):
        h[str(k)] = h.get(str(k), 0) + 1
    for c, o in zip(cases, obs):
        if not isinstance(o, dict) or "outs" not in o:
            continue
        inc(d["ballot_type"], c["kind"])
        inc(d["cmp_measure"], c["cmp"])
        inc(d["n_rules"], len(c["rules"]))
        for r in c["rules"]:
            inc(d["rule_kinds"], r["rule"])
        d["multiprofile"] += bool(c["multi"])
        d["multiplicity_ge_2"] += any(m >= 2 for m in o["mults"])
        k = _distinct(o)
        inc(d["distinct_outcomes_hist"], k)
        d["same_set_different_order"] += len({tuple(a) for a in o["outs"]}) > k
        ws = {tuple(sorted(a)) for a in o["swc"]}
        wp = {tuple(sorted(a)) for a in o["pop"]}
        d["swc_tie_between_distinct_outcomes"] += len(ws) >= 2
        d["swc_single_winner_of_several"] += (k >= 2 and len(ws) == 1)
        d["pop_tie_between_distinct_outcomes"] += len(wp) >= 2
        d["pop_single_winner_of_several"] += (k >= 2 and len(wp) == 1)
        d["swc_and_pop_disagree"] += ws != wp
        indiff = False
        for j in range(len(o["mults"])):
            vals = {}
            for a, v in zip(o["outs"], o["vsat"]):
                vals[tuple(sorted(a))] = Fraction(v[j])
            mx = max(vals.values()) if vals else None
            if sum(1 for x in vals.values() if x == mx) >= 2:
                indiff = True
        d["some_voter_indifferent_between_distinct_outcomes"] += indiff
        d["with_init"] += bool(c["init"])
        d["solver_reaching"] += bool(c.get("solver"))
    return d


def shrink(case):
    if len(case["rules"]) > 2:
        for j in range(len(case["rules"])):
            c = dict(case)
            c["rules"] = case["rules"][:j] + case["rules"][j + 1:]
            yield c
    for j in range(len(case["ballots"])):
        if len(case["ballots"]) > 1:
            c = dict(case)
            c["ballots"] = case["ballots"][:j] + case["ballots"][j + 1:]
            yield c
    if case["multi"]:
        c = dict(case)
        c["multi"] = False
        yield c
    if case["init"]:
        c = dict(case)
        c["init"] = []
        yield c
