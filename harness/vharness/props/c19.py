"""C19 -- rule comparison returns exactly the best outcomes among the compared rules."""
from __future__ import annotations

from fractions import Fraction

from .. import core
from ..core import q, lst, natl, pair
from .. import pb
from . import c03

NAMING = True
ID = "C19"
ORACLE = "Oracle.C19"
PROPS = ["Props/C19.v", "Props/C19gen.v"]
LEVEL = "proof"
SHARD = 150
MAX_DISCARD = 0.05
CODES = {
    1: ("oracle", "social_welfare_comparison does not return exactly the rule outcomes of maximal total satisfaction"),
    2: ("oracle", "popularity_comparison does not return exactly the rule outcomes supported (as a most-preferred "
                  "outcome, voters counted with multiplicity) by the largest number of voters"),
    3: ("oracle", "a returned allocation is not the unmodified output of one of the rules"),
    4: ("model", "social_welfare_comparison differs from the Gallina model (set of sets)"),
    5: ("model", "popularity_comparison differs from the Gallina model (set of sets)"),
    6: ("oracle", "a returned allocation is not the outcome of any of the rules called on its own with the caller's "
                  "initial allocation (the rules were not run on the election / initial allocation given)"),
    core.RAISED: ("oracle", "the call raised / the interpreter died outside the solver"),
}
RULE = ("three streams: general (1/2); NEAR-TIE (1/3): two rules with different outcomes whose welfare differs by a relative "
        "1e-7..1e-17 (costs c and c(1+eps) under Cost_Sat / Relative_* / sqrt / log measures, scores beyond 2**53 differing "
        "by one) or whose supports differ by one voter in 10^4..10^5 (multiprofile multiplicities) -- the better outcome "
        "must be returned alone; ZERO-COST (1/6): supported zero-cost projects, equal shares first, initial allocation "
        "handed over as BudgetAllocation / tuple / generator / list.  Every case also runs each rule ON ITS OWN on a freshly "
        "built election with a fresh copy of the initial allocation: every returned allocation must be one of those "
        "outcomes.  General stream: elections with 1..6 voters, 2..6 projects, all four ballot types, Profile/MultiProfile (duplicated ballots), "
        "pairs/triples of rules from {greedy x measure, equal shares x additive measure, sequential Phragmen (approval), "
        "welfare maximiser PRIMAL_DUAL x additive measure}, comparison measure over every shipped measure accepted by "
        "the ballot type, optional initial allocation; non-trivial = distinct election in which the rules produced at "
        "least two different outcomes")
ASSUMPTIONS = [
    "hand-written Gallina model of composition.py tied to the code by differential execution only",
    "the model is fed the implementation's own rule outputs (recorded by wrapping the rule callables) and the "
    "satisfaction each element of the implementation's satisfaction profile derives from each output, with its "
    "multiplicity -- rules and measures are inputs here (C02-C05, C10 cover them)",
    "rules are deterministic: both comparisons see the same rule outputs (checked on every case)",
    "CBC is reached only through Relative_Cost_Sat / Additive_Cardinal_Relative_Sat profiles: answers re-validated, faults discarded",
]
TRUSTED = ["Model/Composition.v mirrors pabutools/rules/composition.py (modelled, not verified)"]
EXPLANATION = ("Theorems (unbounded): the argmax-with-ties scan returns exactly the maximisers in order of first "
               "occurrence without duplicates; social_welfare_comparison = outcomes of maximal total satisfaction "
               "(sum of multiplicity x satisfaction); the support of an outcome = sum of multiplicities of the voters "
               "for whom it attains their maximum (indifferent voters support all their top outcomes) and "
               "popularity_comparison = outcomes of maximal support; every returned allocation is one of the rule "
               "outputs.  Tie: a direct boolean restatement of the property and the model are evaluated in Coq on "
               "the implementation's own rule outputs and per-voter satisfactions.")

MES_SATS = {"approval": ["Cost_Sat", "Cardinality_Sat", "Effort_Sat", "Relative_Cardinality_Sat",
                         "Relative_Cost_Approx_Normaliser_Sat", "Additive_Cost_Sqrt_Sat"],
            "cardinal": ["Additive_Cardinal_Sat", "Cost_Sat", "Cardinality_Sat"],
            "cumulative": ["Additive_Cardinal_Sat", "Cost_Sat", "Cardinality_Sat"],
            "ordinal": ["Additive_Borda_Sat", "Cost_Sat", "Cardinality_Sat"]}


def budget(tier):
    return 1500 if tier == "quick" else 20000


def _gen_general(rng, i, tier):
    kind = rng.choice(["approval"] * 9 + ["cardinal"] * 4 + ["cumulative"] * 3 + ["ordinal"] * 4)
    n = rng.choice([2, 3, 4, 4, 5, 5, 6, 6])
    pool = rng.choice(c03.POOLS)
    costs = [pb.F(rng.choice(pool)) for _ in range(n)]
    tot = sum(costs, Fraction(0))
    mode = rng.randrange(5)
    if mode == 0:
        b = sum(rng.sample(costs, rng.randrange(1, n + 1)), Fraction(0))
    elif mode == 1:
        b = tot * Fraction(rng.randrange(2, 7), 8)
    elif mode == 2:
        b = tot / 2
    elif mode == 3:
        b = Fraction(rng.choice([1, 2, 3, 4, 5]))
    else:
        b = max(costs)
    if b <= 0:
        b = Fraction(rng.choice([1, 2]))
    nv = rng.choice([1, 2, 3, 3, 4, 4, 5, 6])
    ballots = c03._gen_ballots(rng, kind, n, nv)
    nonsolver = [s for s in c03.SATS[kind] if s not in c03.SOLVER_SATS]
    rules = []
    nr = rng.choice([2, 2, 3])
    tries = 0
    while len(rules) < nr:
        tries += 1
        r = rng.choice(["greedy", "greedy", "mes", "mes", "maxw"] + (["phragmen"] if kind == "approval" else []))
        if r == "greedy":
            cand = {"rule": r, "sat": rng.choice(nonsolver), "tb": rng.choice(["lexico", "min_cost", "max_cost"])}
        elif r in ("mes", "maxw"):
            cand = {"rule": r, "sat": rng.choice(MES_SATS[kind])}
        else:
            cand = {"rule": r}
        if cand in rules and tries < 20 and rng.random() < 0.9:   # mostly different rules, sometimes the same twice
            continue
        rules.append(cand)
    cmp_sat = rng.choice(c03.SATS[kind])
    if cmp_sat in c03.SOLVER_SATS and rng.random() < 0.6:
        cmp_sat = rng.choice(nonsolver)
    init = []
    if rng.random() < 0.2:
        j = rng.randrange(n)
        if costs[j] <= b:
            init = [j]
    return {"kind": kind, "costs": [pb.qs(c) for c in costs], "budget": pb.qs(b), "ballots": ballots,
            "multi": rng.random() < 0.5, "rules": rules, "cmp": cmp_sat, "init": init,
            "solver": cmp_sat in c03.SOLVER_SATS}


def _gen_near(rng, i, tier):
    """two rules produce two different outcomes whose welfare / support differ by very little: the better one must be
    returned alone by both comparisons (any rounding or float short-cut reports a tie or the wrong winner)"""
    v = rng.randrange(4)
    multi = rng.random() < 0.5
    mults = None
    if v in (0, 1):
        # costs c and c(1+eps), only one fits; every voter approves both
        eps = Fraction(1, 10 ** rng.choice([7, 7, 8, 9, 10, 13, 17]))
        c = pb.F(rng.choice([1, 1, 2, "1/3", 1000]))
        costs = [c, c * (1 + eps)]
        b = costs[1]
        nvot = rng.choice([1, 2, 3])
        ballots = [[0, 1] for _ in range(nvot)]
        kind = "approval"
        rules = [{"rule": "greedy", "sat": "Cardinality_Sat", "tb": "lexico"},       # -> the cheaper project p0
                 {"rule": "greedy", "sat": "Cost_Sat", "tb": "max_cost"}]           # density tie -> the dearer p1
        cmp_sat = rng.choice(["Cost_Sat", "Cost_Sat", "Relative_Cost_Approx_Normaliser_Sat", "Additive_Cost_Sqrt_Sat",
                              "Cost_Sqrt_Sat", "Additive_Cost_Log_Sat"])
        if v == 1:                                       # a third, clearly worse, outcome
            costs.append(c / 2)
            ballots = [bl + [2] for bl in ballots[:1]] + ballots[1:]
            rules.append({"rule": "greedy", "sat": "Cardinality_Sat", "tb": "min_cost"})
    elif v == 2:
        # scores beyond 2**53 that differ by one
        kind = rng.choice(["cardinal", "cumulative"])
        big = 2 ** rng.choice([53, 54, 60, 64]) + rng.randrange(0, 1000)
        costs = [Fraction(1), Fraction(1)]
        b = Fraction(1)
        ballots = [{"0": "%d/1" % big, "1": "%d/1" % (big + 1)}]
        if rng.random() < 0.5:
            ballots.append({"0": "1/1", "1": "1/1"})
        rules = [{"rule": "greedy", "sat": "Cardinality_Sat", "tb": "lexico"},       # tie -> p0
                 {"rule": "greedy", "sat": "Additive_Cardinal_Sat", "tb": "lexico"}]  # -> p1 (one more point)
        cmp_sat = "Additive_Cardinal_Sat"
    else:
        # supports m and m+1 through multiplicities of a multiprofile
        kind = "approval"
        m = rng.choice([10 ** 4, 5 * 10 ** 4, 10 ** 5]) + rng.randrange(0, 50)
        costs = [Fraction(1), Fraction(2)]
        b = Fraction(2)
        ballots = [[0], [1]]
        mults = [m, m + 1]
        multi = True
        rules = [{"rule": "greedy", "sat": "Cardinality_Sat", "tb": "lexico"},       # m/1 > (m+1)/2 -> p0
                 {"rule": "greedy", "sat": "Cost_Sat", "tb": "lexico"}]             # m < m+1 -> p1
        cmp_sat = rng.choice(["Cardinality_Sat", "CC_Sat"])
    if rng.random() < 0.5:
        rules.reverse()
    case = {"kind": kind, "costs": [pb.qs(x) for x in costs], "budget": pb.qs(b), "ballots": ballots, "multi": multi,
            "rules": rules, "cmp": cmp_sat, "init": [], "solver": False, "stream": "near_tie"}
    if mults:
        case["mults"] = mults
    return case


def _gen_zero(rng, i, tier):
    """supported zero-cost projects + an initial allocation handed over as a BudgetAllocation: a rule that adds the
    free projects to the object it was given would change what the rules after it start from"""
    case = _gen_general(rng, i, tier)
    while case["solver"]:
        case = _gen_general(rng, i, tier)
    kind = case["kind"]
    n = len(case["costs"])
    zs = rng.sample(range(n), rng.choice([1, 1, 2]) if n > 2 else 1)
    for z in zs:
        case["costs"][z] = "0/1"
    # somebody supports the free projects
    for bl in case["ballots"][: max(1, len(case["ballots"]) // 2)]:
        for z in zs:
            if kind in ("approval", "ordinal"):
                if z not in bl:
                    bl.append(z)
            else:
                bl[str(z)] = "1/1"
    if kind == "approval":
        case["ballots"] = [sorted(set(bl)) for bl in case["ballots"]]
    first = {"rule": "mes", "sat": "Cardinality_Sat"}                       # free supported projects have sat 1
    later = rng.choice([{"rule": "mes", "sat": "Cost_Sat"}, {"rule": "maxw", "sat": "Cost_Sat"},
                        {"rule": "mes", "sat": "Cost_Sat"}] + ([{"rule": "phragmen"}] if kind == "approval" else []))
    case["rules"] = [first, later] + ([rng.choice(case["rules"])] if rng.random() < 0.4 else [])
    costs = [pb.F(c) for c in case["costs"]]
    cand = [j for j in range(n) if j not in zs and costs[j] <= pb.F(case["budget"])]
    case["init"] = [rng.choice(cand)] if (cand and rng.random() < 0.7) else []
    case["stream"] = "zero_cost"
    return case


def gen(rng, i, tier):
    r = i % 6
    if r == 3:
        case = _gen_zero(rng, i, tier)
    elif r in (4, 5):
        case = _gen_near(rng, i, tier)
    else:
        case = _gen_general(rng, i, tier)
        case["stream"] = "general"
    case["init_form"] = rng.choice(["list", "budgetallocation", "budgetallocation", "tuple", "genexpr"])
    return case


def _make_profile(case, inst, projs):
    if case.get("mults"):
        lp = pb.make_profile(case["kind"], inst, projs, case["ballots"], False)
        mp = lp.as_multiprofile()
        for bl, m in zip(lp, case["mults"]):
            mp[bl.frozen()] = int(m)
        return mp
    return pb.make_profile(case["kind"], inst, projs, case["ballots"], case["multi"])


def _init_arg(case, projs):
    from pabutools.rules import BudgetAllocation

    items = [projs[j] for j in case["init"]]
    form = case.get("init_form", "list")
    if not items and form == "list":
        return None
    if form == "budgetallocation":
        return BudgetAllocation(items)
    if form == "tuple":
        return tuple(items)
    if form == "genexpr":
        return (p for p in items)
    return items


def impl(case):
    """CBC occasionally dead-locks inside the C library: for solver-reaching cases a watchdog thread kills the worker
    (the case is then discarded as a solver fault and the remaining cases are resumed)"""
    import faulthandler

    if case.get("solver"):
        faulthandler.dump_traceback_later(20, exit=True)
    try:
        return _impl(case)
    finally:
        if case.get("solver"):
            faulthandler.cancel_dump_traceback_later()


def _impl(case):
    from pabutools.election import satisfaction as S
    from pabutools import rules as R

    if case.get("solver"):
        pb.install_solver_guard()
        pb.solver_reset()
    inst, projs = pb.make_instance(case["costs"], case["budget"])
    prof = _make_profile(case, inst, projs)
    recorded = []
    plain = []

    def wrap(rule):
        def f(instance, profile, **kw):
            res = rule(instance, profile, **kw)
            recorded.append(res)
            return res
        return f
    seq, params = [], []
    for r in case["rules"]:
        plain.append({"greedy": R.greedy_utilitarian_welfare, "mes": R.method_of_equal_shares,
                      "maxw": R.max_additive_utilitarian_welfare, "phragmen": R.sequential_phragmen}[r["rule"]])
        if r["rule"] == "greedy":
            seq.append(wrap(R.greedy_utilitarian_welfare))
            params.append({"sat_class": getattr(S, r["sat"]), "tie_breaking": c03._tie(r["tb"])})
        elif r["rule"] == "mes":
            seq.append(wrap(R.method_of_equal_shares))
            params.append({"sat_class": getattr(S, r["sat"])})
        elif r["rule"] == "maxw":
            seq.append(wrap(R.max_additive_utilitarian_welfare))
            params.append({"sat_class": getattr(S, r["sat"]), "inner_algo": R.MaxAddUtilWelfareAlgo.PRIMAL_DUAL})
        else:
            seq.append(wrap(R.sequential_phragmen))
            params.append({})
    cmp_cls = getattr(S, case["cmp"])
    swc = R.social_welfare_comparison(inst, prof, cmp_cls, seq, params,
                                      initial_budget_allocation=_init_arg(case, projs))
    outs1 = [pb.ranks(r) for r in recorded]
    objs = list(recorded)
    del recorded[:]
    pop = R.popularity_comparison(inst, prof, cmp_cls, seq, params,
                                  initial_budget_allocation=_init_arg(case, projs))
    outs2 = [pb.ranks(r) for r in recorded]
    if outs1 != outs2:
        raise RuntimeError("rules are not deterministic: %r vs %r" % (outs1, outs2))
    # every rule on its own, on a freshly built election, with a fresh copy of the caller's initial allocation
    inst2, projs2 = pb.make_instance(case["costs"], case["budget"])
    prof2 = _make_profile(case, inst2, projs2)
    alone = []
    for rule, par in zip(plain, params):
        alone.append(pb.ranks(rule(inst2, prof2, initial_budget_allocation=R.BudgetAllocation(
            [projs2[j] for j in case["init"]]), **par)))
    satp = prof.as_sat_profile(cmp_cls)
    elems = list(satp)
    out = {"outs": outs1, "alone": alone,
           "vsat": [[core.qj(s.sat(o)) for s in elems] for o in objs],
           "mults": [int(satp.multiplicity(s)) for s in elems],
           "swc": [pb.ranks(r) for r in swc], "pop": [pb.ranks(r) for r in pop]}
    if case.get("solver"):
        st = pb.solver_state()
        if st["faults"]:
            out["solver_fault"] = st["last_fault"]
    return out


def coq_case(case, o):
    outs = lst([pair(natl(a), core.qlist(v)) for a, v in zip(o["outs"], o["vsat"])])
    return "(mkCase %s %s %s %s %s)" % (outs, natl(o["mults"]), lst([natl(w) for w in o["swc"]]),
                                        lst([natl(w) for w in o["pop"]]), lst([natl(w) for w in o["alone"]]))


def _distinct(o):
    return len({tuple(sorted(a)) for a in o["outs"]})


def nontrivial(case, o):
    if not isinstance(o, dict) or "outs" not in o:
        return None
    if _distinct(o) >= 2:
        return [case["kind"], case["costs"], case["budget"], case["ballots"], case["rules"], case["cmp"],
                case["multi"], case["init"]]
    return None


def stats(cases, obs):
    d = {"ballot_type": {}, "cmp_measure": {}, "rule_kinds": {}, "n_rules": {}, "multiprofile": 0,
         "multiplicity_ge_2": 0, "distinct_outcomes_hist": {}, "same_set_different_order": 0,
         "swc_tie_between_distinct_outcomes": 0, "swc_single_winner_of_several": 0,
         "pop_tie_between_distinct_outcomes": 0, "pop_single_winner_of_several": 0,
         "some_voter_indifferent_between_distinct_outcomes": 0, "swc_and_pop_disagree": 0, "with_init": 0,
         "solver_reaching": 0, "stream": {}, "init_form": {}, "welfare_gap_below_1e-6_abs": 0,
         "welfare_rel_gap_below_1e-9": 0, "support_gap_one_voter_of_1e4_or_more": 0,
         "voter_near_indifferent_gap_below_1e-6": 0, "zero_cost_supported_project": 0,
         "recorded_output_differs_from_rule_alone": 0}

    def inc(h, k):
        h[str(k)] = h.get(str(k), 0) + 1
    for c, o in zip(cases, obs):
        if not isinstance(o, dict) or "outs" not in o:
            continue
        inc(d["ballot_type"], c["kind"])
        inc(d["cmp_measure"], c["cmp"])
        inc(d["n_rules"], len(c["rules"]))
        for r in c["rules"]:
            inc(d["rule_kinds"], r["rule"])
        d["multiprofile"] += bool(c["multi"])
        d["multiplicity_ge_2"] += any(m >= 2 for m in o["mults"])
        k = _distinct(o)
        inc(d["distinct_outcomes_hist"], k)
        d["same_set_different_order"] += len({tuple(a) for a in o["outs"]}) > k
        ws = {tuple(sorted(a)) for a in o["swc"]}
        wp = {tuple(sorted(a)) for a in o["pop"]}
        d["swc_tie_between_distinct_outcomes"] += len(ws) >= 2
        d["swc_single_winner_of_several"] += (k >= 2 and len(ws) == 1)
        d["pop_tie_between_distinct_outcomes"] += len(wp) >= 2
        d["pop_single_winner_of_several"] += (k >= 2 and len(wp) == 1)
        d["swc_and_pop_disagree"] += ws != wp
        indiff = False
        for j in range(len(o["mults"])):
            vals = {}
            for a, v in zip(o["outs"], o["vsat"]):
                vals[tuple(sorted(a))] = Fraction(v[j])
            mx = max(vals.values()) if vals else None
            if sum(1 for x in vals.values() if x == mx) >= 2:
                indiff = True
        d["some_voter_indifferent_between_distinct_outcomes"] += indiff
        d["with_init"] += bool(c["init"])
        inc(d["stream"], c.get("stream", "corpus"))
        inc(d["init_form"], c.get("init_form", "list"))
        d["recorded_output_differs_from_rule_alone"] += any(sorted(a) != sorted(b_) for a, b_ in zip(o["outs"], o.get("alone", o["outs"])))
        tots, sups = {}, {}
        for a, v in zip(o["outs"], o["vsat"]):
            key = tuple(sorted(a))
            tots[key] = sum(Fraction(x) * m for x, m in zip(v, o["mults"]))
        tv = sorted(set(tots.values()))
        if len(tv) >= 2:
            gap = tv[-1] - tv[-2]
            d["welfare_gap_below_1e-6_abs"] += gap < Fraction(1, 10 ** 6)
            d["welfare_rel_gap_below_1e-9"] += tv[-1] > 0 and gap / tv[-1] < Fraction(1, 10 ** 9)
        near_v = False
        for j in range(len(o["mults"])):
            vals = sorted({Fraction(v[j]) for v in o["vsat"]})
            if len(vals) >= 2 and vals[-1] - vals[-2] < Fraction(1, 10 ** 6):
                near_v = True
        d["voter_near_indifferent_gap_below_1e-6"] += near_v
        keys_ = list(tots)
        for key in keys_:
            sup = 0
            for j, m in enumerate(o["mults"]):
                mx = max(Fraction(v[j]) for v in o["vsat"])
                vj = [Fraction(v[j]) for a, v in zip(o["outs"], o["vsat"]) if tuple(sorted(a)) == key][0]
                if vj == mx:
                    sup += m
            sups[key] = sup
        sv = sorted(set(sups.values()))
        d["support_gap_one_voter_of_1e4_or_more"] += len(sv) >= 2 and sv[-1] - sv[-2] == 1 and sv[-1] >= 10 ** 4
        cs_ = [pb.F(x) for x in c["costs"]]
        d["zero_cost_supported_project"] += any(cs_[j] == 0 and any((j in bl) if not isinstance(bl, dict) else (str(j) in bl) for bl in c["ballots"]) for j in range(len(cs_)))
        d["solver_reaching"] += bool(c.get("solver"))
    return d


def shrink(case):
    if len(case["rules"]) > 2:
        for j in range(len(case["rules"])):
            c = dict(case)
            c["rules"] = case["rules"][:j] + case["rules"][j + 1:]
            yield c
    for j in range(len(case["ballots"])):
        if len(case["ballots"]) > 1:
            c = dict(case)
            c["ballots"] = case["ballots"][:j] + case["ballots"][j + 1:]
            yield c
    if case["multi"]:
        c = dict(case)
        c["multi"] = False
        yield c
    if case["init"]:
        c = dict(case)
        c["init"] = []
        yield c
